package shmipc

// Binding for module Listener (specs/Listener.tla) - an additional pass of C14.
//
// The REAL Listener of listener.go (real NewListener on a unix socket in a scratch directory, real Run / Close / sessions
// set / sessionCallback, real server sessions created by the real newSession from real client connections of this
// process) is driven through behaviours of the TLC state graph:
//   * the goroutines that execute listener code (Run, the callers of Listener.Close, the goroutine in which a session
//     shuts down because its peer went away) are threads of the serialising scheduler (zz_vs_sched.go); listener.go is
//     rewritten at check time (tools/instr) so that every Lock/Unlock of Listener.mu and sessions.sessionMu and every
//     statement of Run/Close/add/removeShutdownSession/closeAll/sessionCallback.OnShutdown is a scheduling point;
//     one spec action = run the thread to its next lock / unlock / Accept / ln.Close point;
//   * l.ln is wrapped by a net.Listener that puts a scheduling point in front of Accept and Close and can return a
//     temporary / "too many open files" / fatal error instead of calling the real Accept;
//   * after every step the projected real state (isClose, shutdownErrStr, delivered OnShutdown reasons, raw listener
//     closed, socket file, sessions.data nil / members, Session.IsClosed, lock states, where every thread is parked) is
//     compared with the spec state of that step (SPEC-DRIFT on mismatch; the map iteration order of closeAll is matched
//     against all alternatives of the spec);
//   * property oracles are evaluated on the real objects independently of the spec (see lsnFinal / lsnStepOracles).
// Mode "random": free running goroutines (scheduler off, real epoll loop notices real peer deaths), oracles only.

import (
	"encoding/json"
	"errors"
	"fmt"
	"io"
	"math/rand"
	"net"
	"os"
	"os/exec"
	"runtime"
	"sort"
	"strings"
	"sync"
	"sync/atomic"
	"syscall"
	"testing"
	"time"
)

// ---------------------------------------------------------------------------------------------------------------
// job / result

type lsnEdge struct {
	S   int    `json:"s"`
	D   int    `json:"d"`
	Op  string `json:"op"`
	T   int    `json:"t"`
	A   int    `json:"a"`
	Lab string `json:"lab"`
}

type lsnGraph struct {
	Name     string    `json:"name"`
	NSess    int       `json:"nsess"`
	NClosers int       `json:"nclosers"`
	Unlink   bool      `json:"unlink"`
	Init     int       `json:"init"`
	Nodes    [][]int   `json:"nodes"`
	Kf       []int     `json:"kf"` // per node: bit 1 = self-deadlock class, bit 2 = stale class
	Edges    []lsnEdge `json:"edges"`
	Paths    [][]int   `json:"paths"`
}

type lsnStep struct {
	Op   string `json:"op"`
	T    int    `json:"t"`
	A    int    `json:"a"`
	Proj []int  `json:"proj,omitempty"`
}

type lsnExplicit struct {
	Name     string    `json:"name"`
	NSess    int       `json:"nsess"`
	NClosers int       `json:"nclosers"`
	Unlink   bool      `json:"unlink"`
	Steps    []lsnStep `json:"steps"`
	Class    string    `json:"class"`
}

type lsnRandomCfg struct {
	Worlds int   `json:"worlds"`
	Seeds  []int `json:"seeds"` // explicit seeds (replay)
}

type lsnJob struct {
	Graphs   []lsnGraph    `json:"graphs"`
	Explicit []lsnExplicit `json:"explicit"`
	Random   lsnRandomCfg  `json:"random"`
	Seed     int64         `json:"seed"`
	Procs    int           `json:"procs"`
	BudgetMs int           `json:"budget_ms"`
	PruneKf  int           `json:"prune_kf"` // classes (bits) that the walk must not enter
	Listed   []string      `json:"listed"`   // slugs present in known-findings.txt
	Child    int           `json:"child"`
}

type lsnViolation struct {
	Kind     string      `json:"kind"`
	Detail   string      `json:"detail"`
	Class    string      `json:"class"` // slug of the finding class the witness belongs to ("" = none)
	Source   string      `json:"source"`
	Explicit lsnExplicit `json:"explicit"` // the executed history (replayable)
	RandSeed int         `json:"rand_seed"`
}

type lsnResult struct {
	Paths      int                     `json:"paths"`
	Steps      int                     `json:"steps"`
	Compared   int                     `json:"compared"`
	Conforming int                     `json:"conforming"`
	NdDiverged int                     `json:"nd_diverged"`
	EnvAborted int                     `json:"env_aborted"`
	EnvNotes   []string                `json:"env_notes"`
	DriftCount int                     `json:"drift_count"`
	Drift      []string                `json:"drift"`
	Violations []lsnViolation          `json:"violations"`
	ClassHits  map[string]int          `json:"class_hits"`
	ClassWit   map[string]lsnViolation `json:"class_witness"`
	ExplRes    map[string]string       `json:"explicit_results"` // explicit path name -> "class:<slug>" | "clean" | "violation" | "env" | "drift"
	Covered    [][]int                 `json:"covered"`
	Samples    []string                `json:"samples"`
	Counters   map[string]int          `json:"counters"`
	HarnessErr []string                `json:"harness_err"`
	RandWorlds int                     `json:"random_worlds"`
	RandJudged int                     `json:"random_judged"`
	RandSlow   int                     `json:"random_slow"`
}

func lsnNewResult() *lsnResult {
	return &lsnResult{EnvNotes: []string{}, Drift: []string{}, Violations: []lsnViolation{}, ClassHits: map[string]int{},
		ClassWit: map[string]lsnViolation{}, ExplRes: map[string]string{}, Covered: [][]int{}, Samples: []string{},
		Counters: map[string]int{}, HarnessErr: []string{}}
}

const (
	lsnSlugDeadlock = "listener-add-after-close-self-deadlock"
	lsnSlugStale    = "listener-dead-session-registered"
)

// ---------------------------------------------------------------------------------------------------------------
// thread ids / pc codes (as in Listener.tla)

const (
	lsnRUN       = 100
	lsnCloser0   = 200
	lsnPcIdle    = 0
	lsnPcAcc     = 1
	lsnPcAddL    = 2
	lsnPcAddU    = 3
	lsnPcClsL    = 4
	lsnPcLnc     = 5
	lsnPcCaL     = 6
	lsnPcCaU     = 7
	lsnPcRmL     = 8
	lsnPcRmU     = 9
	lsnPcDone    = 10
	lsnPlanReal  = 0
	lsnPlanTemp  = 1
	lsnPlanEmf   = 2
	lsnPlanFatal = 3
)

func lsnPcOf(label string) int {
	switch {
	case label == "done":
		return lsnPcDone
	case label == "lsn:accept":
		return lsnPcAcc
	case label == "lsn:ln.Close":
		return lsnPcLnc
	case strings.HasPrefix(label, "sessions.add:lock#"):
		return lsnPcAddL
	case strings.HasPrefix(label, "sessions.add:unlock#"):
		return lsnPcAddU
	case strings.HasPrefix(label, "Listener.Close:lock#"):
		return lsnPcClsL
	case strings.HasPrefix(label, "sessions.closeAll:lock#"):
		return lsnPcCaL
	case strings.HasPrefix(label, "sessions.closeAll:unlock#"):
		return lsnPcCaU
	case strings.HasPrefix(label, "sessions.removeShutdownSession:lock#"):
		return lsnPcRmL
	case strings.HasPrefix(label, "sessions.removeShutdownSession:unlock#"):
		return lsnPcRmU
	}
	return -1
}

// a point of the spec: lock / unlock of the two mutexes, Accept, ln.Close (also foreign Lock/Unlock labels, should a
// change add one: the thread parks there and the projection shows pc -1 = drift, not a hang)
func lsnStop(label string) bool {
	if lsnPcOf(label) >= 0 {
		return true
	}
	return strings.Contains(label, ":lock#") || strings.Contains(label, ":unlock#")
}

// ---------------------------------------------------------------------------------------------------------------
// the wrapped raw listener and the user's ListenCallback

type lsnTempErr struct{}

func (lsnTempErr) Error() string   { return "injected temporary accept error" }
func (lsnTempErr) Timeout() bool   { return false }
func (lsnTempErr) Temporary() bool { return true }

type lsnLn struct {
	inner      net.Listener
	mu         sync.Mutex
	plans      []int
	closeCalls int32
	accepts    int32
}

func (g *lsnLn) pushPlan(p int) {
	g.mu.Lock()
	g.plans = append(g.plans, p)
	g.mu.Unlock()
}

func (g *lsnLn) Accept() (net.Conn, error) {
	vsYield("lsn:accept")
	atomic.AddInt32(&g.accepts, 1)
	p := lsnPlanReal
	g.mu.Lock()
	if len(g.plans) > 0 {
		p = g.plans[0]
		g.plans = g.plans[1:]
	}
	g.mu.Unlock()
	switch p {
	case lsnPlanTemp:
		return nil, lsnTempErr{}
	case lsnPlanEmf:
		return nil, errors.New("accept unix: accept4: too many open files")
	case lsnPlanFatal:
		return nil, errors.New("injected fatal accept error")
	}
	return g.inner.Accept()
}

func (g *lsnLn) Close() error {
	vsYield("lsn:ln.Close")
	atomic.AddInt32(&g.closeCalls, 1)
	return g.inner.Close()
}

func (g *lsnLn) Addr() net.Addr { return g.inner.Addr() }

type lsnShut struct {
	reason string
	byRun  bool
	errAt  string // l.shutdownErrStr when the callback was entered
}

type lsnCb struct {
	mu      sync.Mutex
	l       *Listener
	shuts   []lsnShut
	streams []*Stream
}

func (c *lsnCb) OnNewStream(s *Stream) {
	c.mu.Lock()
	c.streams = append(c.streams, s)
	c.mu.Unlock()
}

func (c *lsnCb) OnShutdown(reason string) {
	buf := make([]byte, 16<<10)
	buf = buf[:runtime.Stack(buf, false)]
	sh := lsnShut{reason: reason, byRun: strings.Contains(string(buf), ".(*Listener).Run(")}
	if c.l != nil {
		sh.errAt = c.l.shutdownErrStr // under l.mu in the pinned code; a torn read could only show in free running mode
	}
	c.mu.Lock()
	c.shuts = append(c.shuts, sh)
	c.mu.Unlock()
}

func (c *lsnCb) snapshot() ([]lsnShut, []*Stream) {
	c.mu.Lock()
	defer c.mu.Unlock()
	return append([]lsnShut{}, c.shuts...), append([]*Stream{}, c.streams...)
}

// ---------------------------------------------------------------------------------------------------------------
// world

var lsnWorldSeq int64

type lsnClientRes struct {
	s   *Session
	err error
}

type lsnWorld struct {
	id       int64
	dir      string
	path     string
	unlink   bool
	nsess    int
	nclosers int
	sched    bool
	l        *Listener
	gl       *lsnLn
	cb       *lsnCb

	threads   []*vsThread
	byID      map[int]*vsThread
	runErr    error
	runRet    bool
	closeErr  map[int]error
	closeRet  map[int]bool
	trail     map[int][]string
	closingOf map[int]int // thread id -> session whose shutdown it has won (sweep pending)
	sweptAt   map[int]int // session -> step at which its own sweep was over
	addAt     map[int]int // session -> step at which the accept loop went through add's Lock
	stepNo    int
	srv       map[int]*Session
	cl        map[int]*Session
	allSrv    []*Session
	known     map[*Session]bool
	strWant   map[int]int
	clients   []*Session
	rawConns  []net.Conn

	recs      []lsnStep
	envAbort  string
	viol      []lsnViolation
	staleSeen map[int]bool
	cnt       map[string]int
}

func lsnNewWorld(dir string, nsess, nclosers int, unlink, sched bool) (*lsnWorld, error) {
	w := &lsnWorld{id: atomic.AddInt64(&lsnWorldSeq, 1), dir: dir, unlink: unlink, nsess: nsess, nclosers: nclosers, sched: sched,
		byID: map[int]*vsThread{}, closeErr: map[int]error{}, closeRet: map[int]bool{}, trail: map[int][]string{},
		closingOf: map[int]int{}, sweptAt: map[int]int{}, addAt: map[int]int{}, srv: map[int]*Session{}, cl: map[int]*Session{},
		known: map[*Session]bool{}, strWant: map[int]int{}, staleSeen: map[int]bool{}, cnt: map[string]int{}}
	w.path = fmt.Sprintf("%s/lsn%d_%d.sock", dir, os.Getpid(), w.id)
	conf := NewDefaultListenerConfig(w.path, "unix")
	conf.Config.LogOutput = io.Discard
	conf.Config.InitializeTimeout = 6 * time.Second
	conf.Config.ShareMemoryBufferCap = 1 << 20
	w.cb = &lsnCb{}
	l, err := NewListener(w.cb, conf)
	if err != nil {
		return nil, err
	}
	w.cb.l = l
	// before l.ln is wrapped: SetUnlinkOnClose must reach the *net.UnixListener
	l.SetUnlinkOnClose(unlink)
	w.gl = &lsnLn{inner: l.ln}
	l.ln = w.gl
	w.l = l
	if sched {
		vsReset(vsSched)
	} else {
		vsReset(vsOff)
	}
	return w, nil
}

func (w *lsnWorld) clientConf() *Config {
	id := atomic.AddInt64(&lsnWorldSeq, 1)
	conf := DefaultConfig()
	conf.MemMapType = MemMapTypeMemFd
	conf.ShareMemoryPathPrefix = fmt.Sprintf("/dev/shm/vslsn_%d_%d", os.Getpid(), id)
	conf.QueuePath = fmt.Sprintf("/dev/shm/vslsn_q_%d_%d", os.Getpid(), id)
	conf.LogOutput = io.Discard
	conf.ShareMemoryBufferCap = 1 << 20
	conf.InitializeTimeout = 6 * time.Second
	return conf
}

// server sessions of this listener known to the event dispatcher
func lsnServerSessionsOf(l *Listener) []*Session {
	d, ok := defaultDispatcher.(*epollDispatcher)
	if !ok || d == nil {
		return nil
	}
	out := []*Session{}
	// the event loop holds d.lock while it handles events: a handler that is blocked for ever inside the listener
	// (consequence of the self-deadlock class) keeps it for ever. Never wait for it without a limit.
	got := false
	for i := 0; i < 4000; i++ {
		if d.lock.TryLock() {
			got = true
			break
		}
		time.Sleep(500 * time.Microsecond)
	}
	if !got {
		atomic.StoreInt32(&lsnDispatcherDead, 1)
		return nil
	}
	for _, c := range d.conns {
		if s, ok := c.callback.(*Session); ok && s != nil && !s.isClient && s.config != nil {
			if sc, ok := s.config.listenCallback.(*sessionCallback); ok && sc.listener == l {
				out = append(out, s)
			}
		}
	}
	d.lock.Unlock()
	return out
}

// set when the process-wide event loop is blocked inside listener code (it then holds the dispatcher lock for ever and no
// session can be created in this process any more): nothing further is run in this process
var lsnDispatcherDead int32

func lsnDispatcherStuck(stacks string) bool {
	for _, g := range strings.Split(stacks, "\n\n") {
		if strings.Contains(g, "(*epollDispatcher).runLoop") && strings.Contains(g, "(*sessions).removeShutdownSession") &&
			strings.Contains(g, "sync.(*Mutex).Lock") {
			return true
		}
	}
	return false
}

func (w *lsnWorld) spawn(id int, fn func()) *vsThread {
	t := vsSpawn(id, func(*vsThread) { fn() })
	w.threads = append(w.threads, t)
	w.byID[id] = t
	return t
}

// stale bookkeeping of the scheduler: a deferred Unlock (Listener.Close) is not seen by vsUnlock
func lsnFixLocks() {
	for m := range vsLockOwner {
		if m.TryLock() {
			m.Unlock()
			delete(vsLockOwner, m)
		}
	}
}

func (w *lsnWorld) closedSet() map[int]bool {
	out := map[int]bool{}
	for s, ss := range w.srv {
		if ss.IsClosed() {
			out[s] = true
		}
	}
	return out
}

// macro runs thread t to its next point of the spec. "" = ok, "blocked" = it cannot be stepped, otherwise a harness
// problem (the thread did not reach a scheduling point).
func (w *lsnWorld) macro(t *vsThread) (res string) {
	defer func() {
		if r := recover(); r != nil {
			res = fmt.Sprintf("harness: %v", r)
		}
	}()
	if t.done {
		return "finished"
	}
	if !vsEnabled(t) {
		return "blocked"
	}
	w.stepNo++
	before := w.closedSet()
	from := lsnPcOf(t.pos)
	for i := 0; i < 400; i++ {
		_, now := vsStep(t)
		lsnFixLocks()
		if t.done || lsnStop(now) {
			break
		}
		if !vsEnabled(t) {
			break
		}
	}
	w.trail[t.id] = append(w.trail[t.id], t.pos)
	// ledger: which session's shutdown did the thread win in this step; whose own sweep is over now
	if from == lsnPcRmL {
		if s := w.closingOf[t.id]; s != 0 {
			w.sweptAt[s] = w.stepNo
			delete(w.closingOf, t.id)
		}
	}
	if from == lsnPcAddL && t.id == lsnRUN {
		for s := w.nsess; s >= 1; s-- {
			if w.srv[s] != nil {
				if _, seen := w.addAt[s]; !seen {
					w.addAt[s] = w.stepNo
				}
				break
			}
		}
	}
	if lsnPcOf(t.pos) == lsnPcRmL {
		for s := range w.closedSet() {
			if !before[s] {
				w.closingOf[t.id] = s
			}
		}
	}
	if t.panicVal != nil {
		w.violate("panic", fmt.Sprintf("thread %d panicked: %v", t.id, t.panicVal), "")
	}
	return ""
}

func (w *lsnWorld) violate(kind, detail, class string) {
	for _, v := range w.viol {
		if v.Kind == kind && v.Class == class {
			return
		}
	}
	w.viol = append(w.viol, lsnViolation{Kind: kind, Detail: detail, Class: class})
}

func (w *lsnWorld) dial() (net.Conn, error) {
	c, err := net.DialTimeout("unix", w.path, 3*time.Second)
	if err == nil {
		w.rawConns = append(w.rawConns, c)
	}
	return c, err
}

// exec performs one operation of the spec on the real listener. Returns "" or the reason why the environment could not
// realise it (handshake time-out on a loaded machine ...), which abandons the world without a verdict.
func (w *lsnWorld) exec(op string, tid, a int) string {
	switch op {
	case "runstart":
		t := w.spawn(lsnRUN, func() { w.runErr = w.l.Run(); w.runRet = true })
		return lsnEnv(w.macro(t))
	case "acctemp":
		if a == 2 {
			w.gl.pushPlan(lsnPlanEmf)
		} else {
			w.gl.pushPlan(lsnPlanTemp)
		}
		return lsnEnv(w.macro(w.byID[lsnRUN]))
	case "accfail":
		c, err := w.dial()
		if err != nil {
			return "dial: " + err.Error()
		}
		c.Close() // the peer goes away before the handshake: the server's newSession fails
		w.gl.pushPlan(lsnPlanReal)
		return lsnEnv(w.macro(w.byID[lsnRUN]))
	case "accok":
		c, err := w.dial()
		if err != nil {
			return "dial: " + err.Error()
		}
		ch := make(chan lsnClientRes, 1)
		conf := w.clientConf()
		go func() {
			s, err := newSession(conf, c, true)
			ch <- lsnClientRes{s, err}
		}()
		w.gl.pushPlan(lsnPlanReal)
		if r := w.macro(w.byID[lsnRUN]); r != "" {
			return lsnEnv(r)
		}
		var cr lsnClientRes
		select {
		case cr = <-ch:
		case <-time.After(15 * time.Second):
			return "client handshake did not return"
		}
		if cr.err != nil {
			return "client handshake failed: " + cr.err.Error()
		}
		w.clients = append(w.clients, cr.s)
		var srv *Session
		for _, s := range lsnServerSessionsOf(w.l) {
			if !w.known[s] {
				srv = s
			}
		}
		if srv == nil {
			return "server side of the handshake failed (no new server session)"
		}
		w.known[srv] = true
		w.srv[a], w.cl[a] = srv, cr.s
		w.allSrv = append(w.allSrv, srv)
		return ""
	case "accfatal":
		if a == 1 {
			w.gl.pushPlan(lsnPlanFatal)
		} else {
			w.gl.pushPlan(lsnPlanReal) // the raw listener is closed: the real Accept fails
		}
		return lsnEnv(w.macro(w.byID[lsnRUN]))
	case "closecall":
		id := tid
		t := w.spawn(id, func() { w.closeErr[id] = w.l.Close(); w.closeRet[id] = true })
		return lsnEnv(w.macro(t))
	case "die":
		srv := w.srv[a]
		if srv == nil {
			return "die: no such session"
		}
		// what the event loop does when the peer has gone away (EPOLLRDHUP): onRemoteClose -> exitErr -> Close
		t := w.spawn(a, func() { srv.onRemoteClose() })
		return lsnEnv(w.macro(t))
	case "newstream":
		cl := w.cl[a]
		if cl == nil {
			return "newstream: no such session"
		}
		st, err := cl.OpenStream()
		if err != nil {
			return "client OpenStream: " + err.Error()
		}
		if err := st.BufferWriter().WriteString("x"); err != nil {
			return "client write: " + err.Error()
		}
		if err := st.Flush(false); err != nil {
			return "client flush: " + err.Error()
		}
		w.strWant[a]++
		dl := time.Now().Add(8 * time.Second)
		for time.Now().Before(dl) {
			if w.streamsOf(a) >= w.strWant[a] {
				return ""
			}
			time.Sleep(100 * time.Microsecond)
		}
		return "" // not forwarded: the projection / oracle shows it
	case "realdie":
		// consequence probe (hand-written histories only, poisons the process): the peer of session a really goes away and
		// the REAL event loop handles it; reports whether the event loop is then blocked inside the listener
		cl := w.cl[a]
		if cl == nil {
			return "realdie: no such session"
		}
		syscall.Shutdown(cl.connFd, syscall.SHUT_RDWR)
		for i := 0; i < 40; i++ {
			time.Sleep(50 * time.Millisecond)
			if lsnDispatcherStuck(lsnStacks()) {
				atomic.StoreInt32(&lsnDispatcherDead, 1)
				w.cnt["event_loop_blocked"]++
				w.violate("event-loop-blocked", fmt.Sprintf("the peer of session %d went away; the process-wide event loop goroutine "+
					"(epollDispatcher.runLoop, holding the dispatcher lock) is blocked in removeShutdownSession on sessionMu", a), "")
				return ""
			}
		}
		return ""
	case "step":
		t := w.byID[tid]
		if t == nil {
			return "harness: step of a thread that was never started"
		}
		r := w.macro(t)
		if r == "blocked" || r == "finished" {
			return "not-enabled:" + r
		}
		return lsnEnv(r)
	}
	return "harness: unknown op " + op
}

func lsnEnv(r string) string {
	if r == "" {
		return ""
	}
	return r
}

func (w *lsnWorld) streamsOf(s int) int {
	_, strs := w.cb.snapshot()
	n := 0
	for _, st := range strs {
		if st != nil && st.session == w.srv[s] {
			n++
		}
	}
	return n
}

func lsnProbe(m *sync.Mutex) int {
	if m.TryLock() {
		m.Unlock()
		return 0
	}
	return 1
}

func lsnB(b bool) int {
	if b {
		return 1
	}
	return 0
}

func (w *lsnWorld) fileExists() bool {
	_, err := os.Lstat(w.path)
	return err == nil
}

// project: the structural projection of the real state, same layout as listenermod.project() builds from a spec state
func (w *lsnWorld) project() []int {
	l := w.l
	shuts, _ := w.cb.snapshot()
	reason := 0
	if len(shuts) > 0 {
		reason = lsnReasonCode(shuts[0].reason)
	}
	v := []int{lsnB(l.isClose), lsnB(l.shutdownErrStr != ""), lsnB(atomic.LoadInt32(&w.gl.closeCalls) > 0), lsnB(w.fileExists()),
		len(shuts), reason, lsnB(l.sessions.data == nil), lsnProbe(&l.mu), lsnProbe(&l.sessions.sessionMu)}
	for s := 1; s <= w.nsess; s++ {
		srv := w.srv[s]
		if srv == nil {
			v = append(v, 0, 0, 0)
			continue
		}
		_, in := l.sessions.data[srv]
		v = append(v, 1+lsnB(srv.IsClosed()), lsnB(in), w.streamsOf(s))
	}
	ids := []int{lsnRUN}
	for i := 1; i <= w.nclosers; i++ {
		ids = append(ids, lsnCloser0+i)
	}
	for s := 1; s <= w.nsess; s++ {
		ids = append(ids, s)
	}
	for _, id := range ids {
		t := w.byID[id]
		switch {
		case t == nil:
			v = append(v, lsnPcIdle)
		case t.done:
			v = append(v, lsnPcDone)
		default:
			v = append(v, lsnPcOf(t.pos))
		}
	}
	return v
}

func lsnReasonCode(r string) int {
	switch {
	case r == "close by Listener.Close()":
		return 1
	case strings.HasPrefix(r, "accept failed,reason:"):
		return 2
	}
	return 3
}

func lsnEq(a, b []int) bool {
	if len(a) != len(b) {
		return false
	}
	for i := range a {
		if a[i] != b[i] {
			return false
		}
	}
	return true
}

// ---------------------------------------------------------------------------------------------------------------
// oracles on the real objects (independent of the spec)

// after every step
func (w *lsnWorld) stepOracles() {
	shuts, _ := w.cb.snapshot()
	if len(shuts) > 1 {
		w.violate("onshutdown-twice", fmt.Sprintf("ListenCallback.OnShutdown delivered %d times: %q", len(shuts), lsnReasons(shuts)), "")
	}
	// a closed session whose own removeShutdownSession is over must not be registered
	for s, srv := range w.srv {
		if w.staleSeen[s] || !srv.IsClosed() {
			continue
		}
		if _, in := w.l.sessions.data[srv]; !in {
			continue
		}
		sw, swept := w.sweptAt[s]
		if !swept {
			continue
		}
		w.staleSeen[s] = true
		ad, added := w.addAt[s]
		if added && ad > sw {
			w.violate("dead-session-registered", fmt.Sprintf("session %d shut down (peer gone) and its removeShutdownSession ran "+
				"(step %d) before the accept loop registered it (sessions.add, step %d): the closed session stays in "+
				"Listener.sessions until another session shuts down or the listener is closed", s, sw, ad), lsnSlugStale)
		} else {
			w.violate("dead-session-registered", fmt.Sprintf("session %d is closed and its removeShutdownSession has run "+
				"(step %d), but it is still in Listener.sessions", s, sw), "")
		}
	}
}

func lsnReasons(sh []lsnShut) []string {
	out := []string{}
	for _, s := range sh {
		out = append(out, s.reason)
	}
	return out
}

func (w *lsnWorld) threadName(id int) string {
	switch {
	case id == lsnRUN:
		return "Run"
	case id > lsnCloser0:
		return fmt.Sprintf("Close#%d", id-lsnCloser0)
	}
	return fmt.Sprintf("shutdown-of-session-%d", id)
}

// drain lets every thread run as far as it can (spec-free). With ensureClose a Listener.Close is issued if nobody has
// closed the listener.
func (w *lsnWorld) drain(ensureClose bool) string {
	extra := 0
	for iter := 0; iter < 2000; iter++ {
		progressed := false
		for _, t := range w.threads {
			if t.done || !vsEnabled(t) {
				continue
			}
			if t.id == lsnRUN && lsnPcOf(t.pos) == lsnPcAcc {
				if atomic.LoadInt32(&w.gl.closeCalls) == 0 {
					continue // the listener is open: Run stays in Accept
				}
				w.gl.pushPlan(lsnPlanReal)
			}
			if r := w.macro(t); r != "" && r != "blocked" && r != "finished" {
				return r
			}
			w.stepOracles()
			progressed = true
		}
		if progressed {
			continue
		}
		run := w.byID[lsnRUN]
		if ensureClose && !w.l.isClose && extra == 0 && !(run != nil && run.done) {
			anyInClose := false
			for _, t := range w.threads {
				if !t.done && t.id >= lsnRUN && lsnPcOf(t.pos) >= lsnPcClsL {
					anyInClose = true
				}
			}
			if !anyInClose {
				extra = lsnCloser0 + 90
				id := extra
				t := w.spawn(id, func() { w.closeErr[id] = w.l.Close(); w.closeRet[id] = true })
				if r := w.macro(t); r != "" {
					return r
				}
				continue
			}
		}
		break
	}
	return ""
}

// final: at rest. Evaluates the C14 statements about the listener on the real objects.
func (w *lsnWorld) final() {
	l := w.l
	// nothing blocks
	blocked := []string{}
	selfDead := false
	for _, t := range w.threads {
		if t.done {
			continue
		}
		if t.id == lsnRUN && lsnPcOf(t.pos) == lsnPcAcc && atomic.LoadInt32(&w.gl.closeCalls) == 0 {
			continue // in Accept on an open listener
		}
		owner := "nobody"
		if t.waitLock != nil {
			if o := vsLockOwner[t.waitLock]; o != nil {
				owner = w.threadName(o.id)
				if o == t {
					owner = "ITSELF"
					tr := w.trail[t.id]
					if t.id == lsnRUN && lsnPcOf(t.pos) == lsnPcRmL && len(tr) >= 2 && lsnPcOf(tr[len(tr)-2]) == lsnPcAddL {
						selfDead = true
					}
				}
			}
		}
		blocked = append(blocked, fmt.Sprintf("%s parked at %s waiting for a lock held by %s", w.threadName(t.id), t.pos, owner))
	}
	if len(blocked) > 0 {
		stuck := []string{}
		for s, srv := range w.srv {
			if srv.IsClosed() && !lsnChanClosed(srv.shutdownCh) {
				stuck = append(stuck, fmt.Sprintf("session %d has shutdown == 1 but Close never got past OnShutdown (shutdownCh open, no teardown posted)", s))
			}
		}
		sort.Strings(stuck)
		if selfDead {
			w.violate("blocked-forever", "sessions.add found the set closed (data == nil) and called session.Close() while holding "+
				"sessionMu; Session.Close calls sessionCallback.OnShutdown -> removeShutdownSession -> sessionMu.Lock() on the same "+
				"goroutine: "+strings.Join(blocked, "; ")+". "+strings.Join(stuck, "; "), lsnSlugDeadlock)
		} else {
			w.violate("blocked-forever", strings.Join(blocked, "; ")+". "+strings.Join(stuck, "; "), "")
		}
		return
	}
	run := w.byID[lsnRUN]
	if run != nil && run.done && !l.isClose {
		live := w.liveSessions()
		w.violate("run-returned-listener-open", fmt.Sprintf("Run returned (err=%v) but the listener was never closed: isClose=false, "+
			"OnShutdown not delivered, live sessions %v", w.runErr, live), "")
		return
	}
	if !l.isClose {
		return
	}
	// a Close has passed the guard and every caller is back
	shuts, _ := w.cb.snapshot()
	if len(shuts) != 1 {
		w.violate("onshutdown-count", fmt.Sprintf("ListenCallback.OnShutdown delivered %d times after Close returned: %q", len(shuts), lsnReasons(shuts)), "")
	} else {
		sh := shuts[0]
		code := lsnReasonCode(sh.reason)
		if sh.byRun && code != 2 {
			w.violate("onshutdown-reason", fmt.Sprintf("the accept loop shut the listener down after a fatal Accept error but the reason is %q", sh.reason), "")
		}
		if !sh.byRun && sh.errAt == "" && code != 1 {
			w.violate("onshutdown-reason", fmt.Sprintf("Listener.Close() with no accept error recorded delivered the reason %q", sh.reason), "")
		}
		if code == 2 && sh.errAt == "" {
			w.violate("onshutdown-reason", fmt.Sprintf("reason %q although no accept error had been recorded", sh.reason), "")
		}
		if code == 3 {
			w.violate("onshutdown-reason", fmt.Sprintf("unexpected reason %q", sh.reason), "")
		}
	}
	if run != nil {
		if !run.done {
			w.violate("run-does-not-return", fmt.Sprintf("the listener is closed (isClose, ln.Close calls=%d) but Run has not returned: parked at %s",
				atomic.LoadInt32(&w.gl.closeCalls), run.pos), "")
		} else if w.runErr != nil {
			w.violate("run-error", fmt.Sprintf("Run returned %v", w.runErr), "")
		}
	}
	for id, ret := range w.closeRet {
		if ret && w.closeErr[id] != nil {
			w.violate("close-error", fmt.Sprintf("Listener.Close returned %v", w.closeErr[id]), "")
		}
	}
	if live := w.liveSessions(); len(live) > 0 && (run == nil || run.done) {
		w.violate("session-left-running", fmt.Sprintf("Close returned and Run exited, but accepted session(s) %v are not closed (IsClosed() == false): "+
			"nobody owns them any more", live), "")
	}
	for s, srv := range w.srv {
		if srv.IsClosed() && !lsnChanClosed(srv.shutdownCh) {
			w.violate("session-half-closed", fmt.Sprintf("session %d: shutdown == 1 but shutdownCh is still open at rest", s), "")
		}
	}
	if l.sessions.data != nil {
		n, liveIn := 0, 0
		for ss := range l.sessions.data {
			n++
			if !ss.IsClosed() {
				liveIn++
			}
		}
		if n > 0 {
			w.violate("set-not-empty", fmt.Sprintf("after Close the sessions set still holds %d session(s), %d of them live", n, liveIn), "")
		}
	}
	if atomic.LoadInt32(&w.gl.closeCalls) == 0 || !lsnRawClosed(w.gl.inner) {
		w.violate("ln-not-closed", "after Close the raw listener still accepts", "")
	}
	if ex := w.fileExists(); ex == w.unlink {
		w.violate("unlink", fmt.Sprintf("unlinkOnClose=%v but after Close the socket file exists=%v", w.unlink, ex), "")
	}
	if lsnProbe(&l.mu) == 1 || lsnProbe(&l.sessions.sessionMu) == 1 {
		w.violate("lock-left", "Listener.mu or sessions.sessionMu is still locked at rest", "")
	}
	for s, want := range w.strWant {
		if got := w.streamsOf(s); got != want {
			w.violate("onnewstream", fmt.Sprintf("session %d: %d streams opened by the peer, ListenCallback.OnNewStream called %d times", s, want, got), "")
		}
	}
}

func (w *lsnWorld) liveSessions() []int {
	out := []int{}
	for s, srv := range w.srv {
		if !srv.IsClosed() {
			out = append(out, s)
		}
	}
	sort.Ints(out)
	return out
}

func lsnChanClosed(ch chan struct{}) bool {
	select {
	case <-ch:
		return true
	default:
		return false
	}
}

// is the raw listener closed? (Accept with an expired deadline: "use of closed" vs. time-out)
func lsnRawClosed(ln net.Listener) bool {
	ul, ok := ln.(*net.UnixListener)
	if !ok {
		return true
	}
	if err := ul.SetDeadline(time.Now().Add(-time.Second)); err != nil {
		return true
	}
	c, err := ul.Accept()
	if err == nil {
		c.Close()
		return false
	}
	if ne, ok := err.(net.Error); ok && ne.Timeout() {
		ul.SetDeadline(time.Time{})
		return false
	}
	return true
}

// server sessions of finished worlds whose teardown (a lambda posted to the event loop, which runs it when epoll_wait
// returns: up to a second later on an idle loop) is awaited in one batch at the end of the process
var lsnPendingTeardown []*Session

func lsnAwaitTeardowns(res *lsnResult) {
	dl := time.Now().Add(6 * time.Second)
	for _, srv := range lsnPendingTeardown {
		for {
			srv.shutdownLock.Lock()
			tornDown := srv.queueManager == nil
			srv.shutdownLock.Unlock()
			if tornDown {
				res.Counters["server_sessions_torn_down"]++
				break
			}
			if time.Now().After(dl) {
				res.Counters["server_sessions_teardown_not_seen_in_time"]++
				break
			}
			time.Sleep(time.Millisecond)
		}
	}
	lsnPendingTeardown = nil
}

// cleanup: scheduler off, peers closed, listener closed
func (w *lsnWorld) cleanup(res *lsnResult, leaked bool) {
	vsReset(vsOff)
	sess := append([]*Session{}, w.allSrv...)
	have := map[*Session]bool{}
	for _, s := range sess {
		have[s] = true
	}
	for _, s := range lsnServerSessionsOf(w.l) {
		if !have[s] {
			sess = append(sess, s)
		}
	}
	if leaked {
		// goroutines of this world are stuck holding the listener's mutexes. Its sessions must never call back into the
		// listener again: the event loop would block on those mutexes (and starve every later world), or run into the
		// scheduler of a later world. Cut the callback, then close them here and now.
		for _, s := range sess {
			s.config.listenCallback = nil
		}
	} else {
		w.l.Close()
	}
	for _, s := range sess {
		if !s.IsClosed() {
			s.Close()
		}
		if !leaked {
			lsnPendingTeardown = append(lsnPendingTeardown, s)
		}
	}
	for _, c := range w.clients {
		c.Close()
	}
	for _, c := range w.rawConns {
		c.Close()
	}
	os.Remove(w.path)
}

// ---------------------------------------------------------------------------------------------------------------
// running paths

type lsnRunner struct {
	job     *lsnJob
	res     *lsnResult
	dir     string
	listed  map[string]bool
	covered []map[int]bool
	out     []map[int][]int // per graph: node -> outgoing edge indexes
	rng     *rand.Rand
	t0      time.Time
	budget  time.Duration
	// set by walk: the planned edges were all taken (the map order did not lead elsewhere before the end of the plan)
	planDone bool
}

func (r *lsnRunner) classBit(class string) int {
	switch class {
	case lsnSlugDeadlock:
		return 1
	case lsnSlugStale:
		return 2
	}
	return 0
}

// settle merges the verdicts of a finished world into the result
func (r *lsnRunner) settle(w *lsnWorld, source string, ex lsnExplicit) (verdict string) {
	verdict = "clean"
	ex.Steps = append([]lsnStep{}, w.recs...)
	for _, v := range w.viol {
		v.Source = source
		v.Explicit = ex
		v.Explicit.Class = v.Class
		if v.Class != "" {
			r.res.ClassHits[v.Class]++
			if old, ok := r.res.ClassWit[v.Class]; !ok || len(v.Explicit.Steps) < len(old.Explicit.Steps) {
				r.res.ClassWit[v.Class] = v
			}
			if verdict == "clean" {
				verdict = "class:" + v.Class
			}
			continue
		}
		verdict = "violation"
		if len(r.res.Violations) < 40 {
			r.res.Violations = append(r.res.Violations, v)
		}
		r.res.Counters["violations_total"]++
	}
	return verdict
}

func (r *lsnRunner) drift(w *lsnWorld, where string, want, got []int) {
	r.res.DriftCount++
	if len(r.res.Drift) < 12 {
		r.res.Drift = append(r.res.Drift, fmt.Sprintf("%s want=%v got=%v history=%s", where, want, got, lsnBrief(w.recs)))
	}
}

func lsnBrief(recs []lsnStep) string {
	parts := []string{}
	for _, s := range recs {
		switch s.Op {
		case "step", "closecall":
			parts = append(parts, fmt.Sprintf("%s(%d)", s.Op, s.T))
		case "runstart":
			parts = append(parts, s.Op)
		default:
			parts = append(parts, fmt.Sprintf("%s(%d)", s.Op, s.A))
		}
	}
	return strings.Join(parts, " ")
}

// walk executes one planned path of graph gi (then continues along the graph to a terminal node)
func (r *lsnRunner) walk(gi int, path []int, source string, allowKf bool) string {
	g := &r.job.Graphs[gi]
	w, err := lsnNewWorld(r.dir, g.NSess, g.NClosers, g.Unlink, true)
	if err != nil {
		r.res.EnvAborted++
		r.res.EnvNotes = append(r.res.EnvNotes, "NewListener: "+err.Error())
		return "env"
	}
	r.res.Paths++
	ex := lsnExplicit{Name: source, NSess: g.NSess, NClosers: g.NClosers, Unlink: g.Unlink}
	cur := g.Init
	if got := w.project(); !lsnEq(got, g.Nodes[cur]) {
		r.drift(w, g.Name+"/init", g.Nodes[cur], got)
		w.cleanup(r.res, false)
		return "drift"
	}
	conform, diverged, leaked := true, false, false
	pi := 0
	r.planDone = false
	for steps := 0; steps < 400; steps++ {
		// next edge: the planned one, afterwards (or after the map order took another branch) any edge, uncovered first
		ei := -1
		if !diverged && pi < len(path) {
			ei = path[pi]
			pi++
			if g.Edges[ei].S != cur {
				r.res.HarnessErr = append(r.res.HarnessErr, fmt.Sprintf("path %s is not connected at %d", source, pi))
				break
			}
		} else {
			var cands, fresh []int
			for _, e := range r.out[gi][cur] {
				if !allowKf && g.Kf[g.Edges[e].D]&r.job.PruneKf != 0 {
					continue
				}
				cands = append(cands, e)
				if !r.covered[gi][e] {
					fresh = append(fresh, e)
				}
			}
			if len(fresh) > 0 {
				ei = fresh[r.rng.Intn(len(fresh))]
			} else if len(cands) > 0 {
				ei = cands[r.rng.Intn(len(cands))]
			}
		}
		if !diverged && pi >= len(path) {
			r.planDone = true
		}
		if ei < 0 {
			break // terminal node
		}
		e := g.Edges[ei]
		if env := w.exec(e.Op, e.T, e.A); env != "" {
			if strings.HasPrefix(env, "not-enabled:") {
				// the spec lets the thread run, the real thread cannot: conformance failure; the oracles decide
				r.drift(w, fmt.Sprintf("%s/node%d/%s real thread %s", g.Name, cur, e.Lab, env), g.Nodes[e.D], w.project())
				conform = false
				break
			}
			w.envAbort = env
			break
		}
		r.res.Steps++
		got := w.project()
		w.recs = append(w.recs, lsnStep{Op: e.Op, T: e.T, A: e.A, Proj: got})
		w.stepOracles()
		// match: the planned edge, or an alternative of the same call (map iteration order of closeAll)
		taken := -1
		if lsnEq(got, g.Nodes[e.D]) {
			taken = ei
		} else {
			for _, alt := range r.out[gi][cur] {
				a := g.Edges[alt]
				if alt != ei && a.Op == e.Op && a.T == e.T && a.A == e.A && lsnEq(got, g.Nodes[a.D]) {
					taken = alt
				}
			}
			if taken >= 0 {
				diverged = true
				r.res.NdDiverged++
			}
		}
		if taken < 0 {
			r.drift(w, fmt.Sprintf("%s/node%d/%s", g.Name, cur, e.Lab), g.Nodes[e.D], got)
			conform = false
			break
		}
		r.res.Compared++
		r.covered[gi][taken] = true
		cur = g.Edges[taken].D
		if !allowKf && g.Kf[cur]&r.job.PruneKf != 0 {
			break // the sibling led into a listed class: not explored further
		}
	}
	if w.envAbort != "" {
		r.res.EnvAborted++
		if len(r.res.EnvNotes) < 8 {
			r.res.EnvNotes = append(r.res.EnvNotes, w.envAbort+" @ "+lsnBrief(w.recs))
		}
		if strings.HasPrefix(w.envAbort, "harness:") {
			leaked = true // a thread is somewhere the scheduler does not know: leave the world alone
		} else {
			w.drain(true)
		}
		w.cleanup(r.res, leaked)
		return "env"
	}
	// at the terminal node of the spec nothing may be left to run; after a drift run everything to its end
	if conform {
		for _, t := range w.threads {
			if !t.done && vsEnabled(t) && !(t.id == lsnRUN && lsnPcOf(t.pos) == lsnPcAcc && atomic.LoadInt32(&w.gl.closeCalls) == 0) && len(r.out[gi][cur]) == 0 {
				r.drift(w, fmt.Sprintf("%s/node%d terminal in the spec, real thread %s can still run at %s", g.Name, cur, w.threadName(t.id), t.pos), nil, nil)
				conform = false
			}
		}
	}
	if r := w.drain(true); r != "" {
		w.envAbort = r
	}
	w.final()
	for _, t := range w.threads {
		if !t.done {
			leaked = true
		}
	}
	verdict := r.settle(w, source, ex)
	if conform && verdict == "clean" || (conform && strings.HasPrefix(verdict, "class:")) {
		r.res.Conforming++
	}
	if len(r.res.Samples) < 3 && conform {
		r.res.Samples = append(r.res.Samples, fmt.Sprintf("%s: %s -> %s", g.Name, lsnBrief(w.recs), verdict))
	}
	w.cleanup(r.res, leaked)
	if !conform {
		return "drift"
	}
	return verdict
}

// explicit executes a self-contained history (witness of a finding class, or --replay)
func (r *lsnRunner) explicit(p *lsnExplicit) string {
	w, err := lsnNewWorld(r.dir, p.NSess, p.NClosers, p.Unlink, true)
	if err != nil {
		r.res.EnvAborted++
		return "env"
	}
	r.res.Paths++
	conform := true
	for i, s := range p.Steps {
		if env := w.exec(s.Op, s.T, s.A); env != "" {
			if strings.HasPrefix(env, "not-enabled:") {
				conform = false
				break
			}
			w.envAbort = env
			break
		}
		r.res.Steps++
		got := w.project()
		w.recs = append(w.recs, lsnStep{Op: s.Op, T: s.T, A: s.A, Proj: got})
		w.stepOracles()
		if len(s.Proj) > 0 && conform {
			if lsnEq(got, s.Proj) {
				r.res.Compared++
			} else {
				conform = false // recorded, not a verdict: e.g. another map order; the oracles decide
				r.res.Counters["explicit_diverged"]++
				if os.Getenv("VS_LSN_LOG") != "" {
					fmt.Printf("explicit %s step %d %s(%d,%d): want %v got %v\n", p.Name, i, s.Op, s.T, s.A, s.Proj, got)
				}
			}
		}
	}
	leaked := false
	if w.envAbort != "" {
		r.res.EnvAborted++
		if len(r.res.EnvNotes) < 8 {
			r.res.EnvNotes = append(r.res.EnvNotes, w.envAbort+" @ "+lsnBrief(w.recs))
		}
		if strings.HasPrefix(w.envAbort, "harness:") {
			leaked = true
		} else {
			w.drain(true)
		}
		w.cleanup(r.res, leaked)
		return "env"
	}
	w.drain(true)
	w.final()
	for _, t := range w.threads {
		if !t.done {
			leaked = true
		}
	}
	verdict := r.settle(w, p.Name, *p)
	if conform && verdict != "violation" {
		r.res.Conforming++
	}
	w.cleanup(r.res, leaked)
	return verdict
}

// ---------------------------------------------------------------------------------------------------------------
// free running worlds

func lsnStacks() string {
	buf := make([]byte, 1<<20)
	for {
		n := runtime.Stack(buf, true)
		if n < len(buf) {
			return string(buf[:n])
		}
		buf = make([]byte, 2*len(buf))
	}
}

// goroutines of this listener that wait for a mutex inside listener.go: (self-deadlock pattern?, description)
func lsnMutexWaiters(stacks string, l *Listener) (bool, []string) {
	self := false
	out := []string{}
	// only goroutines of THIS listener (earlier blocked worlds of the process are still around): the receiver pointers
	p1, p2 := fmt.Sprintf("(%p", l), fmt.Sprintf("(%p", l.sessions)
	for _, g := range strings.Split(stacks, "\n\n") {
		if !strings.Contains(g, "sync.(*Mutex).Lock") {
			continue
		}
		if !strings.Contains(g, p1) && !strings.Contains(g, p2) {
			continue
		}
		if !strings.Contains(g, "shmipc-go.(*sessions).") && !strings.Contains(g, "shmipc-go.(*Listener).Close") {
			continue
		}
		fr := []string{}
		for _, ln := range strings.Split(g, "\n") {
			if strings.Contains(ln, "shmipc-go.(") && !strings.HasPrefix(ln, "\t") {
				f := ln[strings.LastIndex(ln, "shmipc-go.")+len("shmipc-go."):]
				if i := strings.Index(f, "("); i == 0 {
					if j := strings.LastIndex(f, "("); j > 0 {
						f = f[:j]
					}
				}
				fr = append(fr, f)
			}
		}
		desc := strings.Join(fr, " < ")
		if strings.Contains(g, "(*sessions).removeShutdownSession") && strings.Contains(g, "(*sessions).add") {
			self = true
		}
		out = append(out, desc)
	}
	return self, out
}

func (r *lsnRunner) random(seed int) {
	rng := rand.New(rand.NewSource(int64(seed)))
	unlink := rng.Intn(2) == 0
	w, err := lsnNewWorld(r.dir, 0, 0, unlink, false)
	if err != nil {
		r.res.EnvAborted++
		return
	}
	r.res.RandWorlds++
	l := w.l
	runDone := make(chan struct{})
	go func() { w.runErr = l.Run(); w.runRet = true; close(runDone) }()
	// collect every server session of this listener that the dispatcher gets to know
	var seenMu sync.Mutex
	seen := map[*Session]bool{}
	stopScan := make(chan struct{})
	scan := func() {
		for _, s := range lsnServerSessionsOf(l) {
			seenMu.Lock()
			seen[s] = true
			seenMu.Unlock()
		}
	}
	var scanWg sync.WaitGroup
	scanWg.Add(1)
	go func() {
		defer scanWg.Done()
		for {
			select {
			case <-stopScan:
				return
			default:
			}
			scan()
			time.Sleep(100 * time.Microsecond)
		}
	}()
	nClients := 1 + rng.Intn(4)
	// the handshake of a session takes a few ms on a loaded machine: spans from well below to well above it
	span := time.Duration(500+rng.Intn(1+rng.Intn(40000))) * time.Microsecond
	type plan struct {
		delay, life time.Duration
		kind        int
	}
	plans := []plan{}
	for i := 0; i < nClients; i++ {
		plans = append(plans, plan{delay: time.Duration(rng.Int63n(int64(span))), life: time.Duration(rng.Int63n(int64(span))), kind: rng.Intn(5)})
	}
	nClosers := 1 + rng.Intn(2)
	closeDelays := []time.Duration{}
	for i := 0; i < nClosers; i++ {
		closeDelays = append(closeDelays, time.Duration(rng.Int63n(2*int64(span))))
	}
	injectFatal := rng.Intn(4) == 0
	fatalDelay := time.Duration(rng.Int63n(int64(span)))
	var clMu sync.Mutex
	var cwg sync.WaitGroup
	opened := int32(0)
	for _, p := range plans {
		cwg.Add(1)
		go func(p plan) {
			defer cwg.Done()
			time.Sleep(p.delay)
			c, err := net.DialTimeout("unix", w.path, 2*time.Second)
			if err != nil {
				return // listener already closed
			}
			clMu.Lock()
			w.rawConns = append(w.rawConns, c)
			clMu.Unlock()
			if p.kind == 0 {
				time.Sleep(p.life / 4)
				c.Close() // goes away during the handshake
				return
			}
			s, err := newSession(w.clientConf(), c, true)
			if err != nil {
				return
			}
			clMu.Lock()
			w.clients = append(w.clients, s)
			clMu.Unlock()
			switch p.kind {
			case 1: // peer dies abruptly
				time.Sleep(p.life)
				syscall.Shutdown(s.connFd, syscall.SHUT_RDWR)
			case 2: // peer closes its session
				time.Sleep(p.life)
				s.Close()
			case 3: // opens a stream
				if st, err := s.OpenStream(); err == nil {
					if st.BufferWriter().WriteString("x") == nil && st.Flush(false) == nil {
						atomic.AddInt32(&opened, 1)
					}
				}
			}
		}(p)
	}
	closeDone := make(chan error, nClosers)
	for _, d := range closeDelays {
		go func(d time.Duration) {
			time.Sleep(d)
			closeDone <- l.Close()
		}(d)
	}
	if injectFatal {
		go func() {
			time.Sleep(fatalDelay)
			w.gl.pushPlan(lsnPlanReal) // the connection below
			w.gl.pushPlan(lsnPlanFatal)
			if c, err := net.DialTimeout("unix", w.path, time.Second); err == nil {
				c.Close()
			}
		}()
	}
	timedOut := ""
	selfSeen := 0
	wait := func(what string, ch <-chan struct{}) bool {
		dl := time.Now().Add(20 * time.Second)
		for {
			select {
			case <-ch:
				return true
			case <-time.After(250 * time.Millisecond):
			}
			// a goroutine that waits in removeShutdownSession for sessionMu below sessions.add (which holds it) can never
			// go on: seen in two samples in a row it is a verdict, not slowness
			if self, _ := lsnMutexWaiters(lsnStacks(), l); self {
				selfSeen++
			} else {
				selfSeen = 0
			}
			if selfSeen >= 2 || time.Now().After(dl) {
				timedOut = what
				return false
			}
		}
	}
	allClosed := make(chan struct{})
	var closeErrs []error
	go func() {
		for i := 0; i < nClosers; i++ {
			closeErrs = append(closeErrs, <-closeDone)
		}
		close(allClosed)
	}()
	ok := wait("Listener.Close", allClosed) && wait("Run", runDone)
	cdone := make(chan struct{})
	go func() { cwg.Wait(); close(cdone) }()
	if ok {
		ok = wait("clients", cdone)
	}
	close(stopScan)
	scanWg.Wait()
	if !ok {
		// blocked, or just slow? a goroutine waiting for one of the listener's mutexes, twice 3 s apart, is blocked
		self1, w1 := lsnMutexWaiters(lsnStacks(), l)
		if selfSeen < 2 {
			time.Sleep(3 * time.Second)
		}
		self2, w2 := lsnMutexWaiters(lsnStacks(), l)
		if len(w1) > 0 && len(w2) > 0 {
			class := ""
			if self1 && self2 {
				class = lsnSlugDeadlock
			}
			v := lsnViolation{Kind: "blocked-forever", Class: class, Source: fmt.Sprintf("random world seed %d", seed), RandSeed: seed,
				Detail: fmt.Sprintf("free running: %s does not return; goroutines waiting for Listener.mu / sessionMu: %s",
					timedOut, strings.Join(w2, " | "))}
			if class != "" {
				r.res.ClassHits[class]++
				r.res.Counters["random_class_hits"]++
			} else if len(r.res.Violations) < 40 {
				r.res.Violations = append(r.res.Violations, v)
			}
		} else {
			r.res.RandSlow++
		}
		if lsnDispatcherStuck(lsnStacks()) {
			// the shutdown of one of its sessions (peer gone) has run into the held sessionMu on the event loop itself
			atomic.StoreInt32(&lsnDispatcherDead, 1)
			r.res.Counters["random_event_loop_blocked_by_deadlock"]++
			return
		}
		clMu.Lock()
		w.cleanup(r.res, true) // its goroutines are stuck (or slow): cut its sessions off the listener
		clMu.Unlock()
		return
	}
	r.res.RandJudged++
	scan()
	// oracles
	bad := func(kind, detail string) {
		if len(r.res.Violations) < 40 {
			r.res.Violations = append(r.res.Violations, lsnViolation{Kind: kind, Detail: "free running: " + detail,
				Source: fmt.Sprintf("random world seed %d", seed), RandSeed: seed})
		}
	}
	shuts, strs := w.cb.snapshot()
	if len(shuts) != 1 {
		bad("onshutdown-count", fmt.Sprintf("ListenCallback.OnShutdown delivered %d times: %q", len(shuts), lsnReasons(shuts)))
	} else {
		code := lsnReasonCode(shuts[0].reason)
		if shuts[0].byRun && code != 2 {
			bad("onshutdown-reason", fmt.Sprintf("shut down by the accept loop, reason %q", shuts[0].reason))
		}
		if code == 3 {
			bad("onshutdown-reason", fmt.Sprintf("unexpected reason %q", shuts[0].reason))
		}
	}
	if w.runErr != nil {
		bad("run-error", fmt.Sprintf("Run returned %v", w.runErr))
	}
	for _, e := range closeErrs {
		if e != nil {
			bad("close-error", fmt.Sprintf("Close returned %v", e))
		}
	}
	live := 0
	for s := range seen {
		w.allSrv = append(w.allSrv, s)
		if !s.IsClosed() {
			live++
		} else if !lsnChanClosed(s.shutdownCh) {
			// Close is past its CAS; give it a moment to get to close(shutdownCh)
			dl := time.Now().Add(2 * time.Second)
			for !lsnChanClosed(s.shutdownCh) && time.Now().Before(dl) {
				time.Sleep(time.Millisecond)
			}
			if !lsnChanClosed(s.shutdownCh) {
				r.res.Counters["random_shutdownch_slow"]++
			}
		}
	}
	r.res.Counters["random_server_sessions"] += len(seen)
	if live > 0 {
		bad("session-left-running", fmt.Sprintf("Close returned and Run exited, %d of %d accepted sessions are not closed", live, len(seen)))
	}
	if l.sessions.data != nil && len(l.sessions.data) > 0 {
		bad("set-not-empty", fmt.Sprintf("sessions set holds %d sessions after Close", len(l.sessions.data)))
	}
	if !lsnRawClosed(w.gl.inner) {
		bad("ln-not-closed", "the raw listener still accepts after Close")
	}
	if ex := w.fileExists(); ex == unlink {
		bad("unlink", fmt.Sprintf("unlinkOnClose=%v, socket file exists=%v", unlink, ex))
	}
	if lsnProbe(&l.mu) == 1 || lsnProbe(&l.sessions.sessionMu) == 1 {
		bad("lock-left", "a listener mutex is locked at rest")
	}
	if len(strs) > int(atomic.LoadInt32(&opened)) {
		bad("onnewstream", fmt.Sprintf("%d streams opened, OnNewStream called %d times", opened, len(strs)))
	}
	w.cleanup(r.res, false)
}

// ---------------------------------------------------------------------------------------------------------------

func (r *lsnRunner) runAll() {
	job := r.job
	for gi := range job.Graphs {
		g := &job.Graphs[gi]
		out := map[int][]int{}
		for i, e := range g.Edges {
			out[e.S] = append(out[e.S], i)
		}
		r.out = append(r.out, out)
		r.covered = append(r.covered, map[int]bool{})
	}
	for i := range job.Explicit {
		p := &job.Explicit[i]
		// a coin of the real code (map order) may lead a witness elsewhere: a few attempts
		verdict := ""
		for att := 0; att < 3; att++ {
			verdict = r.explicit(p)
			if verdict != "env" && (p.Class == "" || verdict == "class:"+p.Class || verdict == "violation") {
				break
			}
		}
		r.res.ExplRes[p.Name] = verdict
	}
	for gi := range job.Graphs {
		g := &job.Graphs[gi]
		for pi, path := range g.Paths {
			if time.Since(r.t0) > r.budget {
				r.res.Counters["paths_not_run_budget"] += len(g.Paths) - pi
				break
			}
			// the map iteration order of closeAll is a coin of the real code: a plan that was left because of it is tried again
			for att := 0; att < 4; att++ {
				v := r.walk(gi, path, fmt.Sprintf("%s/path%d", g.Name, pi), false)
				if r.planDone || v == "env" || v == "drift" || v == "violation" {
					break
				}
			}
		}
	}
	seeds := append([]int{}, job.Random.Seeds...)
	for i := 0; i < job.Random.Worlds; i++ {
		seeds = append(seeds, int(job.Seed)*100003+job.Child*7919+i)
	}
	lsnAwaitTeardowns(r.res)
	for _, s := range seeds {
		if atomic.LoadInt32(&lsnDispatcherDead) != 0 {
			r.res.Counters["random_not_run_event_loop_dead"]++
			continue
		}
		if time.Since(r.t0) > r.budget+20*time.Second {
			r.res.Counters["random_not_run_budget"]++
			continue
		}
		r.random(s)
	}
	if atomic.LoadInt32(&lsnDispatcherDead) == 0 {
		lsnAwaitTeardowns(r.res)
	}
	for gi := range job.Graphs {
		cov := []int{}
		for e := range r.covered[gi] {
			cov = append(cov, e)
		}
		sort.Ints(cov)
		r.res.Covered = append(r.res.Covered, cov)
	}
}

func lsnMerge(dst, src *lsnResult) {
	dst.Paths += src.Paths
	dst.Steps += src.Steps
	dst.Compared += src.Compared
	dst.Conforming += src.Conforming
	dst.NdDiverged += src.NdDiverged
	dst.EnvAborted += src.EnvAborted
	dst.DriftCount += src.DriftCount
	dst.RandWorlds += src.RandWorlds
	dst.RandJudged += src.RandJudged
	dst.RandSlow += src.RandSlow
	dst.EnvNotes = append(dst.EnvNotes, src.EnvNotes...)
	dst.Drift = append(dst.Drift, src.Drift...)
	dst.Violations = append(dst.Violations, src.Violations...)
	dst.Samples = append(dst.Samples, src.Samples...)
	dst.HarnessErr = append(dst.HarnessErr, src.HarnessErr...)
	for k, v := range src.ClassHits {
		dst.ClassHits[k] += v
	}
	for k, v := range src.ClassWit {
		if old, ok := dst.ClassWit[k]; !ok || len(v.Explicit.Steps) < len(old.Explicit.Steps) {
			dst.ClassWit[k] = v
		}
	}
	for k, v := range src.ExplRes {
		dst.ExplRes[k] = v
	}
	for k, v := range src.Counters {
		dst.Counters[k] += v
	}
	for gi, cov := range src.Covered {
		for len(dst.Covered) <= gi {
			dst.Covered = append(dst.Covered, []int{})
		}
		dst.Covered[gi] = append(dst.Covered[gi], cov...)
	}
}

func TestVS_ListenerMod(t *testing.T) {
	in := os.Getenv("VS_IN_JOB")
	if in == "" {
		t.Skip("VS_IN_JOB not set")
	}
	var job lsnJob
	b, err := os.ReadFile(in)
	if err != nil {
		t.Fatal(err)
	}
	if err := json.Unmarshal(b, &job); err != nil {
		t.Fatal(err)
	}
	if os.Getenv("VS_LSN_LOG") == "" {
		SetLogLevel(levelNoPrint)
	}
	dir := os.Getenv("VS_DIR")
	if dir == "" {
		dir = os.TempDir()
	}
	res := lsnNewResult()
	budget := time.Duration(job.BudgetMs) * time.Millisecond
	if budget <= 0 {
		budget = 60 * time.Second
	}
	if job.Procs > 1 && os.Getenv("VS_LSN_CHILD") == "" {
		// the scheduler is process-global: shard the work over child processes (this test binary re-executed)
		var wg sync.WaitGroup
		var mu sync.Mutex
		for ci := 0; ci < job.Procs; ci++ {
			sub := job
			sub.Procs = 1
			sub.Child = ci + 1
			sub.Graphs = nil
			for _, g := range job.Graphs {
				sg := g
				sg.Paths = nil
				for pi, p := range g.Paths {
					if pi%job.Procs == ci {
						sg.Paths = append(sg.Paths, p)
					}
				}
				sub.Graphs = append(sub.Graphs, sg)
			}
			sub.Explicit = nil
			for i, p := range job.Explicit {
				if i%job.Procs == ci {
					sub.Explicit = append(sub.Explicit, p)
				}
			}
			sub.Random.Seeds = nil
			for i, s := range job.Random.Seeds {
				if i%job.Procs == ci {
					sub.Random.Seeds = append(sub.Random.Seeds, s)
				}
			}
			sub.Random.Worlds = job.Random.Worlds / job.Procs
			if ci < job.Random.Worlds%job.Procs {
				sub.Random.Worlds++
			}
			jb, _ := json.Marshal(sub)
			jp := fmt.Sprintf("%s/lsn_sub_%d.json", dir, ci)
			op := fmt.Sprintf("%s/lsn_out_%d.json", dir, ci)
			if err := os.WriteFile(jp, jb, 0o644); err != nil {
				t.Fatal(err)
			}
			wg.Add(1)
			go func(ci int, jp, op string) {
				defer wg.Done()
				cmd := exec.Command(os.Args[0], "-test.run", "^TestVS_ListenerMod$", "-test.timeout", fmt.Sprintf("%ds", int(budget.Seconds())+180))
				cmd.Env = append(os.Environ(), "VS_LSN_CHILD=1", "VS_IN_JOB="+jp, "VS_OUT="+op)
				outb, err := cmd.CombinedOutput()
				mu.Lock()
				defer mu.Unlock()
				var sr lsnResult
				ob, rerr := os.ReadFile(op)
				if rerr != nil || json.Unmarshal(ob, &sr) != nil {
					tail := string(outb)
					if len(tail) > 3000 {
						tail = tail[len(tail)-3000:]
					}
					res.HarnessErr = append(res.HarnessErr, fmt.Sprintf("child %d produced no result (%v): %s", ci, err, tail))
					return
				}
				lsnMerge(res, &sr)
			}(ci, jp, op)
		}
		wg.Wait()
	} else {
		r := &lsnRunner{job: &job, res: res, dir: dir, listed: map[string]bool{}, rng: rand.New(rand.NewSource(job.Seed*131 + int64(job.Child))),
			t0: time.Now(), budget: budget}
		for _, s := range job.Listed {
			r.listed[s] = true
		}
		r.runAll()
	}
	out, _ := json.Marshal(res)
	if err := os.WriteFile(os.Getenv("VS_OUT"), out, 0o644); err != nil {
		t.Fatal(err)
	}
}
