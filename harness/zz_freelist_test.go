package shmipc

// Binding B1 for the FreeList module: TLC behaviours are replayed on the real bufferList.pop/push one shared access per
// spec action (conformance: projected shared memory == spec state after every step), property oracles for C01/C02 are
// evaluated on the real memory, and seeded random schedules produce real traces for trace validation.

import (
	"encoding/json"
	"fmt"
	"math/rand"
	"os"
	"strings"
	"testing"
	"unsafe"
)

type flJob struct {
	NSlots    int     `json:"nslots"`
	NThreads  int     `json:"nthreads"`
	CapPer    int     `json:"capper"`
	States    [][]int `json:"states"` // node table: [head,tail,size,counter,nxt...,flag...] (slot indexes)
	Schedules []flSchedule
	Random    struct {
		N       int   `json:"n"`
		Seed    int64 `json:"seed"`
		MaxOps  int   `json:"maxops"`
		Traces  int   `json:"traces"` // how many runs to log as NDJSON traces
		Links   bool  `json:"links"`  // message-chain operations (link, recycle chain) in the random programs
		NSlots  []int `json:"nslots"`
		Threads []int `json:"threads"`
	} `json:"random"`
	TraceFile    string `json:"trace_file"`
	RetryExhaust bool   `json:"retry_exhaust"`
	KnownABA     bool   `json:"known_aba"` // prune executions matching the ABA classifier (listed known finding)
	OnlyProp     string `json:"only_prop"`
}

type flSchedule struct {
	Name  string  `json:"name"`
	Steps [][]int `json:"steps"` // [thread(1-based), kind(0 step,1 pop start,2 push start), arg(slot), stateIndex(-1 none)]
}

type flViolation struct {
	Property string  `json:"property"`
	Kind     string  `json:"kind"`
	Detail   string  `json:"detail"`
	Schedule string  `json:"schedule"`
	Step     int     `json:"step"`
	NSlots   int     `json:"nslots"`
	NThreads int     `json:"nthreads"`
	Steps    [][]int `json:"steps,omitempty"`
}

type flResult struct {
	Replayed        int           `json:"replayed"`
	ReplaySteps     int           `json:"replay_steps"`
	Conforming      int           `json:"conforming"`
	Drift           []string      `json:"drift"`
	DriftCount      int           `json:"drift_count"`
	Violations      []flViolation `json:"violations"`
	KnownHits       int           `json:"known_hits"`
	KnownWitness    string        `json:"known_witness"`
	RandomRuns      int           `json:"random_runs"`
	RandomSteps     int           `json:"random_steps"`
	RandomDistinct  int           `json:"random_distinct"`
	TracesLogged    int           `json:"traces_logged"`
	TraceEvents     int           `json:"trace_events"`
	QuiescentChecks int           `json:"quiescent_checks"`
	RetryExhaust    string        `json:"retry_exhaust"`
	Samples         []string      `json:"samples"`
	Labels          []string      `json:"labels"`
}

type flThread struct {
	th    *vsThread
	next  func()
	list  *bufferList
	bm    *bufferManager
	stale bool
	chain bool // a chain walk (recycleBuffers) is in progress
	// result of the last op
	lastSlice *bufferSlice
	lastErr   error
	lastKind  int
}

type flWorld struct {
	n, capPer int
	mem       []byte
	bms       [2]*bufferManager
	msgLink   map[int]bool
	mlink     map[int]int // ghost: message links made by holders (a -> b)
	views     [2]*bufferList
	threads   []*flThread
	holder    map[int]int           // slot -> thread
	slices    map[int]*bufferSlice  // slot -> slice handed out
	snap      map[int][]byte        // slot -> header snapshot at acquisition
	abaHit    bool
	knownABA  bool
	onlyProp  string // witness runs: report only violations of this property (run on to see its symptom)
	viol      *flViolation
	labels    map[string]bool
}

func flNewWorld(n, nthreads, capPer int, knownABA bool) *flWorld {
	w := &flWorld{n: n, capPer: capPer, holder: map[int]int{}, slices: map[int]*bufferSlice{}, snap: map[int][]byte{},
		knownABA: knownABA, labels: map[string]bool{}}
	// one size class laid out by the library's own createBufferManager; a second mapping view for the odd threads
	w.mem = make([]byte, bufferManagerHeaderSize+int(countBufferListMemSize(uint32(n), uint32(capPer))))
	bm, err := createBufferManager([]*SizePercentPair{{Size: uint32(capPer), Percent: 100}}, "", w.mem, 0)
	if err != nil {
		panic(err)
	}
	bm2, err := mappingBufferManager("", w.mem, 0)
	if err != nil {
		panic(err)
	}
	if int(*bm.lists[0].cap) != n {
		panic(fmt.Sprintf("layout gives %d slots, want %d", *bm.lists[0].cap, n))
	}
	w.bms = [2]*bufferManager{bm, bm2}
	w.views = [2]*bufferList{bm.lists[0], bm2.lists[0]}
	w.msgLink = map[int]bool{}
	w.mlink = map[int]int{}
	vsReset(vsSched)
	for i := 0; i < nthreads; i++ {
		ft := &flThread{list: w.views[i%2], bm: w.bms[i%2]}
		ft.th = vsSpawn(i+1, func(th *vsThread) {
			for {
				vsYield("idle")
				if ft.next == nil {
					return
				}
				f := ft.next
				ft.next = nil
				f()
			}
		})
		vsStep(ft.th) // park at "idle"
		w.threads = append(w.threads, ft)
	}
	return w
}

func (w *flWorld) close() {
	for _, ft := range w.threads {
		if !ft.th.done && ft.th.pos == "idle" {
			ft.next = nil
			vsStep(ft.th)
		}
	}
	vsReset(vsOff)
}

func (w *flWorld) stride() int { return w.capPer + bufferHeaderSize }

// project reads the real shared memory: [head,tail,size,counter,nxt...,flag...] in slot indexes.
func (w *flWorld) project() []int {
	l := w.views[0]
	out := make([]int, 0, 4+2*w.n)
	out = append(out, int(*l.head)/w.stride(), int(*l.tail)/w.stride(), int(*l.size))
	// the creator keeps its counter at header offset 20, a mapper at 24 (named deviation in Layout): project the sum
	lo := int(l.offsetInShm)
	c := int(*(*int32)(unsafe.Pointer(&w.mem[lo+20]))) + int(*(*int32)(unsafe.Pointer(&w.mem[lo+24])))
	out = append(out, c)
	for s := 0; s < w.n; s++ {
		raw := int(*(*uint32)(unsafe.Pointer(&l.bufferRegion[s*w.stride()+nextBufferOffset])))
		// free-list links are relative to the region, message links (bufferSlice.update) are offsets in the whole
		// shared memory; the region start is not a multiple of the stride, so the value tells which one it is
		ro := int(l.bufferRegionOffsetInShm)
		switch {
		case raw%w.stride() == 0:
			out = append(out, raw/w.stride())
		case raw >= ro && (raw-ro)%w.stride() == 0:
			out = append(out, (raw-ro)/w.stride())
		default:
			out = append(out, -1)
		}
	}
	for s := 0; s < w.n; s++ {
		out = append(out, int(l.bufferRegion[s*w.stride()+bufferFlagOffset]))
	}
	return out
}

func (w *flWorld) fail(prop, kind, detail string) {
	if w.onlyProp != "" && prop != w.onlyProp {
		return
	}
	if w.viol == nil {
		w.viol = &flViolation{Property: prop, Kind: kind, Detail: detail, NSlots: w.n, NThreads: len(w.threads)}
	}
}

func (w *flWorld) startPop(ft *flThread) {
	ft.lastKind = 1
	ft.next = func() {
		s, err := ft.list.pop()
		ft.lastSlice, ft.lastErr = s, err
	}
	vsStep(ft.th) // idle -> first access (nothing executed yet)
}

func (w *flWorld) startPush(ft *flThread, slot int) bool {
	s := w.slices[slot]
	if s == nil || w.holder[slot] != ft.th.id {
		return false
	}
	// C01: nobody but the holder altered header or payload while it was held
	w.checkHeld(slot, "before recycle")
	delete(w.holder, slot)
	delete(w.slices, slot)
	delete(w.snap, slot)
	delete(w.mlink, slot)
	ft.lastKind = 2
	ft.next = func() { ft.list.push(s) }
	vsStep(ft.th)
	return true
}

// startLink: the holder links buffer a to buffer b the way linkedBuffer.done() does (bufferSlice.update)
func (w *flWorld) startLink(ft *flThread, a, b int) bool {
	sa, sb := w.slices[a], w.slices[b]
	if sa == nil || sb == nil || w.holder[a] != ft.th.id || w.holder[b] != ft.th.id {
		return false
	}
	w.mlink[a] = b
	ft.lastKind = 3
	ft.next = func() {
		sa.nextSlice = sb
		sa.update()
		sa.nextSlice = nil
	}
	vsStep(ft.th)
	return true
}

// startChain: recycle a whole message chain starting at its head (bufferManager.recycleBuffers)
func (w *flWorld) startChain(ft *flThread, a int) bool {
	sa := w.slices[a]
	if sa == nil || w.holder[a] != ft.th.id {
		return false
	}
	for slot, tid := range w.holder {
		if tid == ft.th.id {
			w.checkHeld(slot, "before recycling the chain")
		}
	}
	ft.lastKind = 4
	ft.chain = true
	ft.next = func() { ft.bm.recycleBuffers(sa) }
	vsStep(ft.th)
	return true
}

func (w *flWorld) hasPred(b int) bool {
	for _, x := range w.mlink {
		if x == b {
			return true
		}
	}
	return false
}

func (w *flWorld) checkHeld(slot int, when string) {
	off := slot * w.stride()
	hdr := w.views[0].bufferRegion[off : off+bufferHeaderSize]
	if sn := w.snap[slot]; sn != nil && string(sn) != string(hdr) {
		w.fail("C01", "foreign-header-write", fmt.Sprintf("header of held slot %d changed %s: %v -> %v (holder thread %d)", slot, when, sn, []byte(hdr), w.holder[slot]))
	}
	pay := w.views[0].bufferRegion[off+bufferHeaderSize : off+w.stride()]
	sig := byte(0x40 + w.holder[slot])
	for i := range pay {
		if pay[i] != sig {
			w.fail("C01", "foreign-payload-write", fmt.Sprintf("payload of held slot %d altered %s", slot, when))
			break
		}
	}
}

// afterStep: bookkeeping + oracles after thread ft executed the access labelled `executed`.
func (w *flWorld) afterStep(ft *flThread, executed, now string, headBefore int) {
	w.labels[executed] = true
	// known-finding classifier (ABA): a head CAS in pop succeeds although head was modified since this thread read it
	if strings.HasPrefix(executed, "bufferList.pop:LoadUint32") {
		ft.stale = false
	}
	if strings.HasPrefix(executed, "bufferList.pop:CompareAndSwapUint32") {
		if int(*w.views[0].head) != headBefore {
			if ft.stale {
				w.abaHit = true
			}
			for _, o := range w.threads {
				if o != ft {
					o.stale = true
				}
			}
			ft.stale = false
		}
	}
	// the holder may alter the headers of its own buffers (message links): refresh their snapshots after its steps
	for slot, tid := range w.holder {
		if tid == ft.th.id {
			off := slot * w.stride()
			hdr := w.views[0].bufferRegion[off : off+bufferHeaderSize]
			if ft.chain && hdr[bufferFlagOffset]&sliceInUsedFlag == 0 {
				// the chain walk has started to recycle this slot (reset() cleared its flags): no longer held
				delete(w.holder, slot)
				delete(w.slices, slot)
				delete(w.snap, slot)
				delete(w.mlink, slot)
				continue
			}
			if ft.lastKind == 3 || ft.chain {
				w.snap[slot] = append([]byte(nil), hdr...)
			}
		}
	}
	if now == "idle" {
		ft.chain = false
		if ft.lastKind == 3 || ft.lastKind == 4 {
			ft.lastKind = 0
		}
	}
	if now == "idle" && ft.lastKind == 1 {
		// pop returned
		ft.lastKind = 0
		if ft.lastErr == nil && ft.lastSlice != nil {
			s := ft.lastSlice
			rel := int(s.offsetInShm) - int(ft.list.bufferRegionOffsetInShm)
			if rel < 0 || rel%w.stride() != 0 || rel/w.stride() >= w.n || int(s.cap) != w.capPer || len(s.data) != w.capPer {
				w.fail("C01", "malformed-buffer", fmt.Sprintf("pop returned offset %d cap %d len %d (stride %d, slots %d)", rel, s.cap, len(s.data), w.stride(), w.n))
				return
			}
			slot := rel / w.stride()
			if o, dup := w.holder[slot]; dup {
				if !(w.knownABA && w.abaHit) {
					w.fail("C01", "double-owner", fmt.Sprintf("slot %d handed to thread %d while still held by thread %d", slot, ft.th.id, o))
				}
				return
			}
			w.holder[slot] = ft.th.id
			w.slices[slot] = s
			sig := byte(0x40 + ft.th.id)
			for i := range s.data {
				s.data[i] = sig
			}
			off := slot * w.stride()
			w.snap[slot] = append([]byte(nil), w.views[0].bufferRegion[off:off+bufferHeaderSize]...)
		} else if ft.lastErr == nil {
			w.fail("C01", "nil-buffer", "pop returned nil slice and nil error")
		}
	}
	if w.knownABA && w.abaHit {
		return
	}
	// C01: headers/payloads of held slots untouched by others
	for slot := range w.holder {
		w.checkHeld(slot, "after "+executed)
	}
	// C02: free count + held never exceeds capacity
	l := w.views[0]
	if int(*l.size)+len(w.holder) > w.n {
		w.fail("C02", "size-bound", fmt.Sprintf("size %d + held %d > cap %d after %s", *l.size, len(w.holder), w.n, executed))
	}
	// C02: when no operation is in progress the free count is exact (a failed pop consumed nothing)
	idle := true
	for _, o := range w.threads {
		if o.th.pos != "idle" {
			idle = false
		}
	}
	if idle && int(*l.size) != w.n-len(w.holder) {
		w.fail("C02", "idle-size", fmt.Sprintf("all idle: size %d, held %d, cap %d after %s", *l.size, len(w.holder), w.n, executed))
	}
}

func (w *flWorld) step(ft *flThread) (string, string) {
	hb := int(*w.views[0].head)
	ex, now := vsStep(ft.th)
	w.afterStep(ft, ex, now, hb)
	return ex, now
}

// drain: finish all operations in progress, recycle everything, check quiescence (C02).
func (w *flWorld) drain() bool {
	for guard := 0; guard < 100000; guard++ {
		progress := false
		for _, ft := range w.threads {
			if ft.th.pos != "idle" && vsEnabled(ft.th) {
				w.step(ft)
				progress = true
			}
		}
		if !progress {
			break
		}
	}
	if w.viol != nil || (w.knownABA && w.abaHit) {
		return false
	}
	for len(w.holder) > 0 {
		for slot, tid := range w.holder {
			if w.hasPred(slot) {
				continue // recycle chains in reader order: heads first
			}
			ft := w.threads[tid-1]
			w.startPush(ft, slot)
			for ft.th.pos != "idle" {
				w.step(ft)
			}
			break
		}
		if w.viol != nil {
			return false
		}
	}
	l := w.views[0]
	if int(*l.size) != w.n {
		w.fail("C02", "quiescent-size", fmt.Sprintf("all recycled: size %d != cap %d", *l.size, w.n))
		return true
	}
	seen := map[int]bool{}
	cur := int(*l.head)
	last := -1
	for i := 0; i <= w.n; i++ {
		if cur%w.stride() != 0 || cur/w.stride() >= w.n || seen[cur/w.stride()] {
			w.fail("C02", "quiescent-chain", fmt.Sprintf("free chain broken at offset %d after %d slots (state %v)", cur, len(seen), w.project()))
			return true
		}
		seen[cur/w.stride()] = true
		last = cur
		h := bufferHeader(l.bufferRegion[cur : cur+bufferHeaderSize])
		if h[bufferFlagOffset]&hasNextBufferFlag == 0 {
			break
		}
		cur = int(*(*uint32)(unsafe.Pointer(&h[nextBufferOffset])))
	}
	if len(seen) != w.n || last != int(*l.tail) {
		w.fail("C02", "quiescent-chain", fmt.Sprintf("free chain visits %d of %d slots, ends at %d, tail %d (state %v)", len(seen), w.n, last, *l.tail, w.project()))
	}
	return true
}

func flEq(a, b []int) bool {
	if len(a) != len(b) {
		return false
	}
	for i := range a {
		if a[i] != b[i] {
			return false
		}
	}
	return true
}

func TestVS_FreeList(t *testing.T) {
	var job flJob
	b, err := os.ReadFile(os.Getenv("VS_IN_JOB"))
	if err != nil {
		t.Skip("no job")
	}
	if err := json.Unmarshal(b, &job); err != nil {
		t.Fatal(err)
	}
	res := &flResult{}
	labels := map[string]bool{}
	defer func() {
		for l := range labels {
			res.Labels = append(res.Labels, l)
		}
		out, _ := json.Marshal(res)
		os.WriteFile(os.Getenv("VS_OUT"), out, 0o644)
	}()

	// ---- 1. replay of TLC behaviours
	for _, sc := range job.Schedules {
		w := flNewWorld(job.NSlots, job.NThreads, job.CapPer, job.KnownABA)
		w.onlyProp = job.OnlyProp
		drift := false
		for i, st := range sc.Steps {
			ft := w.threads[st[0]-1]
			switch st[1] {
			case 1:
				if ft.th.pos == "idle" {
					w.startPop(ft)
				}
			case 2:
				if ft.th.pos == "idle" {
					if !w.startPush(ft, st[2]) {
						if !drift {
							drift = true
							res.DriftCount++
							if len(res.Drift) < 5 {
								res.Drift = append(res.Drift, fmt.Sprintf("%s step %d: thread %d does not hold slot %d", sc.Name, i, st[0], st[2]))
							}
						}
						continue
					}
				}
			case 3, 4:
				if ft.th.pos == "idle" {
					ok := false
					if st[1] == 3 {
						ok = w.startLink(ft, st[2], st[4])
					} else {
						ok = w.startChain(ft, st[2])
					}
					if !ok {
						if !drift {
							drift = true
							res.DriftCount++
							if len(res.Drift) < 5 {
								res.Drift = append(res.Drift, fmt.Sprintf("%s step %d: thread %d cannot start op %d on slot %d", sc.Name, i, st[0], st[1], st[2]))
							}
						}
						continue
					}
				}
			default:
				if ft.th.pos == "idle" {
					// the real operation finished earlier than the spec's: structural drift
					if !drift {
						drift = true
						res.DriftCount++
						if len(res.Drift) < 5 {
							res.Drift = append(res.Drift, fmt.Sprintf("%s step %d: thread %d already idle", sc.Name, i, st[0]))
						}
					}
					continue
				}
			}
			if w.viol != nil {
				break
			}
			if !vsEnabled(ft.th) {
				continue
			}
			w.step(ft)
			res.ReplaySteps++
			if w.viol != nil {
				w.viol.Step = i
				break
			}
			if w.knownABA && w.abaHit {
				break
			}
			if !drift && st[3] >= 0 {
				got := w.project()
				if !flEq(got, job.States[st[3]]) {
					drift = true
					res.DriftCount++
					if len(res.Drift) < 5 {
						res.Drift = append(res.Drift, fmt.Sprintf("%s step %d (thread %d): real %v spec %v", sc.Name, i, st[0], got, job.States[st[3]]))
					}
				}
			}
		}
		if w.viol == nil {
			if w.drain() {
				res.QuiescentChecks++
			}
		}
		if w.knownABA && w.abaHit {
			res.KnownHits++
		}
		if w.viol != nil {
			w.viol.Schedule = sc.Name
			w.viol.Steps = sc.Steps
			res.Violations = append(res.Violations, *w.viol)
		}
		res.Replayed++
		if !drift {
			res.Conforming++
		}
		for l := range w.labels {
			labels[l] = true
		}
		w.close()
		if len(res.Violations) >= 3 {
			return
		}
	}

	// ---- 2. seeded random schedules on the real code (oracles + traces for trace validation)
	var tf *os.File
	if job.TraceFile != "" && job.Random.Traces > 0 {
		tf, _ = os.Create(job.TraceFile)
		defer tf.Close()
	}
	rng := rand.New(rand.NewSource(job.Random.Seed))
	distinct := map[string]bool{}
	for run := 0; run < job.Random.N; run++ {
		n := job.Random.NSlots[rng.Intn(len(job.Random.NSlots))]
		nt := job.Random.Threads[rng.Intn(len(job.Random.Threads))]
		logIt := tf != nil && run < job.Random.Traces
		if logIt {
			// traces are validated against a fixed-size model
			n, nt = job.NSlots, job.NThreads
		}
		w := flNewWorld(n, nt, job.CapPer, job.KnownABA)
		var steps [][]int
		opsLeft := make([]int, nt)
		for i := range opsLeft {
			opsLeft[i] = 1 + rng.Intn(job.Random.MaxOps)
		}
		// PCT-like: random priorities, a few priority change points
		prio := rng.Perm(nt)
		change := map[int]bool{}
		for k := 0; k < 3; k++ {
			change[rng.Intn(40*nt)] = true
		}
		var sig strings.Builder
		if logIt {
			fmt.Fprintf(tf, "{\"ev\":\"reset\",\"n\":%d,\"st\":%s}\n", n, flJSON(w.project()))
			res.TraceEvents++
		}
		for stepNo := 0; stepNo < 4000; stepNo++ {
			if change[stepNo] {
				i, j := rng.Intn(nt), rng.Intn(nt)
				prio[i], prio[j] = prio[j], prio[i]
			}
			// candidates: threads mid-operation that are enabled, or idle threads with something to do
			best := -1
			for i, ft := range w.threads {
				can := false
				if ft.th.pos != "idle" {
					can = vsEnabled(ft.th)
				} else if opsLeft[i] > 0 {
					can = true
				}
				if can && (best < 0 || prio[i] > prio[best] || rng.Intn(6) == 0) {
					best = i
				}
			}
			if best < 0 {
				break
			}
			ft := w.threads[best]
			kind, arg, arg2 := 0, 0, 0
			if ft.th.pos == "idle" {
				opsLeft[best]--
				var mine []int
				for s, o := range w.holder {
					if o == ft.th.id {
						mine = append(mine, s)
					}
				}
				sortInts(mine)
				// candidates (deterministic order): push of a head/single, link, chain, pop
				var heads, chains []int
				var links [][2]int
				for _, a := range mine {
					if !w.hasPred(a) {
						heads = append(heads, a)
						if _, ok := w.mlink[a]; ok {
							chains = append(chains, a)
						}
					}
					if _, linked := w.mlink[a]; !linked {
						for _, b := range mine {
							_, bl := w.mlink[b]
							if a != b && !bl && !w.hasPred(b) {
								links = append(links, [2]int{a, b})
							}
						}
					}
				}
				r := rng.Intn(10)
				switch {
				case r < 2 && len(links) > 0 && job.Random.Links:
					l := links[rng.Intn(len(links))]
					kind, arg, arg2 = 3, l[0], l[1]
					w.startLink(ft, arg, arg2)
				case r < 5 && len(chains) > 0:
					kind, arg = 4, chains[rng.Intn(len(chains))]
					w.startChain(ft, arg)
				case r < 7 && len(heads) > 0:
					kind, arg = 2, heads[rng.Intn(len(heads))]
					w.startPush(ft, arg)
				default:
					kind = 1
					w.startPop(ft)
				}
			}
			if w.viol != nil {
				break
			}
			ex, _ := w.step(ft)
			res.RandomSteps++
			steps = append(steps, []int{ft.th.id, kind, arg, -1, arg2})
			fmt.Fprintf(&sig, "%d.", ft.th.id)
			if logIt {
				fmt.Fprintf(tf, "{\"ev\":\"step\",\"t\":%d,\"k\":%d,\"b\":%d,\"b2\":%d,\"lbl\":%q,\"st\":%s}\n", ft.th.id, kind, arg, arg2, ex, flJSON(w.project()))
				res.TraceEvents++
			}
			if w.viol != nil || (w.knownABA && w.abaHit) {
				break
			}
		}
		if w.viol == nil {
			if w.drain() {
				res.QuiescentChecks++
			}
		}
		if w.knownABA && w.abaHit {
			res.KnownHits++
		}
		if w.viol != nil {
			w.viol.Schedule = fmt.Sprintf("random seed=%d run=%d", job.Random.Seed, run)
			w.viol.Steps = steps
			res.Violations = append(res.Violations, *w.viol)
		}
		if logIt {
			res.TracesLogged++
		}
		if len(res.Samples) < 3 {
			res.Samples = append(res.Samples, fmt.Sprintf("slots=%d threads=%d schedule=%s", n, nt, sig.String()))
		}
		distinct[sig.String()] = true
		res.RandomRuns++
		for l := range w.labels {
			labels[l] = true
		}
		w.close()
		if len(res.Violations) >= 3 {
			break
		}
	}
	res.RandomDistinct = len(distinct)

	// ---- 3. directed scenario: the retry bound of pop is hit (C02: a failed allocation consumes nothing)
	if job.RetryExhaust && len(res.Violations) == 0 {
		res.RetryExhaust = flRetryExhaust(res)
	}
}

func sortInts(a []int) {
	for i := 1; i < len(a); i++ {
		for j := i; j > 0 && a[j] < a[j-1]; j-- {
			a[j], a[j-1] = a[j-1], a[j]
		}
	}
}

func flJSON(v []int) string {
	b, _ := json.Marshal(v)
	return string(b)
}

// flRetryExhaust makes thread 1's CAS fail on every one of its retries: before each CAS thread 2 pops one buffer, and
// pushes it back after the failed CAS. Thread 1 must give up with ErrNoMoreBuffer and leave the free count unchanged.
func flRetryExhaust(res *flResult) string {
	w := flNewWorld(5, 2, 4, false)
	defer w.close()
	a, b := w.threads[0], w.threads[1]
	w.startPop(a)
	cas := 0
	for guard := 0; guard < 200000 && a.th.pos != "idle"; guard++ {
		if strings.HasPrefix(a.th.pos, "bufferList.pop:CompareAndSwapUint32") {
			// make head differ from what a has read: b pops a buffer now
			w.startPop(b)
			for b.th.pos != "idle" {
				w.step(b)
			}
			w.step(a) // the CAS, must fail
			cas++
			// b gives its buffer back so that the list never runs dry
			for slot, tid := range w.holder {
				if tid == b.th.id {
					w.startPush(b, slot)
					for b.th.pos != "idle" {
						w.step(b)
					}
					break
				}
			}
			if w.viol != nil {
				break
			}
			continue
		}
		w.step(a)
		if w.viol != nil {
			break
		}
	}
	if w.viol != nil {
		w.viol.Schedule = "retry-exhaust"
		res.Violations = append(res.Violations, *w.viol)
		return "violation"
	}
	if a.lastErr == nil {
		// the pop finally succeeded: legal only if a CAS succeeded, which this schedule never allows
		w.fail("C02", "retry-bound", fmt.Sprintf("pop succeeded although every CAS was made to fail (%d CAS attempts)", cas))
		w.viol.Schedule = "retry-exhaust"
		res.Violations = append(res.Violations, *w.viol)
		return "violation"
	}
	if int(*w.views[0].size) != w.n-len(w.holder) {
		w.fail("C02", "failed-pop-not-neutral", fmt.Sprintf("after pop gave up at the retry bound: size %d, held %d, cap %d", *w.views[0].size, len(w.holder), w.n))
		w.viol.Schedule = "retry-exhaust"
		res.Violations = append(res.Violations, *w.viol)
		return "violation"
	}
	w.drain()
	if w.viol != nil {
		w.viol.Schedule = "retry-exhaust"
		res.Violations = append(res.Violations, *w.viol)
		return "violation"
	}
	return fmt.Sprintf("pop gave up after %d failed CAS attempts, free count exact, chain intact", cas)
}
