package shmipc

// Binding B1 for the IOQueue module (C04, C05): the REAL queue.put / queue.pop / markWorking / markNotWorking,
// Session.wakeUpPeer and handlePolling run under the serialising scheduler; TLC behaviours are replayed one shared access
// per action with the real memory compared to the spec state, and seeded random schedules are logged for trace validation.

import (
	"encoding/json"
	"fmt"
	"math/rand"
	"os"
	"strings"
	"testing"
	"unsafe"
)

type ioJob struct {
	Cap       int     `json:"cap"`
	NProd     int     `json:"nprod"`
	PerProd   int     `json:"perprod"`
	Start     int     `json:"start"`
	States    [][]int `json:"states"`
	Schedules []ioSchedule
	Random    struct {
		N       int   `json:"n"`
		Seed    int64 `json:"seed"`
		Traces  int   `json:"traces"`
		Caps    []int `json:"caps"`
		Prods   []int `json:"prods"`
		PerProd []int `json:"perprod"`
	} `json:"random"`
	TraceFile string `json:"trace_file"`
}

type ioSchedule struct {
	Name  string  `json:"name"`
	Steps [][]int `json:"steps"` // [who (0 consumer, p producer), kind (1 start, 0 step), stateIndex]
}

type ioViolation struct {
	Property string  `json:"property"`
	Kind     string  `json:"kind"`
	Detail   string  `json:"detail"`
	Schedule string  `json:"schedule"`
	Cap      int     `json:"cap"`
	NProd    int     `json:"nprod"`
	PerProd  int     `json:"perprod"`
	Start    int     `json:"start"`
	Steps    [][]int `json:"steps,omitempty"`
}

type ioResult struct {
	Replayed       int           `json:"replayed"`
	ReplaySteps    int           `json:"replay_steps"`
	Conforming     int           `json:"conforming"`
	Drift          []string      `json:"drift"`
	DriftCount     int           `json:"drift_count"`
	Violations     []ioViolation `json:"violations"`
	RandomRuns     int           `json:"random_runs"`
	RandomSteps    int           `json:"random_steps"`
	RandomDistinct int           `json:"random_distinct"`
	TracesLogged   int           `json:"traces_logged"`
	TraceEvents    int           `json:"trace_events"`
	Quiescent      int           `json:"quiescent_checks"`
	Samples        []string      `json:"samples"`
	Labels         []string      `json:"labels"`
	FullReturns    int           `json:"full_returns"`
	Popped         int           `json:"popped"`
}

func ioStatus(code int) uint32 {
	st := uint32(code) << 8
	if ioIsClose(code) {
		st |= uint32(streamClosed)
	}
	return st
}

type ioFakeConn struct{ count int }

func (f *ioFakeConn) commitRead(n int)                       {}
func (f *ioFakeConn) setCallback(cb eventConnCallback) error { return nil }
func (f *ioFakeConn) write(data []byte) error                { f.count++; return nil }
func (f *ioFakeConn) writev(data ...[]byte) error            { f.count++; return nil }
func (f *ioFakeConn) close() error                           { return nil }

type ioRecorder struct{ order []uint32 }

func (r *ioRecorder) OnNewStream(s *Stream) { r.order = append(r.order, s.id) }
func (r *ioRecorder) OnShutdown(reason string) {}

type ioProd struct {
	th       *vsThread
	next     func()
	k        int // elements attempted
	inOp     bool
	sawFull  bool
	lastFull bool
	opStart  int
}

type ioPut struct {
	code       int
	start, end int
}

type ioWorld struct {
	cap, nprod, perprod, start int
	bytes                      []byte
	q                          *queue // producers' view
	qc                         *queue // consumer's view (second mapping of the same bytes)
	prodS, consS               *Session
	conn                       *ioFakeConn
	rec                        *ioRecorder
	prods                      []*ioProd
	cons                       *ioProd
	puts                       []ioPut
	stepNo                     int
	viol                       *ioViolation
	labels                     map[string]bool
	fullReturns                int
	popOrder                   []int       // codes in the order the consumer dispatched them (observed through the streams)
	seenPending                map[uint32]int
	seenClosed                 map[uint32]bool
}

func ioCode(p, k int) int { return p*16 + k }

// odd k: a stream-close element (status low byte 1), even k: a data element (status low byte 0)
func ioIsClose(code int) bool { return code%2 == 1 }

func ioNewWorld(cap, nprod, perprod, start int) *ioWorld {
	level = levelNoPrint
	w := &ioWorld{cap: cap, nprod: nprod, perprod: perprod, start: start, labels: map[string]bool{}}
	w.bytes = make([]byte, queueHeaderLength+cap*queueElementLen)
	w.q = createQueueFromBytes(w.bytes, uint32(cap))
	*w.q.head = int64(start)
	*w.q.tail = int64(start)
	w.qc = mappingQueueFromBytes(w.bytes)
	w.conn = &ioFakeConn{}
	w.rec = &ioRecorder{}
	w.prodS = &Session{queueManager: &queueManager{sendQueue: w.q}, eventConn: w.conn, logger: newLogger("p", nil),
		sendCh: make(chan sendReady, 4096), notifyContinueWriteCh: make(chan struct{}, 1), shutdownCh: make(chan struct{}),
		communicationVersion: 2, isClient: true, streams: map[uint32]*Stream{}}
	w.consS = &Session{queueManager: &queueManager{recvQueue: w.qc}, logger: newLogger("c", nil),
		streams: map[uint32]*Stream{}, config: &Config{listenCallback: w.rec}, shutdownCh: make(chan struct{}),
		communicationVersion: 2}
	vsReset(vsSched)
	mk := func(id int) *ioProd {
		p := &ioProd{}
		p.th = vsSpawn(id, func(th *vsThread) {
			for {
				vsYield("idle")
				if p.next == nil {
					return
				}
				f := p.next
				p.next = nil
				f()
			}
		})
		vsStep(p.th)
		return p
	}
	for i := 1; i <= nprod; i++ {
		w.prods = append(w.prods, mk(i))
	}
	w.cons = mk(99)
	w.seenPending = map[uint32]int{}
	w.seenClosed = map[uint32]bool{}
	for pi := 1; pi <= nprod; pi++ {
		for k := 1; k <= perprod+1; k++ {
			id := uint32(ioCode(pi, k))
			w.consS.streams[id] = newStream(w.consS, id)
		}
	}
	return w
}

func (w *ioWorld) close() {
	for _, p := range append(append([]*ioProd{}, w.prods...), w.cons) {
		if !p.th.done && p.th.pos == "idle" {
			p.next = nil
			vsStep(p.th)
		}
	}
	vsReset(vsOff)
}

func (w *ioWorld) inflight() int { return w.conn.count + len(w.prodS.sendCh) }

func (w *ioWorld) fail(prop, kind, detail string) {
	if w.viol == nil {
		w.viol = &ioViolation{Property: prop, Kind: kind, Detail: detail, Cap: w.cap, NProd: w.nprod, PerProd: w.perprod, Start: w.start}
	}
}

// project: [head, tail, flag, lockOwner, writing, inflight, ring fields...] with element codes p*16+k
func (w *ioWorld) project() []int {
	out := []int{int(*w.q.head), int(*w.q.tail), int(*w.q.workingFlag), 0, int(w.prodS.writing), w.inflight()}
	if o := vsLockOwner[vsLocker(w.q)]; o != nil {
		out[3] = o.id
	}
	for i := 0; i < w.cap*3; i++ {
		v := int(*(*uint32)(unsafe.Pointer(&w.q.queueBytesOnMemory[i*4])))
		if i%3 == 2 {
			// the status field carries the element code above its low byte (the low byte is the stream state, 0 = open)
			v >>= 8
		}
		out = append(out, v)
	}
	return out
}

func (w *ioWorld) startPut(pi int) {
	p := w.prods[pi-1]
	p.k++
	code := ioCode(pi, p.k)
	p.inOp = true
	p.sawFull = int(*w.q.tail-*w.q.head) >= w.cap
	p.opStart = w.stepNo
	p.next = func() {
		err := w.q.put(queueElement{seqID: uint32(code), offsetInShmBuf: uint32(code), status: ioStatus(code)})
		p.inOp = false
		if err == nil {
			w.puts = append(w.puts, ioPut{code: code, start: p.opStart, end: w.stepNo})
			p.lastFull = false
			_ = w.prodS.wakeUpPeer()
		} else if err == ErrQueueFull {
			p.lastFull = true
			w.fullReturns++
			if !p.sawFull {
				w.fail("C04", "false-full", fmt.Sprintf("put of producer %d returned ErrQueueFull but the queue was never full during the call (cap %d)", pi, w.cap))
			}
		} else {
			w.fail("C04", "put-error", err.Error())
		}
	}
	vsStep(p.th)
}

func (w *ioWorld) startPoll() bool {
	if w.conn.count > 0 {
		w.conn.count--
	} else if len(w.prodS.sendCh) > 0 {
		<-w.prodS.sendCh
	} else {
		return false
	}
	w.cons.next = func() {
		if _, _, err := handlePolling(w.consS, nil, nil); err != nil {
			w.fail("C04", "poll-error", err.Error())
		}
	}
	vsStep(w.cons.th)
	return true
}

func (w *ioWorld) step(p *ioProd) (string, string) {
	ex, now := vsStep(p.th)
	w.stepNo++
	w.labels[ex] = true
	sz := int(*w.q.tail - *w.q.head)
	if sz < 0 || sz > w.cap {
		w.fail("C04", "bounds", fmt.Sprintf("tail-head = %d outside [0,%d] after %s", sz, w.cap, ex))
	}
	if sz >= w.cap {
		for _, o := range w.prods {
			if o.inOp {
				o.sawFull = true
			}
		}
	}
	if p.th.panicVal != nil {
		w.fail("C04", "panic", fmt.Sprint(p.th.panicVal))
	}
	if p == w.cons && strings.HasPrefix(ex, "queue.pop:AddInt64") {
		w.observePop()
	}
	w.quiescentCheck("after " + ex)
	return ex, now
}

// observePop: the consumer has just advanced head and dispatched the element; find out what it dispatched by looking at
// the streams (a data element adds a pending buffer with the element's offset field, a close element half-closes).
func (w *ioWorld) observePop() {
	found := 0
	for _, id := range w.rec.order {
		// a stream the library created itself: the seqID it read is not one any producer wrote
		w.fail("C04", "invented", fmt.Sprintf("consumer dispatched data for seqID %d which no producer enqueued (torn or stale slot)", id))
		found++
	}
	w.rec.order = nil
	for id, st := range w.consS.streams {
		st.pendingData.Lock()
		n := len(st.pendingData.unread)
		var off uint32
		if n > 0 {
			off = st.pendingData.unread[n-1].offset
		}
		st.pendingData.Unlock()
		if n > w.seenPending[id] {
			w.seenPending[id] = n
			found++
			w.popOrder = append(w.popOrder, int(id))
			if off != id {
				w.fail("C04", "torn", fmt.Sprintf("element seqID %d came out with offset field %d", id, off))
			}
			if ioIsClose(int(id)) {
				w.fail("C04", "torn", fmt.Sprintf("close element %d was dispatched as data (status field not as written)", id))
			}
		}
		if !w.seenClosed[id] && st.getStreamState() != uint32(streamOpened) {
			w.seenClosed[id] = true
			found++
			w.popOrder = append(w.popOrder, int(id))
			if !ioIsClose(int(id)) {
				w.fail("C04", "torn", fmt.Sprintf("data element %d was dispatched as a stream close (status field not as written)", id))
			}
		}
	}
	if found != 1 && w.viol == nil {
		w.fail("C04", "unobserved-pop", fmt.Sprintf("consumer advanced head but %d effects were observed (duplicate, or an element whose fields belong to no enqueued element)", found))
	}
}

func (w *ioWorld) allIdle() bool {
	for _, p := range w.prods {
		if p.th.pos != "idle" {
			return false
		}
	}
	return w.cons.th.pos == "idle"
}

// C05: producers idle, every notification delivered and handled, consumer idle => queue empty
func (w *ioWorld) quiescentCheck(when string) bool {
	if !w.allIdle() || w.inflight() != 0 {
		return false
	}
	if sz := w.qc.size(); sz != 0 {
		w.fail("C05", "stranded", fmt.Sprintf("%d element(s) left in the queue with producers idle, no notification in flight and the consumer idle (%s; flag=%d)", sz, when, *w.q.workingFlag))
	}
	return true
}

// finish: complete operations in progress, deliver all notifications, check the C04 history oracles.
func (w *ioWorld) finish() bool {
	for guard := 0; guard < 100000; guard++ {
		progress := false
		for _, p := range w.prods {
			if p.th.pos != "idle" && vsEnabled(p.th) {
				w.step(p)
				progress = true
			}
		}
		if w.cons.th.pos != "idle" {
			w.step(w.cons)
			progress = true
		} else if w.inflight() > 0 {
			w.startPoll()
			progress = true
		}
		if !progress || w.viol != nil {
			break
		}
	}
	if w.viol != nil {
		return false
	}
	ok := w.quiescentCheck("end of schedule")
	// C04: exactly once, in order
	popIndex := map[int]int{}
	for i, id := range w.popOrder {
		if _, dup := popIndex[id]; dup {
			w.fail("C04", "duplicate", fmt.Sprintf("element %d dispatched twice", id))
		}
		popIndex[id] = i
	}
	enq := map[int]bool{}
	for _, pu := range w.puts {
		enq[pu.code] = true
	}
	for id := range popIndex {
		if !enq[id] {
			w.fail("C04", "invented", fmt.Sprintf("consumer dispatched element %d that no producer enqueued successfully", id))
		}
	}
	if w.viol == nil && ok {
		for _, pu := range w.puts {
			if _, got := popIndex[pu.code]; !got {
				w.fail("C04", "lost", fmt.Sprintf("element %d was enqueued successfully but never dispatched although the queue is empty", pu.code))
			}
		}
		// real-time order: a put that returned before another started comes out first (covers per-producer order)
		for _, a := range w.puts {
			for _, b := range w.puts {
				if a.end < b.start && popIndex[a.code] > popIndex[b.code] {
					w.fail("C04", "order", fmt.Sprintf("element %d enqueued (steps %d-%d) strictly before %d (steps %d-%d) but dispatched after it", a.code, a.start, a.end, b.code, b.start, b.end))
				}
			}
		}
	}
	return ok
}

func TestVS_IOQueue(t *testing.T) {
	var job ioJob
	b, err := os.ReadFile(os.Getenv("VS_IN_JOB"))
	if err != nil {
		t.Skip("no job")
	}
	if err := json.Unmarshal(b, &job); err != nil {
		t.Fatal(err)
	}
	res := &ioResult{Violations: []ioViolation{}, Drift: []string{}, Samples: []string{}}
	labels := map[string]bool{}
	defer func() {
		for l := range labels {
			res.Labels = append(res.Labels, l)
		}
		out, _ := json.Marshal(res)
		os.WriteFile(os.Getenv("VS_OUT"), out, 0o644)
	}()
	who := func(w *ioWorld, id int) *ioProd {
		if id == 0 {
			return w.cons
		}
		return w.prods[id-1]
	}
	for _, sc := range job.Schedules {
		w := ioNewWorld(job.Cap, job.NProd, job.PerProd, job.Start)
		drift := false
		note := func(s string) {
			if !drift {
				drift = true
				res.DriftCount++
				if len(res.Drift) < 5 {
					res.Drift = append(res.Drift, sc.Name+" "+s)
				}
			}
		}
		for i, st := range sc.Steps {
			p := who(w, st[0])
			if st[1] == 1 {
				if p.th.pos == "idle" {
					if st[0] == 0 {
						if !w.startPoll() {
							note(fmt.Sprintf("step %d: no notification in flight for the consumer", i))
							continue
						}
					} else {
						w.startPut(st[0])
					}
				}
			} else if p.th.pos == "idle" {
				note(fmt.Sprintf("step %d: thread %d already idle", i, st[0]))
				continue
			}
			if w.viol != nil {
				break
			}
			if !vsEnabled(p.th) {
				note(fmt.Sprintf("step %d: thread %d blocked", i, st[0]))
				continue
			}
			w.step(p)
			res.ReplaySteps++
			if w.viol != nil {
				break
			}
			if !drift && st[2] >= 0 {
				got := w.project()
				if !flEq(got, job.States[st[2]]) {
					note(fmt.Sprintf("step %d (thread %d): real %v spec %v", i, st[0], got, job.States[st[2]]))
				}
			}
		}
		if w.viol == nil && w.finish() {
			res.Quiescent++
		}
		if w.viol != nil {
			w.viol.Schedule = sc.Name
			w.viol.Steps = sc.Steps
			res.Violations = append(res.Violations, *w.viol)
		}
		res.Replayed++
		if !drift {
			res.Conforming++
		}
		res.FullReturns += w.fullReturns
		res.Popped += len(w.popOrder)
		for l := range w.labels {
			labels[l] = true
		}
		w.close()
		if len(res.Violations) >= 3 {
			return
		}
	}

	var tf *os.File
	if job.TraceFile != "" && job.Random.Traces > 0 {
		tf, _ = os.Create(job.TraceFile)
		defer tf.Close()
	}
	rng := rand.New(rand.NewSource(job.Random.Seed))
	distinct := map[string]bool{}
	for run := 0; run < job.Random.N; run++ {
		cp := job.Random.Caps[rng.Intn(len(job.Random.Caps))]
		np := job.Random.Prods[rng.Intn(len(job.Random.Prods))]
		pp := job.Random.PerProd[rng.Intn(len(job.Random.PerProd))]
		start := rng.Intn(2 * cp)
		logIt := tf != nil && run < job.Random.Traces
		if logIt {
			cp, np, pp, start = job.Cap, job.NProd, job.PerProd, job.Start
		}
		w := ioNewWorld(cp, np, pp, start)
		var steps [][]int
		var sig strings.Builder
		if logIt {
			fmt.Fprintf(tf, "{\"ev\":\"reset\",\"st\":%s}\n", flJSON(w.project()))
			res.TraceEvents++
		}
		prio := rng.Perm(np + 1)
		change := map[int]bool{}
		for k := 0; k < 4; k++ {
			change[rng.Intn(30*(np+1))] = true
		}
		for stepNo := 0; stepNo < 5000; stepNo++ {
			if change[stepNo] {
				i, j := rng.Intn(np+1), rng.Intn(np+1)
				prio[i], prio[j] = prio[j], prio[i]
			}
			best := -1
			for i := 0; i <= np; i++ {
				var p *ioProd
				can := false
				if i == np {
					p = w.cons
					can = p.th.pos != "idle" || w.inflight() > 0
				} else {
					p = w.prods[i]
					if p.th.pos != "idle" {
						can = vsEnabled(p.th)
					} else {
						can = p.k < pp && vsLockOwner[vsLocker(w.q)] == nil
					}
				}
				if can && (best < 0 || prio[i] > prio[best] || rng.Intn(5) == 0) {
					best = i
				}
			}
			if best < 0 {
				break
			}
			id, kind := best+1, 0
			var p *ioProd
			if best == np {
				id = 0
				p = w.cons
				if p.th.pos == "idle" {
					kind = 1
					w.startPoll()
				}
			} else {
				p = w.prods[best]
				if p.th.pos == "idle" {
					kind = 1
					w.startPut(id)
				}
			}
			ex, _ := w.step(p)
			res.RandomSteps++
			steps = append(steps, []int{id, kind, -1})
			fmt.Fprintf(&sig, "%d.", id)
			if logIt {
				fmt.Fprintf(tf, "{\"ev\":\"step\",\"t\":%d,\"k\":%d,\"lbl\":%q,\"st\":%s}\n", id, kind, ex, flJSON(w.project()))
				res.TraceEvents++
			}
			if w.viol != nil {
				break
			}
		}
		if w.viol == nil && w.finish() {
			res.Quiescent++
		}
		if w.viol != nil {
			w.viol.Schedule = fmt.Sprintf("random seed=%d run=%d", job.Random.Seed, run)
			w.viol.Steps = steps
			res.Violations = append(res.Violations, *w.viol)
		}
		if logIt {
			res.TracesLogged++
		}
		if len(res.Samples) < 3 {
			res.Samples = append(res.Samples, fmt.Sprintf("cap=%d producers=%d per=%d start=%d schedule=%s", cp, np, pp, start, sig.String()))
		}
		distinct[sig.String()] = true
		res.RandomRuns++
		res.FullReturns += w.fullReturns
		res.Popped += len(w.popOrder)
		for l := range w.labels {
			labels[l] = true
		}
		w.close()
		if len(res.Violations) >= 3 {
			break
		}
	}
	res.RandomDistinct = len(distinct)
}
