package shmipc

// Harness of module HotRestart (C16, C17). Injected with `go test -overlay`; never part of /repo.
//
// Everything under test is the real code: real Listener(s) on a real unix socket, a real SessionManager with its real
// watcher goroutines, checker goroutines, timers (2 s time-out, 100 ms tick) and the real epoll loop.
// What the harness controls is the DELAY of the two hot-restart control messages: the entries of the two handler
// tables (sessionManagerHandlers[typeHotRestart], protocolHandlers[typeHotRestartAck]) are wrapped so that a received
// event is parked in a per-session queue; when the TLC behaviour says MOnHR(i) / LAck(i) the harness calls the REAL
// handler with the very arguments that were received. Everything else (ticks, time-outs, watchers) runs freely and is
// waited for.

import (
	"encoding/json"
	"fmt"
	"net"
	"os"
	"runtime"
	"sort"
	"strings"
	"sync"
	"sync/atomic"
	"syscall"
	"testing"
	"time"
)

// ---------------------------------------------------------------- job / result

type hrSessX struct {
	Epoch  int    `json:"epoch"`
	Srv    string `json:"srv"`
	Alive  bool   `json:"alive"`
	Sstate string `json:"sstate"`
	Pool   int    `json:"pool"`
}

type hrExpect struct {
	LState  string    `json:"lstate"`
	LEpoch  int       `json:"lepoch"`
	Ack     int       `json:"ack"`
	MState  string    `json:"mstate"`
	MEpoch  int       `json:"mepoch"`
	Cur     []int     `json:"cur"`
	Reserve []int     `json:"reserve"`
	Sess    []hrSessX `json:"sess"` // ids 1..nextId-1
	S2C     [][]int   `json:"s2c"`
	C2S     [][]int   `json:"c2s"`
	OldUp   bool      `json:"oldUp"`
	NewUp   bool      `json:"newUp"`
	Closed  string    `json:"closed"`
	Wpc     []string  `json:"wpc"`
	Quiet   bool      `json:"quiet"` // no free-running step is enabled in this state
}

type hrStep struct {
	A string    `json:"a"`
	I int       `json:"i"` // session id or pool (1-based)
	E int       `json:"e"`
	X *hrExpect `json:"x"`
}

type hrScenario struct {
	Name    string    `json:"name"`
	NP      int       `json:"np"`
	Prop    string    `json:"prop"`    // property the oracles of this scenario report under
	Raw     bool      `json:"raw"`     // no predictions: run the steps, evaluate the oracles only
	Observe int       `json:"observe"` // after the steps: watch the pools for this many rebuild intervals (heal oracle)
	Init    *hrExpect `json:"init"`
	Steps   []hrStep  `json:"steps"`
}

type hrJob struct {
	Scenarios []hrScenario `json:"scenarios"`
	Parallel  int          `json:"parallel"`
	RebuildMs int          `json:"rebuild_ms"`
	Known     []string     `json:"known"`
	Free      []hrFree     `json:"free"`
	TraceFile string       `json:"trace_file"`
}

type hrViolation struct {
	Property string   `json:"property"`
	Kind     string   `json:"kind"`
	Scenario string   `json:"scenario"`
	Detail   string   `json:"detail"`
	NP       int      `json:"np"`
	Observe  int      `json:"observe"`
	Steps    []hrStep `json:"steps"`
}

type hrResult struct {
	Replayed      int           `json:"replayed"`
	Conforming    int           `json:"conforming"`
	Steps         int           `json:"steps"`
	Compares      int           `json:"compares"`
	Probes        int           `json:"probes"`
	ProbeOK       int           `json:"probe_ok"`
	ProbeErr      int           `json:"probe_err"`
	Traffic       int           `json:"traffic"`
	TrafficMust   int           `json:"traffic_must"`
	Unrealised    int           `json:"unrealised"`
	Retries       int           `json:"retries"`
	Drift         []string      `json:"drift"`
	DriftCount    int           `json:"drift_count"`
	Violations    []hrViolation `json:"violations"`
	KnownHits     []string      `json:"known_hits"`
	Hooks         bool          `json:"hooks"`
	Samples       []string      `json:"samples"`
	MaxLeaveMs    int64         `json:"max_leave_ms"`
	MaxHealMs     int64         `json:"max_heal_ms"`
	MaxErrMs      int64         `json:"max_err_ms"`
	FreeRuns      int           `json:"free_runs"`
	FreeEvents    int           `json:"free_events"`
	FreeNotes     []string      `json:"free_notes"`
	Sessions      int           `json:"sessions"`
	Per           []hrPer       `json:"per"`
	CallPanics    []string      `json:"call_panics"`
	HarnessPanics []string      `json:"harness_panics"`
	ScenariosDone bool          `json:"scenarios_done"`
	AllDone       bool          `json:"all_done"`
}

type hrPer struct {
	Name    string `json:"name"`
	Conform bool   `json:"conform"`
	Slip    bool   `json:"slip"`
	Drift   bool   `json:"drift"`
	Steps   int    `json:"steps"`
}

// ---------------------------------------------------------------- hooks (present only when the tree has them)

// set by a generated glue file when the tree under test defines verifTrace (build tag verif)
var hrHookInstall func(f func(ev string, obj interface{}, s *Session, a, b int64))

type hrEv struct {
	Seq int64
	Ev  string
	Obj interface{}
	S   *Session
	A   int64
	B   int64
}

// ---------------------------------------------------------------- world

type hrCountLn struct {
	net.Listener
	n    int64
	mu   sync.Mutex
	hold chan struct{} // armed: the next accepted connection is handed to the server only after the channel is closed
	held chan struct{} // closed when a connection is being held (the peer has connected, its handshake gets no answer yet)
}

func (c *hrCountLn) Accept() (net.Conn, error) {
	conn, err := c.Listener.Accept()
	if err == nil {
		atomic.AddInt64(&c.n, 1)
		c.mu.Lock()
		hold, held := c.hold, c.held
		c.hold, c.held = nil, nil
		c.mu.Unlock()
		if hold != nil {
			close(held)
			<-hold
		}
	}
	return conn, err
}

func (c *hrCountLn) arm() (held chan struct{}, release func()) {
	hold := make(chan struct{})
	held = make(chan struct{})
	c.mu.Lock()
	c.hold, c.held = hold, held
	c.mu.Unlock()
	var once sync.Once
	return held, func() { once.Do(func() { close(hold) }) }
}

type hrEcho struct{}

func (hrEcho) OnNewStream(s *Stream)    { _ = s.SetCallbacks(&hrEchoStream{s: s}) }
func (hrEcho) OnShutdown(reason string) {}

type hrEchoStream struct{ s *Stream }

func (e *hrEchoStream) OnData(r BufferReader) {
	n := r.Len()
	if n == 0 {
		return
	}
	b, err := r.ReadBytes(n)
	if err != nil {
		return
	}
	cp := append([]byte(nil), b...)
	_, _ = e.s.BufferWriter().WriteBytes(cp)
	_ = e.s.Flush(false)
	e.s.ReleaseReadAndReuse()
}
func (e *hrEchoStream) OnLocalClose()  {}
func (e *hrEchoStream) OnRemoteClose() { e.s.Close() }

type hrAckMsg struct {
	hdr header
	buf []byte
}

type hrWorld struct {
	name         string
	np           int
	path         string
	rebuild      time.Duration
	oldL         *Listener
	newL         *Listener
	oldLn        *hrCountLn
	newLn        *hrCountLn
	prevNew      []*Listener
	prevNewCount int64
	newGone      bool
	sm           *SessionManager
	lcfg         func() *ListenerConfig
	intercept    bool

	mu    sync.Mutex
	cli   map[int]*Session
	srv   map[int]*Session
	idCli map[*Session]int
	idSrv map[*Session]int
	hrq   map[*Session][]*sessionManagerHotRestartParams
	ackq  map[*Session][]hrAckMsg
	evs   []hrEv
	evCur int // first event not yet consumed by a wait

	// oracle bookkeeping
	notified       map[*Session]uint64 // server sessions with an HR of the current listener round not yet acknowledged
	faultGen       int64               // odd while a step that may kill sessions is running
	someDead       int32               // the model says some pool's session is dead / the manager is closed
	lastTimerStart time.Time
	hotEnd         time.Time
	pickInHot      map[int]bool
	closeDone      chan struct{}
	trafStop       chan struct{}
	trafWg         sync.WaitGroup
	trafMu         sync.Mutex
	traffic        int64
	trafficMust    int64
	trafFail       string
	maxLeave       time.Duration
	maxHeal        time.Duration
	maxErr         time.Duration
	lHotSince      time.Time
	mHotSince      time.Time
	prevX          *hrExpect
	curX           *hrExpect
	lateAck        int32
	sameEpoch      int32 // class same-epoch-round entered
	afterClose     int32 // class hr-after-close entered
	onClosed       int32 // class hr-on-closed-session entered
	closeReturned  int32
	countAtClose   int64
	abort          int32
	heldCh         chan struct{}
	handlerDone    chan struct{}
	holding        bool
	releaseAccept  func()
	maxSessions    int
	oldClosed      bool
	monViol        [][2]string
	monKnown       []string
	monMaxHot      time.Duration
	monStop        chan struct{}
	monWg          sync.WaitGroup
	raw            bool
}

var (
	hrReg       sync.RWMutex
	hrBySM      = map[*SessionManager]*hrWorld{}
	hrByL       = map[*Listener]*hrWorld{}
	hrCounter   int64
	hrOnce      sync.Once
	hrOrigSM    sessionManagerHandler
	hrOrigAck   protocolHandler
	hrHooksOn   bool
	hrGlobalSeq int64
	hrPanicMu   sync.Mutex
	hrPanics    []string
)

func hrLookupSM(sm *SessionManager) *hrWorld {
	hrReg.RLock()
	defer hrReg.RUnlock()
	return hrBySM[sm]
}

func hrLookupL(l *Listener) *hrWorld {
	hrReg.RLock()
	defer hrReg.RUnlock()
	return hrByL[l]
}

func hrInstall() {
	hrOnce.Do(func() {
		hrOrigSM = sessionManagerHandlers[typeHotRestart]
		hrOrigAck = protocolHandlers[typeHotRestartAck]
		sessionManagerHandlers[typeHotRestart] = func(sm *SessionManager, params interface{}) {
			w := hrLookupSM(sm)
			if w == nil || !w.intercept {
				hrOrigSM(sm, params)
				return
			}
			p := params.(*sessionManagerHotRestartParams)
			w.mu.Lock()
			w.hrq[p.session] = append(w.hrq[p.session], p)
			w.mu.Unlock()
		}
		protocolHandlers[typeHotRestartAck] = func(s *Session, hdr header, buf []byte) (n int, stop bool, err error) {
			var w *hrWorld
			if s.listener != nil {
				w = hrLookupL(s.listener)
			}
			if w == nil || !w.intercept {
				// a panic here would take the whole process down (epoll goroutine): turn it into a verdict
				defer func() {
					if r := recover(); r != nil {
						hrPanicMu.Lock()
						hrPanics = append(hrPanics, fmt.Sprintf("handleHotRestartAck panicked on session %s (client=%v, listener set=%v): %v", s.name, s.isClient, s.listener != nil, r))
						hrPanicMu.Unlock()
						n, stop, err = headerSize+epochIDLen, false, nil
					}
				}()
				return hrOrigAck(s, hdr, buf)
			}
			if len(buf) < epochIDLen {
				return 0, true, nil
			}
			m := hrAckMsg{hdr: append(header(nil), hdr...), buf: append([]byte(nil), buf[:epochIDLen]...)}
			w.mu.Lock()
			w.ackq[s] = append(w.ackq[s], m)
			w.mu.Unlock()
			return headerSize + epochIDLen, false, nil
		}
		if hrHookInstall != nil {
			hrHooksOn = true
			hrHookInstall(func(ev string, obj interface{}, s *Session, a, b int64) {
				var w *hrWorld
				switch o := obj.(type) {
				case *Listener:
					w = hrLookupL(o)
				case *SessionManager:
					w = hrLookupSM(o)
				}
				if w == nil && s != nil {
					if s.manager != nil {
						w = hrLookupSM(s.manager)
					} else if s.listener != nil {
						w = hrLookupL(s.listener)
					}
				}
				if w == nil {
					return
				}
				seq := atomic.AddInt64(&hrGlobalSeq, 1)
				w.mu.Lock()
				w.evs = append(w.evs, hrEv{Seq: seq, Ev: ev, Obj: obj, S: s, A: a, B: b})
				w.mu.Unlock()
			})
		}
	})
}

func hrNewWorld(name string, np int, rebuild time.Duration, intercept bool) (*hrWorld, error) {
	hrInstall()
	id := atomic.AddInt64(&hrCounter, 1)
	dir := os.Getenv("VS_DIR")
	if dir == "" {
		dir = os.TempDir()
	}
	w := &hrWorld{name: name, np: np, rebuild: rebuild, intercept: intercept,
		path: fmt.Sprintf("%s/hr%d_%d.sock", dir, os.Getpid(), id),
		cli:  map[int]*Session{}, srv: map[int]*Session{}, idCli: map[*Session]int{}, idSrv: map[*Session]int{},
		hrq: map[*Session][]*sessionManagerHotRestartParams{}, ackq: map[*Session][]hrAckMsg{},
		notified: map[*Session]uint64{}, pickInHot: map[int]bool{}, trafStop: make(chan struct{})}
	w.lcfg = func() *ListenerConfig {
		c := NewDefaultListenerConfig(w.path, "unix")
		c.ShareMemoryBufferCap = 1 << 20
		c.QueueCap = 64
		c.InitializeTimeout = 20 * time.Second
		return c
	}
	var err error
	w.oldL, w.oldLn, err = w.startListener()
	if err != nil {
		return nil, err
	}
	conf := DefaultSessionManagerConfig()
	conf.Address = w.path
	conf.Network = "unix"
	conf.SessionNum = np
	conf.MemMapType = MemMapTypeMemFd
	conf.ShareMemoryBufferCap = 1 << 20
	conf.QueueCap = 64
	conf.MaxStreamNum = 8
	conf.InitializeTimeout = 20 * time.Second
	conf.ShareMemoryPathPrefix = fmt.Sprintf("/dev/shm/vshr_%d_%d", os.Getpid(), id)
	conf.QueuePath = fmt.Sprintf("/dev/shm/vshr_q_%d_%d", os.Getpid(), id)
	conf.rebuildInterval = rebuild
	sm, err := NewSessionManager(conf)
	if err != nil {
		w.oldL.Close()
		return nil, err
	}
	w.sm = sm
	hrReg.Lock()
	hrBySM[sm] = w
	hrReg.Unlock()
	for p := 0; p < np; p++ {
		s := sm.pools[p].Session()
		w.cli[p+1] = s
		w.idCli[s] = p + 1
	}
	for p := 0; p < np; p++ {
		if err := w.bindServer(p+1, 5*time.Second); err != nil {
			w.destroy()
			return nil, err
		}
	}
	return w, nil
}

func (w *hrWorld) startListener() (*Listener, *hrCountLn, error) {
	l, err := NewListener(hrEcho{}, w.lcfg())
	if err != nil {
		return nil, nil, err
	}
	l.SetUnlinkOnClose(false)
	cl := &hrCountLn{Listener: l.ln}
	l.ln = cl
	hrReg.Lock()
	hrByL[l] = w
	hrReg.Unlock()
	go l.Run()
	return l, cl, nil
}

// the server end of client session id: the not yet bound, preferably open session of the same name in a listener
func (w *hrWorld) bindServer(id int, d time.Duration) error {
	w.mu.Lock()
	c := w.cli[id]
	w.mu.Unlock()
	if c == nil {
		return fmt.Errorf("session %d is not registered", id)
	}
	deadline := time.Now().Add(d)
	for {
		var found *Session
		for _, l := range w.listeners() {
			if l == nil {
				continue
			}
			var cands []*Session
			l.sessions.sessionMu.Lock()
			for s := range l.sessions.data {
				if s.name == c.name {
					cands = append(cands, s)
				}
			}
			l.sessions.sessionMu.Unlock()
			w.mu.Lock()
			for _, s := range cands {
				if _, taken := w.idSrv[s]; taken {
					continue
				}
				if found == nil || !s.IsClosed() {
					found = s
				}
			}
			w.mu.Unlock()
		}
		if found != nil {
			w.mu.Lock()
			w.srv[id] = found
			w.idSrv[found] = id
			w.mu.Unlock()
			return nil
		}
		if time.Now().After(deadline) {
			return fmt.Errorf("no server end for session %d (%s)", id, c.name)
		}
		time.Sleep(2 * time.Millisecond)
	}
}

func (w *hrWorld) srvOf(id int) string {
	w.mu.Lock()
	defer w.mu.Unlock()
	return w.srvOfLocked(id)
}

// caller holds w.mu
func (w *hrWorld) srvOfLocked(id int) string {
	s := w.srv[id]
	if s == nil {
		return "?"
	}
	if s.listener == w.oldL {
		return "old"
	}
	if s.listener != nil && s.listener != w.oldL && hrLookupL(s.listener) == w {
		return "new"
	}
	return "?"
}

func (w *hrWorld) destroy() {
	if w.releaseAccept != nil {
		w.releaseAccept()
	}
	select {
	case <-w.trafStop:
	default:
		close(w.trafStop)
	}
	w.trafWg.Wait()
	if w.sm != nil && w.closeDone == nil {
		done := make(chan struct{})
		go func() { w.sm.Close(); close(done) }()
		select {
		case <-done:
		case <-time.After(10 * time.Second):
		}
		w.sm.Lock()
		for _, p := range w.sm.reservePools {
			p.close()
		}
		w.sm.Unlock()
	}
	if w.oldL != nil {
		w.oldL.Close()
	}
	for _, l := range w.prevNew {
		l.Close()
	}
	if w.newL != nil {
		w.newL.Close()
	}
	hrReg.Lock()
	delete(hrBySM, w.sm)
	delete(hrByL, w.oldL)
	delete(hrByL, w.newL)
	for _, l := range w.prevNew {
		delete(hrByL, l)
	}
	hrReg.Unlock()
	os.Remove(w.path)
}

// ---------------------------------------------------------------- projection of the real state

var hrStateName = map[sessionSateType]string{defaultState: "def", hotRestartState: "hot", hotRestartDoneState: "done"}

type hrSnap struct {
	LState  string
	LEpoch  int
	Ack     int
	MState  string
	MEpoch  int
	Cur     []int
	Reserve []int
	Sess    []hrSessX
	S2C     [][]int
	C2S     [][]int
	Unknown []string
}

func (w *hrWorld) snapshot(n int) hrSnap {
	var sn hrSnap
	l := w.oldL
	l.mu.Lock()
	sn.LState = hrStateName[l.state]
	sn.LEpoch = int(l.epoch)
	sn.Ack = l.hotRestartAckCount
	sst := map[*Session]string{}
	l.sessions.sessionMu.Lock()
	for s := range l.sessions.data {
		sst[s] = hrStateName[s.state]
	}
	l.sessions.sessionMu.Unlock()
	l.mu.Unlock()
	sm := w.sm
	sm.RLock()
	sn.MState = hrStateName[sm.state]
	sn.MEpoch = int(sm.epoch)
	w.mu.Lock()
	for p := 0; p < w.np; p++ {
		s := sm.pools[p].Session()
		id, ok := w.idCli[s]
		if !ok {
			id = -1
			sn.Unknown = append(sn.Unknown, fmt.Sprintf("pool %d holds an unregistered session %s", p+1, s.name))
		}
		sn.Cur = append(sn.Cur, id)
		rid := 0
		if rp := sm.reservePools[p]; rp != nil {
			rs := rp.Session()
			if x, ok := w.idCli[rs]; ok {
				rid = x
			} else {
				rid = -1
				sn.Unknown = append(sn.Unknown, fmt.Sprintf("reserve pool %d holds an unregistered session %s", p+1, rs.name))
			}
		}
		sn.Reserve = append(sn.Reserve, rid)
	}
	sm.RUnlock()
	for id := 1; id <= n; id++ {
		c := w.cli[id]
		if c == nil {
			sn.Sess = append(sn.Sess, hrSessX{Srv: "?"})
			sn.S2C = append(sn.S2C, []int{})
			sn.C2S = append(sn.C2S, []int{})
			continue
		}
		x := hrSessX{Epoch: int(c.epochID), Srv: w.srvOfLocked(id), Alive: !c.IsClosed(), Pool: c.sessionID + 1, Sstate: "def"}
		sv := w.srv[id]
		if sv != nil {
			if st, ok := sst[sv]; ok {
				x.Sstate = st
			} else {
				x.Sstate = hrStateName[sv.state]
			}
		}
		sn.Sess = append(sn.Sess, x)
		q := []int{}
		for _, p := range w.hrq[c] {
			q = append(q, int(p.epoch))
		}
		sn.S2C = append(sn.S2C, q)
		a := []int{}
		if sv != nil {
			for _, m := range w.ackq[sv] {
				a = append(a, int(hrEpochOf(m.buf)))
			}
		}
		sn.C2S = append(sn.C2S, a)
	}
	w.mu.Unlock()
	return sn
}

func hrEpochOf(b []byte) uint64 {
	var v uint64
	for i := 0; i < 8 && i < len(b); i++ {
		v = v<<8 | uint64(b[i])
	}
	return v
}

func hrIntsEq(a, b []int) bool {
	if len(a) != len(b) {
		return false
	}
	for i := range a {
		if a[i] != b[i] {
			return false
		}
	}
	return true
}

// diff returns "" when the real state equals the prediction on everything the model and the code share
func (w *hrWorld) diff(x *hrExpect, sn hrSnap) string {
	var d []string
	if x.OldUp {
		if sn.LState != x.LState {
			d = append(d, fmt.Sprintf("listener state %s, model %s", sn.LState, x.LState))
		}
		if sn.LEpoch != x.LEpoch {
			d = append(d, fmt.Sprintf("listener epoch %d, model %d", sn.LEpoch, x.LEpoch))
		}
		if sn.Ack != x.Ack {
			d = append(d, fmt.Sprintf("ack count %d, model %d", sn.Ack, x.Ack))
		}
	}
	if sn.MState != x.MState {
		d = append(d, fmt.Sprintf("manager state %s, model %s", sn.MState, x.MState))
	}
	if sn.MEpoch != x.MEpoch {
		d = append(d, fmt.Sprintf("manager epoch %d, model %d", sn.MEpoch, x.MEpoch))
	}
	if !hrIntsEq(sn.Cur, x.Cur) {
		d = append(d, fmt.Sprintf("pool sessions %v, model %v", sn.Cur, x.Cur))
	}
	if !hrIntsEq(sn.Reserve, x.Reserve) {
		d = append(d, fmt.Sprintf("reserve sessions %v, model %v", sn.Reserve, x.Reserve))
	}
	d = append(d, sn.Unknown...)
	for i, xs := range x.Sess {
		if i >= len(sn.Sess) {
			break
		}
		r := sn.Sess[i]
		if r.Srv == "?" && !xs.Alive {
			continue
		}
		if r.Alive != xs.Alive {
			d = append(d, fmt.Sprintf("session %d alive=%v, model %v", i+1, r.Alive, xs.Alive))
		}
		if r.Epoch != xs.Epoch || r.Pool != xs.Pool {
			d = append(d, fmt.Sprintf("session %d epoch %d pool %d, model epoch %d pool %d", i+1, r.Epoch, r.Pool, xs.Epoch, xs.Pool))
		}
		if r.Srv != xs.Srv && r.Srv != "?" {
			d = append(d, fmt.Sprintf("session %d connected to the %s server, model %s", i+1, r.Srv, xs.Srv))
		}
		if xs.Alive && xs.Srv == "old" && x.OldUp && r.Sstate != xs.Sstate {
			d = append(d, fmt.Sprintf("server session %d state %s, model %s", i+1, r.Sstate, xs.Sstate))
		}
		if xs.Alive {
			if !hrIntsEq(sn.S2C[i], x.S2C[i]) {
				d = append(d, fmt.Sprintf("HR events in flight on session %d: %v, model %v", i+1, sn.S2C[i], x.S2C[i]))
			}
			if xs.Srv == "old" && x.OldUp && !hrIntsEq(sn.C2S[i], x.C2S[i]) {
				d = append(d, fmt.Sprintf("acks in flight on session %d: %v, model %v", i+1, sn.C2S[i], x.C2S[i]))
			}
		}
	}
	return strings.Join(d, "; ")
}

// ---------------------------------------------------------------- round trips

// a panic of the library in the caller's goroutine (GetStream / stream calls) is a finding, not a harness crash
var hrCallPanics []string

func hrRoundTrip(get func() (*Stream, error), put func(*Stream), msg string) (err error, getErr bool) {
	defer func() {
		if r := recover(); r != nil {
			buf := make([]byte, 4096)
			buf = buf[:runtime.Stack(buf, false)]
			where := ""
			for _, ln := range strings.Split(string(buf), "\n") {
				if strings.Contains(ln, "shmipc-go.(") && !strings.Contains(ln, "hrRoundTrip") && !strings.Contains(ln, "hrWorld") {
					where += strings.TrimSpace(ln) + " < "
				}
			}
			hrPanicMu.Lock()
			hrCallPanics = append(hrCallPanics, fmt.Sprintf("%v in %s", r, where))
			hrPanicMu.Unlock()
			err, getErr = fmt.Errorf("panic: %v", r), true
		}
	}()
	st, err := get()
	if err != nil {
		return err, true
	}
	if st == nil {
		return fmt.Errorf("nil stream without error"), true
	}
	_ = st.SetDeadline(time.Now().Add(15 * time.Second))
	if err = st.BufferWriter().WriteString(msg); err != nil {
		st.Close()
		return fmt.Errorf("write: %v", err), false
	}
	if err = st.Flush(false); err != nil {
		st.Close()
		return fmt.Errorf("flush: %v", err), false
	}
	got, err := st.BufferReader().ReadString(len(msg))
	if err != nil {
		st.Close()
		return fmt.Errorf("read: %v", err), false
	}
	if got != msg {
		st.Close()
		return fmt.Errorf("echo mismatch: %q for %q", got, msg), false
	}
	put(st)
	return nil, false
}

// probe pool p (0-based) through SessionManager.GetStream
func (w *hrWorld) probePool(p int, tag string) (error, time.Duration) {
	w.trafMu.Lock()
	defer w.trafMu.Unlock()
	t0 := time.Now()
	err, _ := hrRoundTrip(func() (*Stream, error) {
		atomic.StoreUint64(&w.sm.count, uint64(p*sessionRoundRobinThreshold))
		return w.sm.GetStream()
	}, w.sm.PutBack, fmt.Sprintf("probe-%s-%d", tag, p))
	return err, time.Since(t0)
}

func (w *hrWorld) probeReserve(p int) (error, bool) {
	w.sm.RLock()
	rp := w.sm.reservePools[p]
	w.sm.RUnlock()
	if rp == nil {
		return nil, false
	}
	err, _ := hrRoundTrip(rp.getOrOpenStream, rp.putOrCloseStream, fmt.Sprintf("reserve-%d", p))
	return err, true
}

func (w *hrWorld) startTraffic() {
	w.trafWg.Add(1)
	go func() {
		defer w.trafWg.Done()
		defer w.goroutinePanic("traffic")
		n := 0
		for {
			select {
			case <-w.trafStop:
				return
			default:
			}
			g0 := atomic.LoadInt64(&w.faultGen)
			d0 := atomic.LoadInt32(&w.someDead)
			err, _ := hrRoundTrip(func() (*Stream, error) {
				w.trafMu.Lock()
				defer w.trafMu.Unlock()
				return w.sm.GetStream()
			}, w.sm.PutBack, fmt.Sprintf("traffic-%d", n))
			g1 := atomic.LoadInt64(&w.faultGen)
			d1 := atomic.LoadInt32(&w.someDead)
			atomic.AddInt64(&w.traffic, 1)
			if g0 == g1 && g0%2 == 0 && d0 == 0 && d1 == 0 {
				atomic.AddInt64(&w.trafficMust, 1)
				if err != nil {
					w.mu.Lock()
					if w.trafFail == "" {
						w.trafFail = fmt.Sprintf("round trip %d failed although no session was lost while it ran: %v", n, err)
					}
					w.mu.Unlock()
				}
			}
			n++
			time.Sleep(25 * time.Millisecond)
		}
	}()
}

// a panic in a helper goroutine of the harness must not take the process (and every other scenario's result) down
func (w *hrWorld) goroutinePanic(who string) {
	if r := recover(); r != nil {
		buf := make([]byte, 6000)
		buf = buf[:runtime.Stack(buf, false)]
		hrPanicMu.Lock()
		hrHarnessPanics = append(hrHarnessPanics, fmt.Sprintf("%s goroutine of %s: %v\n%s", who, w.name, r, buf))
		hrPanicMu.Unlock()
	}
}

var hrHarnessPanics []string

// ---------------------------------------------------------------- monitor: oracles that do not depend on the model

// polls the listener and the manager every few ms: (a) the moment the listener reports the hot restart done, every live
// session it had to notify must have acknowledged; (b) the ack counter is never negative; (c) nobody stays in the
// hot-restart state longer than the bound
func (w *hrWorld) startMonitor(known []string) {
	w.monStop = make(chan struct{})
	w.monWg.Add(1)
	go func() {
		defer w.monWg.Done()
		defer w.goroutinePanic("monitor")
		lastL := defaultState
		var lSince, mSince time.Time
		seen := map[string]bool{}
		note := func(kind, detail string) {
			if seen[kind] {
				return
			}
			seen[kind] = true
			w.mu.Lock()
			if atomic.LoadInt32(&w.lateAck) == 1 && hrHas(known, "late-ack") && (kind == "ack-count-negative" || kind == "done-without-acks") {
				w.monKnown = append(w.monKnown, "late-ack: "+detail)
			} else if atomic.LoadInt32(&w.afterClose) == 1 && hrHas(known, "hr-after-close") && kind == "session-after-close" {
				w.monKnown = append(w.monKnown, "hr-after-close: "+detail)
			} else {
				w.monViol = append(w.monViol, [2]string{kind, detail})
			}
			w.mu.Unlock()
		}
		for {
			select {
			case <-w.monStop:
				return
			default:
			}
			l := w.oldL
			l.mu.Lock()
			st, cnt, ep := l.state, l.hotRestartAckCount, l.epoch
			l.mu.Unlock()
			if st == hotRestartDoneState && lastL == hotRestartState {
				w.mu.Lock()
				var missing []int
				for sv, e := range w.notified {
					if !sv.IsClosed() && e == ep {
						missing = append(missing, w.idSrv[sv])
					}
				}
				w.mu.Unlock()
				if len(missing) > 0 {
					sort.Ints(missing)
					note("done-without-acks", fmt.Sprintf("the listener reports the hot restart of epoch %d done while live sessions %v it had to notify have not acknowledged", ep, missing))
				}
			}
			if n := w.sessCount(); w.maxSessions > 0 && n > w.maxSessions {
				note("extra-session", fmt.Sprintf("%d sessions have been established; no behaviour of the model creates more than %d here: sessions are being created that nothing asked for", n, w.maxSessions-2))
				atomic.StoreInt32(&w.abort, 1)
			}
			if atomic.LoadInt32(&w.closeReturned) == 1 {
				if n := int64(w.sessCount()); n > atomic.LoadInt64(&w.countAtClose) {
					note("session-after-close", fmt.Sprintf("SessionManager.Close had returned with %d sessions ever established; now there are %d: the closed manager still creates sessions", atomic.LoadInt64(&w.countAtClose), n))
				}
			}
			if cnt < 0 {
				note("ack-count-negative", fmt.Sprintf("hotRestartAckCount is %d (listener state %s, epoch %d)", cnt, hrStateName[st], ep))
			}
			if st == hotRestartState {
				if lSince.IsZero() {
					lSince = time.Now()
				} else if d := time.Since(lSince); d > hrLeaveLimit {
					note("listener-stuck", fmt.Sprintf("the listener has been in the hot-restart state for %v (bound in the code: 2 s)", d.Round(time.Millisecond)))
				}
			} else if !lSince.IsZero() {
				if d := time.Since(lSince); d > w.monMaxHot {
					w.monMaxHot = d
				}
				lSince = time.Time{}
			}
			lastL = st
			if w.sm != nil {
				if w.mstate() == hotRestartState {
					if mSince.IsZero() {
						mSince = time.Now()
					} else if d := time.Since(mSince); d > hrLeaveLimit {
						note("manager-stuck", fmt.Sprintf("the session manager has been in the hot-restart state for %v (bound in the code: 2 s)", d.Round(time.Millisecond)))
					}
				} else if !mSince.IsZero() {
					if d := time.Since(mSince); d > w.monMaxHot {
						w.monMaxHot = d
					}
					mSince = time.Time{}
					// the manager has just left the hot-restart state. If it kept its reserve pools it declared the hand-over
					// complete (the time-out path drops them): then every pool must have been swapped to the announced epoch
					w.sm.RLock()
					if len(w.sm.reservePools) > 0 && w.sm.state != hotRestartState {
						var bad []string
						for p := 0; p < w.np; p++ {
							if w.sm.reservePools[p] == nil {
								bad = append(bad, fmt.Sprintf("pool %d was never swapped", p+1))
							} else if e := w.sm.pools[p].Session().epochID; e != w.sm.epoch {
								bad = append(bad, fmt.Sprintf("pool %d is on a session of epoch %d", p+1, e))
							}
						}
						if len(bad) > 0 {
							note("completed-not-swapped", fmt.Sprintf("the manager declared the hand-over to epoch %d complete (acknowledgements sent) but %s", w.sm.epoch, strings.Join(bad, ", ")))
						}
					}
					w.sm.RUnlock()
				}
			}
			time.Sleep(4 * time.Millisecond)
		}
	}()
}

// ---------------------------------------------------------------- scenario execution

type hrOutcome struct {
	setupFailed  bool
	harnessPanic string
	conform      bool
	drift        string
	slip         bool
	violations   []hrViolation
	known        []string
	steps        int
	compares     int
	probes       int
	probeOK      int
	probeErr     int
	traffic      int64
	trafMust     int64
	sessions     int
	maxLeave     time.Duration
	maxHeal      time.Duration
	maxErr       time.Duration
}

const (
	hrTimerGap   = 450 * time.Millisecond
	hrLeaveLimit = 12 * time.Second // the code's bound is 2 s (+100 ms tick); x5 and more for a loaded machine
	hrWaitLimit  = 20 * time.Second
)

func (w *hrWorld) waitFor(d time.Duration, f func() bool) bool {
	deadline := time.Now().Add(d)
	for {
		if f() {
			return true
		}
		if time.Now().After(deadline) || atomic.LoadInt32(&w.abort) == 1 {
			return false
		}
		time.Sleep(3 * time.Millisecond)
	}
}

// wait for a hook event (only when the tree has hooks); returns false when hooks are absent
func (w *hrWorld) waitEv(d time.Duration, match func(e hrEv) bool) bool {
	if !hrHooksOn {
		return false
	}
	return w.waitFor(d, func() bool {
		w.mu.Lock()
		defer w.mu.Unlock()
		for i := w.evCur; i < len(w.evs); i++ {
			if match(w.evs[i]) {
				w.evs[i].Ev = "" // consumed
				return true
			}
		}
		return false
	})
}

func (w *hrWorld) lstate() sessionSateType {
	w.oldL.mu.Lock()
	defer w.oldL.mu.Unlock()
	return w.oldL.state
}

func (w *hrWorld) mstate() sessionSateType {
	w.sm.RLock()
	defer w.sm.RUnlock()
	return w.sm.state
}

func (w *hrWorld) gapTimer() {
	if !w.lastTimerStart.IsZero() {
		if d := hrTimerGap - time.Since(w.lastTimerStart); d > 0 {
			time.Sleep(d)
		}
	}
}

func (w *hrWorld) killBegin() { atomic.AddInt64(&w.faultGen, 1) }
func (w *hrWorld) killEnd() {
	atomic.StoreInt32(&w.someDead, 1) // until the next successful comparison says otherwise
	atomic.AddInt64(&w.faultGen, 1)
}

// raw scenarios carry no predictions: give ids to sessions in the order they show up in the pools
func (w *hrWorld) registerAny() {
	if w.holding {
		return // a watcher sits in a held handshake with the manager lock taken
	}
	time.Sleep(5 * time.Millisecond)
	var fresh []*Session
	w.sm.RLock()
	for p := 0; p < w.np; p++ {
		for _, pl := range []*streamPool{w.sm.pools[p], w.sm.reservePools[p]} {
			if pl == nil {
				continue
			}
			s := pl.Session()
			w.mu.Lock()
			_, ok := w.idCli[s]
			w.mu.Unlock()
			if !ok {
				fresh = append(fresh, s)
			}
		}
	}
	w.sm.RUnlock()
	for _, s := range fresh {
		w.mu.Lock()
		id := len(w.cli) + 1
		w.cli[id] = s
		w.idCli[s] = id
		w.mu.Unlock()
		_ = w.bindServer(id, 5*time.Second)
	}
}

// register the session that step st is predicted to create (id = number of sessions before + 1)
func (w *hrWorld) registerNew(prev, x *hrExpect, out *hrOutcome, limit time.Duration) string {
	if x == nil || prev == nil || len(x.Sess) <= len(prev.Sess) {
		return ""
	}
	id := len(x.Sess)
	pool := x.Sess[id-1].Pool - 1
	inReserve := false
	for p, r := range x.Reserve {
		if r == id {
			inReserve = true
			pool = p
		}
	}
	var got *Session
	ok := w.waitFor(limit, func() bool {
		w.sm.RLock()
		defer w.sm.RUnlock()
		var s *Session
		if inReserve {
			if rp := w.sm.reservePools[pool]; rp != nil {
				s = rp.Session()
			}
		} else {
			s = w.sm.pools[pool].Session()
		}
		if s == nil {
			return false
		}
		w.mu.Lock()
		_, known := w.idCli[s]
		w.mu.Unlock()
		if known {
			return false
		}
		got = s
		return true
	})
	if !ok {
		return fmt.Sprintf("the model creates session %d for pool %d here, the code did not within %v", id, pool+1, limit)
	}
	w.mu.Lock()
	w.cli[id] = got
	w.idCli[got] = id
	w.mu.Unlock()
	if err := w.bindServer(id, 5*time.Second); err != nil {
		return err.Error()
	}
	return ""
}

func hrHas(list []string, s string) bool {
	for _, x := range list {
		if x == s {
			return true
		}
	}
	return false
}

// a timer of the code may already have fired although the behaviour has it still running: the machine was too slow to
// realise this behaviour; what is observed then says nothing about the property (the run is repeated)
func (w *hrWorld) slipNow() bool { return w.slipAt(time.Now()) }

// t: when the anomaly was first seen. A 2 s timer of the code cannot have fired earlier than 2 s after its start.
func (w *hrWorld) slipAt(t time.Time) bool {
	for _, x := range []*hrExpect{w.prevX, w.curX} {
		if x == nil {
			continue
		}
		if x.LState == "hot" && !w.lHotSince.IsZero() && t.Sub(w.lHotSince) > 1700*time.Millisecond {
			return true
		}
		if x.MState == "hot" && !w.mHotSince.IsZero() && t.Sub(w.mHotSince) > 1700*time.Millisecond {
			return true
		}
	}
	return false
}

// timing-sensitive observations (probes, traffic): discarded when the run slipped
func (w *hrWorld) violT(sc *hrScenario, out *hrOutcome, kind, detail string) {
	if w.slipNow() {
		out.slip = true
		return
	}
	w.viol(sc, out, kind, detail)
}

func (w *hrWorld) viol(sc *hrScenario, out *hrOutcome, kind, detail string) {
	if atomic.LoadInt32(&w.abort) == 1 && (kind == "listener-stuck" || kind == "manager-stuck" || kind == "close-hangs" || kind == "not-notified") {
		return // the waits were cut short because the run was aborted; the monitor has reported why
	}
	out.violations = append(out.violations, hrViolation{Property: sc.Prop, Kind: kind, Scenario: sc.Name, Detail: detail,
		NP: sc.NP, Observe: sc.Observe, Steps: hrStripSteps(sc.Steps)})
}

func hrStripSteps(steps []hrStep) []hrStep {
	out := make([]hrStep, len(steps))
	for i, s := range steps {
		out[i] = hrStep{A: s.A, I: s.I, E: s.E}
	}
	return out
}

// everyone who has to leave the hot-restart state does so within the bound (C16), measured from the moment it entered
func (w *hrWorld) leaveOracle(sc *hrScenario, out *hrOutcome) {
	if !w.lHotSince.IsZero() {
		ok := w.waitFor(hrLeaveLimit-time.Since(w.lHotSince), func() bool { return w.lstate() != hotRestartState })
		if !ok {
			w.viol(sc, out, "listener-stuck", fmt.Sprintf("the listener is still in the hot-restart state %v after HotRestart (bound in the code: 2 s)", time.Since(w.lHotSince).Round(time.Millisecond)))
		}
	}
	if !w.mHotSince.IsZero() {
		ok := w.waitFor(hrLeaveLimit-time.Since(w.mHotSince), func() bool { return w.mstate() != hotRestartState })
		if !ok {
			w.viol(sc, out, "manager-stuck", fmt.Sprintf("the session manager is still in the hot-restart state %v after the first restart event (bound in the code: 2 s)", time.Since(w.mHotSince).Round(time.Millisecond)))
		}
	}
}

func (w *hrWorld) noteLeave(since *time.Time) {
	if !since.IsZero() {
		if d := time.Since(*since); d > w.maxLeave {
			w.maxLeave = d
		}
		*since = time.Time{}
	}
}

// probes after a settled step: every pool whose session the model has alive must serve a round trip through GetStream;
// a pool whose session is dead must fail with an error, not hang; reserve (old) sessions that are alive must still serve
func (w *hrWorld) probeAll(sc *hrScenario, x *hrExpect, out *hrOutcome, at string) {
	for p := 0; p < w.np; p++ {
		alive := true
		resAlive := false
		if x != nil {
			alive = x.Sess[x.Cur[p]-1].Alive && x.Closed == "no"
			if x.Reserve[p] > 0 {
				resAlive = x.Sess[x.Reserve[p]-1].Alive
			}
		}
		err, dur := w.probePool(p, at)
		out.probes++
		if alive {
			if err != nil {
				w.violT(sc, out, "getstream-failed", fmt.Sprintf("%s: pool %d should be served by a live session but a round trip through GetStream failed: %v", at, p+1, err))
			} else {
				out.probeOK++
			}
		} else if x != nil {
			if err == nil {
				// the code is ahead of the model (already healed): not a property violation
				out.probeOK++
			} else {
				out.probeErr++
				if dur > w.maxErr {
					w.maxErr = dur
				}
				if dur > 10*time.Second {
					w.viol(sc, out, "getstream-hang", fmt.Sprintf("%s: pool %d has no live session; the call took %v instead of failing promptly (%v)", at, p+1, dur, err))
				}
			}
		}
		if resAlive {
			rerr, had := w.probeReserve(p)
			if had {
				out.probes++
				if rerr != nil {
					w.violT(sc, out, "old-session-unusable", fmt.Sprintf("%s: the old session of pool %d should stay usable until the old server lets go, round trip failed: %v", at, p+1, rerr))
				} else {
					out.probeOK++
				}
			}
		}
	}
}

// C17 (a pool swapped by a hot restart is not rebuilt a second time; nothing is created that nobody uses): every open
// session on a server must be the peer of an open session that the manager refers to (pool or reserve pool)
func (w *hrWorld) orphanOracle() string {
	var srvOpen, cliOpen int
	ok := w.waitFor(4*time.Second, func() bool {
		srvOpen, cliOpen = 0, 0
		for _, l := range w.listeners() {
			if l == nil {
				continue
			}
			l.sessions.sessionMu.Lock()
			for s := range l.sessions.data {
				if !s.IsClosed() {
					srvOpen++
				}
			}
			l.sessions.sessionMu.Unlock()
		}
		seen := map[*Session]bool{}
		w.sm.RLock()
		for p := 0; p < w.np; p++ {
			for _, pl := range []*streamPool{w.sm.pools[p], w.sm.reservePools[p]} {
				if pl == nil {
					continue
				}
				if s := pl.Session(); s != nil && !s.IsClosed() && !seen[s] {
					seen[s] = true
					cliOpen++
				}
			}
		}
		w.sm.RUnlock()
		return srvOpen <= cliOpen
	})
	if ok {
		return ""
	}
	return fmt.Sprintf("%d sessions are open on the server side but the session manager refers to only %d open sessions: a session was established that no pool uses (and nothing will ever close)", srvOpen, cliOpen)
}

// C17 (closing the manager stops all of this): once SessionManager.Close has returned no session of a pool is open, and no
// session is open on a server except the peers of the reserve (pre-restart) sessions, which Close leaves to the old server
func (w *hrWorld) afterCloseOracle() string {
	var open []string
	var srvOpen, resOpen int
	ok := w.waitFor(4*time.Second, func() bool {
		open = open[:0]
		srvOpen, resOpen = 0, 0
		w.sm.RLock()
		for p := 0; p < w.np; p++ {
			if s := w.sm.pools[p].Session(); s != nil && !s.IsClosed() {
				open = append(open, fmt.Sprintf("pool %d: %s (epoch %d)", p+1, s.name, s.epochID))
			}
			if rp := w.sm.reservePools[p]; rp != nil {
				if s := rp.Session(); s != nil && !s.IsClosed() {
					resOpen++
				}
			}
		}
		w.sm.RUnlock()
		for _, l := range w.listeners() {
			if l == nil {
				continue
			}
			l.sessions.sessionMu.Lock()
			for s := range l.sessions.data {
				if !s.IsClosed() {
					srvOpen++
				}
			}
			l.sessions.sessionMu.Unlock()
		}
		return len(open) == 0 && srvOpen <= resOpen
	})
	if ok {
		return ""
	}
	return fmt.Sprintf("SessionManager.Close has returned but sessions of the manager are still open 4 s later: client side %v; %d open on the server side against %d open reserve sessions", open, srvOpen, resOpen)
}

// every listener this world has started (the old one, the current new one, earlier new ones that have been closed)
func (w *hrWorld) listeners() []*Listener {
	out := []*Listener{w.oldL}
	out = append(out, w.prevNew...)
	if w.newL != nil {
		out = append(out, w.newL)
	}
	return out
}

// a server is accepting on the listen path
func (w *hrWorld) reachable() bool {
	if w.newL != nil {
		return !w.newGone
	}
	return !w.oldClosed
}

func (w *hrWorld) sessCount() int {
	n := int(atomic.LoadInt64(&w.oldLn.n))
	if w.newLn != nil {
		n += int(atomic.LoadInt64(&w.newLn.n))
	}
	n += int(atomic.LoadInt64(&w.prevNewCount))
	return n
}

func hrLabel(s hrStep) string {
	switch s.A {
	case "LHotRestart":
		return fmt.Sprintf("%s(%d)", s.A, s.E)
	case "InjectHR", "InjectAck":
		return fmt.Sprintf("%s(%d,%d)", s.A, s.I, s.E)
	case "LAck", "MOnHR", "SessDies", "WPick", "WLost", "WRebuild", "WRetry", "WExit":
		return fmt.Sprintf("%s(%d)", s.A, s.I)
	}
	return s.A
}

func hrRunScenario(sc *hrScenario, job *hrJob) (out hrOutcome) {
	rebuild := time.Duration(job.RebuildMs) * time.Millisecond
	w, err := hrNewWorld(sc.Name, sc.NP, rebuild, true)
	if err != nil {
		out.drift = "cannot set up: " + err.Error()
		out.setupFailed = true
		return
	}
	defer func() {
		out.traffic = atomic.LoadInt64(&w.traffic)
		out.trafMust = atomic.LoadInt64(&w.trafficMust)
		out.sessions = w.sessCount()
		out.maxLeave, out.maxHeal, out.maxErr = w.monMaxHot, w.maxHeal, w.maxErr
		w.destroy()
	}()
	defer func() {
		if r := recover(); r != nil {
			w.viol(sc, &out, "panic", fmt.Sprintf("panic while replaying: %v", r))
		}
	}()
	w.maxSessions = sc.NP + len(sc.Steps) + 3
	if !sc.Raw {
		w.maxSessions = sc.NP + 2
		for _, q := range sc.Steps {
			if q.X != nil && len(q.X.Sess)+2 > w.maxSessions {
				w.maxSessions = len(q.X.Sess) + 2
			}
		}
	}
	w.startTraffic()
	w.startMonitor(job.Known)
	defer func() {
		close(w.monStop)
		w.monWg.Wait()
	}()
	initX := sc.Init
	if initX == nil {
		initX = &hrExpect{Sess: make([]hrSessX, sc.NP)}
	}
	prev := initX
	w.raw = sc.Raw
	w.prevX = nil
	firstSeen := time.Time{}
	drifted := func(at int, msg string) {
		if out.drift == "" {
			if firstSeen.IsZero() {
				firstSeen = time.Now()
			}
			var ls []string
			for _, q := range sc.Steps {
				ls = append(ls, hrLabel(q))
			}
			out.drift = fmt.Sprintf("%s step %d %s: %s [%s]", sc.Name, at, hrLabel(sc.Steps[at]), msg, strings.Join(ls, " "))
			if w.slipAt(firstSeen) {
				out.slip = true
			}
			firstSeen = time.Time{}
		}
	}
	lateAckClass := false
	oracleOnly := false // the code has left the predicted states: the rest of the behaviour is used as a schedule only
	runSteps := func() {
		for si := range sc.Steps {
			st := sc.Steps[si]
			x := st.X
			if oracleOnly {
				x = nil
			}
			rawMode := sc.Raw || oracleOnly
			if atomic.LoadInt32(&w.abort) == 1 {
				return
			}
			out.steps++
			w.prevX, w.curX = nil, nil
			if !rawMode {
				w.prevX = prev
				w.curX = x
			}
			switch st.A {
			case "NewServerStarts":
				l, cl, err := w.startListener()
				if err != nil {
					drifted(si, "cannot start the new listener: "+err.Error())
					return
				}
				if w.newL != nil {
					w.prevNew = append(w.prevNew, w.newL)
					atomic.AddInt64(&w.prevNewCount, atomic.LoadInt64(&w.newLn.n))
				}
				w.newL, w.newLn = l, cl
				w.newGone = false
			case "NewServerExits":
				// the new server stops accepting; the socket file stays (SetUnlinkOnClose(false)): connects are refused
				w.killBegin()
				w.newGone = true
				if w.newL != nil {
					w.newL.Close()
					for id, c := range w.cli {
						if w.srvOf(id) == "new" {
							cc := c
							w.waitFor(hrWaitLimit, func() bool { return cc.IsClosed() })
						}
					}
				}
				w.killEnd()
			case "WRetry":
				// at least one reconnect attempt of this loss fails
				p := st.I - 1
				if !w.waitEv(hrWaitLimit, func(e hrEv) bool { return e.Ev == "WFail" && int(e.A) == p }) {
					time.Sleep(2*rebuild + 60*time.Millisecond)
				}
			case "OldServerExits":
				w.killBegin()
				w.oldClosed = true
				w.oldL.Close()
				for id, c := range w.cli {
					if w.srvOf(id) == "old" {
						cc := c
						w.waitFor(hrWaitLimit, func() bool { return cc.IsClosed() })
					}
				}
				w.killEnd()
			case "SessDies":
				w.killBegin()
				if s := w.srv[st.I]; s != nil {
					s.Close()
				}
				if c := w.cli[st.I]; c != nil {
					w.waitFor(hrWaitLimit, func() bool { return c.IsClosed() })
				}
				w.killEnd()
			case "LHotRestart":
				w.gapTimer()
				// every open session of the old server that is in the default state has to be told (C16: moves EVERY session)
				var must []*Session
				w.oldL.mu.Lock()
				w.oldL.sessions.sessionMu.Lock()
				for s := range w.oldL.sessions.data {
					if s.state == defaultState && !s.IsClosed() {
						must = append(must, s)
					}
				}
				w.oldL.sessions.sessionMu.Unlock()
				w.oldL.mu.Unlock()
				w.mu.Lock()
				w.notified = map[*Session]uint64{}
				for _, s := range must {
					w.notified[s] = uint64(st.E)
				}
				w.mu.Unlock()
				w.lHotSince = time.Now()
				err := w.oldL.HotRestart(uint64(st.E))
				w.lastTimerStart = time.Now()
				if err != nil {
					drifted(si, "HotRestart returned "+err.Error())
					return
				}
				// every live session of the old server that is in the default state must be told (C16: moves EVERY session)
				if x != nil && prev != nil {
					for i, ps := range prev.Sess {
						if i < len(prev.S2C) && ps.Alive && ps.Srv == "old" && ps.Sstate == "def" {
							c := w.cli[i+1]
							want := len(x.S2C[i])
							ok := w.waitFor(hrWaitLimit, func() bool {
								w.mu.Lock()
								defer w.mu.Unlock()
								return len(w.hrq[c]) >= want
							})
							if !ok {
								w.viol(sc, &out, "not-notified", fmt.Sprintf("HotRestart(%d): live session %d of the old server (default state) was not sent the restart event within %v", st.E, i+1, hrWaitLimit))
								return
							}
						}
					}
				}
			case "InjectHR":
				c := w.cli[st.I]
				w.mu.Lock()
				n0 := len(w.hrq[c])
				w.mu.Unlock()
				if s := w.srv[st.I]; s != nil {
					_ = s.hotRestart(uint64(st.E), typeHotRestart)
				}
				w.waitFor(hrWaitLimit, func() bool { w.mu.Lock(); defer w.mu.Unlock(); return len(w.hrq[c]) > n0 })
			case "InjectAck":
				sv := w.srv[st.I]
				w.mu.Lock()
				n0 := len(w.ackq[sv])
				w.mu.Unlock()
				if c := w.cli[st.I]; c != nil {
					_ = c.hotRestart(uint64(st.E), typeHotRestartAck)
				}
				w.waitFor(hrWaitLimit, func() bool { w.mu.Lock(); defer w.mu.Unlock(); return len(w.ackq[sv]) > n0 })
			case "MOnHR":
				c := w.cli[st.I]
				var p *sessionManagerHotRestartParams
				ok := w.waitFor(hrWaitLimit, func() bool {
					w.mu.Lock()
					defer w.mu.Unlock()
					if len(w.hrq[c]) == 0 {
						return false
					}
					p = w.hrq[c][0]
					return true
				})
				if !ok {
					drifted(si, "no restart event is waiting on this session")
					return
				}
				starting := w.mstate() != hotRestartState
				if starting {
					w.gapTimer()
				}
				w.sm.RLock()
				foreign := w.sm.state == hotRestartState && w.sm.epoch != p.epoch
				w.sm.RUnlock()
				var before hrSnap
				if foreign {
					before = w.snapshot(len(prev.Sess))
				} else {
					// classifiers of two findings: the handler looks neither at whether the manager has been closed nor at
					// whether the session the event was received on is still open
					hit := false
					if w.closeDone != nil {
						atomic.StoreInt32(&w.afterClose, 1)
						if hrHas(job.Known, "hr-after-close") && !sc.Raw {
							out.known = append(out.known, "hr-after-close")
							hit = true
						}
					}
					w.sm.RLock()
					again := starting && w.sm.epoch == p.epoch && p.epoch != 0
					w.sm.RUnlock()
					if again {
						// the manager has already run a round for this epoch and starts another one
						atomic.StoreInt32(&w.sameEpoch, 1)
						if hrHas(job.Known, "same-epoch-round") && !sc.Raw {
							out.known = append(out.known, "same-epoch-round")
							hit = true
						}
					}
					if c.IsClosed() {
						atomic.StoreInt32(&w.onClosed, 1)
						if hrHas(job.Known, "hr-on-closed-session") && !sc.Raw {
							out.known = append(out.known, "hr-on-closed-session")
							hit = true
						}
					}
					if hit {
						return
					}
				}
				w.mu.Lock()
				w.hrq[c] = w.hrq[c][1:]
				w.mu.Unlock()
				if starting {
					w.killBegin() // the first event closes the reserve pools of the previous restart
					// the code starts its 2 s timer inside the handler, before it connects: take the earlier instant
					w.mHotSince = time.Now()
				}
				hrOrigSM(w.sm, p) // the real handleSessionManagerHotRestart with the received parameters
				if starting {
					w.killEnd()
					w.lastTimerStart = time.Now()
				}
				if foreign {
					after := w.snapshot(len(prev.Sess))
					before.S2C, after.S2C, before.C2S, after.C2S = nil, nil, nil, nil // the event itself has been consumed
					b1, _ := json.Marshal(before)
					b2, _ := json.Marshal(after)
					if string(b1) != string(b2) || w.sessCount() != len(prev.Sess) && !sc.Raw {
						w.viol(sc, &out, "foreign-epoch-effect", fmt.Sprintf("a restart event of epoch %d received while the manager handles epoch %d changed the state: before %s after %s", p.epoch, before.MEpoch, b1, b2))
					}
				}
			case "LAck":
				sv := w.srv[st.I]
				var m hrAckMsg
				ok := w.waitFor(hrWaitLimit, func() bool {
					w.mu.Lock()
					defer w.mu.Unlock()
					if len(w.ackq[sv]) == 0 {
						return false
					}
					m = w.ackq[sv][0]
					return true
				})
				if !ok {
					drifted(si, "no acknowledgement is waiting on this session")
					return
				}
				ep := hrEpochOf(m.buf)
				w.oldL.mu.Lock()
				lst, lep, cnt0 := w.oldL.state, w.oldL.epoch, w.oldL.hotRestartAckCount
				w.oldL.mu.Unlock()
				sst0 := sv.state
				if ep == lep && lst != hotRestartState {
					// classifier of the finding "late-ack": an acknowledgement of the listener's current epoch is handled while
					// the listener is not in the hot-restart state
					lateAckClass = true
					atomic.StoreInt32(&w.lateAck, 1)
					if hrHas(job.Known, "late-ack") && !sc.Raw {
						out.known = append(out.known, "late-ack")
						return
					}
				}
				w.mu.Lock()
				w.ackq[sv] = w.ackq[sv][1:]
				if w.notified[sv] == ep {
					delete(w.notified, sv)
				}
				w.mu.Unlock()
				_, _, _ = hrOrigAck(sv, m.hdr, m.buf) // the real handleHotRestartAck
				w.oldL.mu.Lock()
				lst1, lep1, cnt1 := w.oldL.state, w.oldL.epoch, w.oldL.hotRestartAckCount
				w.oldL.mu.Unlock()
				if ep != lep && (lst1 != lst || lep1 != lep || cnt1 != cnt0 || sv.state != sst0) {
					w.viol(sc, &out, "foreign-epoch-effect", fmt.Sprintf("an acknowledgement of epoch %d while the listener announces %d changed the listener: count %d -> %d, session state %s -> %s", ep, lep, cnt0, cnt1, hrStateName[sst0], hrStateName[sv.state]))
				}
				if cnt1 < 0 {
					detail := fmt.Sprintf("acknowledgement of epoch %d handled with the listener in state %s: hotRestartAckCount is %d, session marked %s", ep, hrStateName[lst], cnt1, hrStateName[sv.state])
					if lateAckClass && hrHas(job.Known, "late-ack") {
						out.known = append(out.known, "late-ack: "+detail)
					} else {
						w.viol(sc, &out, "ack-count-negative", detail)
					}
				}
			case "LCheckTick":
				if !w.waitFor(hrLeaveLimit, func() bool { return w.lstate() == hotRestartDoneState }) {
					if w.lstate() == hotRestartState {
						w.viol(sc, &out, "listener-stuck", "every notified session has acknowledged but the listener did not report the hot restart done")
					} else {
						drifted(si, "the listener did not reach the done state")
					}
					return
				}
				w.noteLeave(&w.lHotSince)
				// done must mean: every notified live session has acknowledged
				w.mu.Lock()
				var missing []int
				for sv := range w.notified {
					if !sv.IsClosed() {
						missing = append(missing, w.idSrv[sv])
					}
				}
				w.mu.Unlock()
				if len(missing) > 0 {
					sort.Ints(missing)
					detail := fmt.Sprintf("the listener reports the hot restart done while notified sessions %v have not acknowledged", missing)
					if lateAckClass && hrHas(job.Known, "late-ack") {
						out.known = append(out.known, "late-ack: "+detail)
					} else {
						w.viol(sc, &out, "done-without-acks", detail)
					}
				}
			case "LTimeout":
				if !w.waitFor(hrLeaveLimit, func() bool { return w.lstate() != hotRestartState }) {
					w.viol(sc, &out, "listener-stuck", fmt.Sprintf("the listener is still in the hot-restart state %v after HotRestart", time.Since(w.lHotSince).Round(time.Millisecond)))
					return
				}
				w.noteLeave(&w.lHotSince)
			case "MCheckDone":
				if !w.waitFor(hrLeaveLimit, func() bool { return w.mstate() != hotRestartState }) {
					w.viol(sc, &out, "manager-stuck", "every pool has been swapped but the manager did not leave the hot-restart state")
					return
				}
				w.noteLeave(&w.mHotSince)
				w.hotEnd = time.Now()
				// completion: every pool is on a fresh live session of the announced epoch
				w.sm.RLock()
				ep := w.sm.epoch
				var bad []string
				for p := 0; p < w.np; p++ {
					s := w.sm.pools[p].Session()
					rp := w.sm.reservePools[p]
					if s.epochID != ep {
						bad = append(bad, fmt.Sprintf("pool %d is on a session of epoch %d", p+1, s.epochID))
					}
					if rp != nil && rp.Session() == s {
						bad = append(bad, fmt.Sprintf("pool %d still uses its old session", p+1))
					}
				}
				w.sm.RUnlock()
				if len(bad) > 0 {
					w.viol(sc, &out, "completed-not-swapped", fmt.Sprintf("the manager completed the hand-over to epoch %d but %s", ep, strings.Join(bad, ", ")))
				}
				// acknowledgements are sent on the old sessions
				if x != nil {
					for i, xs := range x.Sess {
						if xs.Alive && len(x.C2S[i]) > 0 {
							sv := w.srv[i+1]
							want := len(x.C2S[i])
							w.waitFor(hrWaitLimit, func() bool { w.mu.Lock(); defer w.mu.Unlock(); return len(w.ackq[sv]) >= want })
						}
					}
				}
			case "MTimeout":
				w.killBegin()
				ok := w.waitFor(hrLeaveLimit, func() bool { return w.mstate() != hotRestartState })
				w.killEnd()
				if !ok {
					w.viol(sc, &out, "manager-stuck", fmt.Sprintf("the session manager is still in the hot-restart state %v after the first restart event", time.Since(w.mHotSince).Round(time.Millisecond)))
					return
				}
				w.noteLeave(&w.mHotSince)
				w.hotEnd = time.Now()
			case "WLost":
				p := st.I - 1
				if !w.waitEv(hrWaitLimit, func(e hrEv) bool { return e.Ev == "WLost" && int(e.A) == p }) {
					time.Sleep(40 * time.Millisecond)
				}
				if x != nil && x.MState == "hot" {
					w.pickInHot[p] = true
				}
			case "WPick":
				p := st.I - 1
				if !w.waitEv(hrWaitLimit, func(e hrEv) bool { return e.Ev == "WPick" && int(e.A) == p }) {
					if w.pickInHot[p] {
						if d := 650*time.Millisecond - time.Since(w.hotEnd); d > 0 {
							time.Sleep(d)
						}
					} else {
						time.Sleep(25 * time.Millisecond)
					}
				}
				w.pickInHot[p] = false
			case "WRebuild":
				p := st.I - 1
				creates := x != nil && prev != nil && len(x.Sess) > len(prev.Sess)
				if !creates {
					if !w.waitEv(hrWaitLimit, func(e hrEv) bool { return e.Ev == "WSkip" && int(e.A) == p }) {
						time.Sleep(rebuild + 60*time.Millisecond)
					}
				}
			case "WExit":
			case "Sleep":
				time.Sleep(time.Duration(st.I) * time.Millisecond)
			case "MOnHRAsync":
				// the real handler is started and left running (it will sit in a held handshake with the manager lock taken)
				c := w.cli[st.I]
				var p *sessionManagerHotRestartParams
				ok := w.waitFor(hrWaitLimit, func() bool {
					w.mu.Lock()
					defer w.mu.Unlock()
					if len(w.hrq[c]) == 0 {
						return false
					}
					p = w.hrq[c][0]
					w.hrq[c] = w.hrq[c][1:]
					return true
				})
				if !ok {
					drifted(si, "no restart event is waiting on this session")
					return
				}
				w.handlerDone = make(chan struct{})
				w.mHotSince = time.Now()
				go func() {
					defer close(w.handlerDone)
					defer w.goroutinePanic("handler")
					hrOrigSM(w.sm, p)
				}()
			case "WaitHandler":
				select {
				case <-w.handlerDone:
				case <-time.After(hrWaitLimit):
					drifted(si, "the restart-event handler did not return")
					return
				}
			case "HoldAccept":
				// the server that owns the path accepts the next connection but does not answer its handshake until released
				ln := w.oldLn
				if w.newLn != nil {
					ln = w.newLn
				}
				w.heldCh, w.releaseAccept = ln.arm()
				w.holding = true
			case "WaitHeld":
				select {
				case <-w.heldCh:
				case <-time.After(hrWaitLimit):
					drifted(si, "no connection arrived at the server that holds its accept")
					return
				}
			case "ReleaseAccept":
				if w.releaseAccept != nil {
					w.releaseAccept()
				}
				w.holding = false
			case "SMClose":
				w.killBegin()
				w.closeDone = make(chan struct{})
				go func() { w.sm.Close(); close(w.closeDone) }()
			case "SMCloseFin":
				select {
				case <-w.closeDone:
					atomic.StoreInt64(&w.countAtClose, int64(w.sessCount()))
					atomic.StoreInt32(&w.closeReturned, 1)
				case <-time.After(hrLeaveLimit):
					w.viol(sc, &out, "close-hangs", fmt.Sprintf("SessionManager.Close did not return within %v", hrLeaveLimit))
					return
				}
				w.killEnd()
			default:
				drifted(si, "unknown action")
				return
			}
			if rawMode {
				w.registerAny()
				continue
			}
			regLimit := hrWaitLimit
			firstSeen = time.Now().Add(time.Second)
			if st.A == "MOnHR" {
				// the real handler has returned: the session it creates is there now or never
				regLimit = 50 * time.Millisecond
				firstSeen = time.Now()
			}
			if msg := w.registerNew(prev, x, &out, regLimit); msg != "" {
				drifted(si, msg)
				if out.slip {
					return
				}
				oracleOnly = true
				w.registerAny()
				continue
			}
			firstSeen = time.Time{}
			// compare at settled points: the next step is one the harness drives (or the behaviour ends)
			if x != nil && x.Quiet {
				var d string
				firstSeen = time.Time{}
				ok := w.waitFor(1500*time.Millisecond, func() bool {
					d = w.diff(x, w.snapshot(len(x.Sess)))
					if d != "" && firstSeen.IsZero() {
						firstSeen = time.Now()
					}
					return d == ""
				})
				out.compares++
				if !ok {
					drifted(si, d)
					if out.slip {
						return
					}
					oracleOnly = true
					continue
				}
				dead := int32(0)
				for p := 0; p < w.np; p++ {
					if !x.Sess[x.Cur[p]-1].Alive || x.Closed != "no" {
						dead = 1
					}
				}
				atomic.StoreInt32(&w.someDead, dead)
				if n := w.sessCount(); n != len(x.Sess) {
					detail := fmt.Sprintf("%d sessions have been established, the model has %d: a session was created that no step of the model creates", n, len(x.Sess))
					if sc.Prop == "C17" {
						w.viol(sc, &out, "extra-session", detail)
					} else {
						drifted(si, detail)
					}
					return
				}
				w.probeAll(sc, x, &out, fmt.Sprintf("after step %d %s", si, hrLabel(st)))
				if len(out.violations) > 0 {
					return
				}
			}
			prev = x
		}
	}
	runSteps()
	// ---- end of the behaviour
	w.leaveOracle(sc, &out)
	if out.slip && len(out.violations) == 0 {
		return
	}
	// C17: with a server reachable and the manager open every pool serves again after a few rebuild intervals
	if w.closeDone == nil && w.reachable() && atomic.LoadInt32(&w.abort) == 0 {
		hrObserveHeal(w, sc, job, &out)
	}
	if atomic.LoadInt32(&w.abort) == 0 {
		if detail := w.orphanOracle(); detail != "" {
			if atomic.LoadInt32(&w.onClosed) == 1 && hrHas(job.Known, "hr-on-closed-session") {
				out.known = append(out.known, "hr-on-closed-session: "+detail)
			} else if atomic.LoadInt32(&w.sameEpoch) == 1 && hrHas(job.Known, "same-epoch-round") {
				out.known = append(out.known, "same-epoch-round: "+detail)
			} else {
				w.viol(sc, &out, "orphan-session", detail)
			}
		}
	}
	if atomic.LoadInt32(&w.closeReturned) == 1 && atomic.LoadInt32(&w.abort) == 0 {
		if detail := w.afterCloseOracle(); detail != "" {
			if atomic.LoadInt32(&w.afterClose) == 1 && hrHas(job.Known, "hr-after-close") {
				out.known = append(out.known, "hr-after-close: "+detail)
			} else {
				w.viol(sc, &out, "alive-after-close", detail)
			}
		}
	}
	w.mu.Lock()
	for _, mv := range w.monViol {
		out.violations = append(out.violations, hrViolation{Property: sc.Prop, Kind: mv[0], Scenario: sc.Name, Detail: mv[1],
			NP: sc.NP, Observe: sc.Observe, Steps: hrStripSteps(sc.Steps)})
	}
	out.known = append(out.known, w.monKnown...)
	w.mu.Unlock()
	terminal := prev != nil && prev.Quiet && prev.LState != "hot" && prev.MState != "hot"
	if terminal {
		for p := 0; p < w.np; p++ {
			if !prev.Sess[prev.Cur[p]-1].Alive {
				terminal = false // a watcher will act once the time comes
			}
		}
	}
	if !sc.Raw && !oracleOnly && out.drift == "" && prev != initX && terminal {
		// nothing more may be created: wait a few rebuild intervals and count the sessions again (C17: not rebuilt twice,
		// Close stops everything)
		time.Sleep(3*rebuild + 30*time.Millisecond)
		if n := w.sessCount(); n != len(prev.Sess) && out.drift == "" {
			detail := fmt.Sprintf("%d sessions have been established %v after the last step, the model has %d", n, 3*rebuild, len(prev.Sess))
			if sc.Prop == "C17" {
				w.viol(sc, &out, "extra-session", detail)
			} else {
				var ls []string
				for _, q := range sc.Steps {
					ls = append(ls, hrLabel(q))
				}
				out.drift = sc.Name + " end: " + detail + " [" + strings.Join(ls, " ") + "]"
			}
		}
	}
	w.mu.Lock()
	tf := w.trafFail
	w.mu.Unlock()
	if tf != "" && len(out.violations) == 0 && !out.slip {
		w.viol(sc, &out, "traffic-failed", tf)
	}
	out.conform = out.drift == "" && len(out.violations) == 0 && !sc.Raw
	return
}

// heal oracle (C17): with a server reachable, every pool must serve round trips again within `Observe` rebuild intervals
func hrObserveHeal(w *hrWorld, sc *hrScenario, job *hrJob, out *hrOutcome) {
	rebuild := time.Duration(job.RebuildMs) * time.Millisecond
	t0 := time.Now()
	nobs := sc.Observe
	if nobs < 10 {
		nobs = 10
	}
	limit := time.Duration(nobs)*rebuild + 8*time.Second
	if sc.Observe > 0 {
		limit = time.Duration(nobs)*rebuild + 2*time.Second
	}
	fails := make([]int, w.np)
	healed := make([]bool, w.np)
	tries := 0
	for time.Since(t0) < limit {
		all := true
		tries++
		for p := 0; p < w.np; p++ {
			if healed[p] {
				continue
			}
			err, _ := w.probePool(p, "heal")
			out.probes++
			if err == nil {
				healed[p] = true
				out.probeOK++
				if d := time.Since(t0); d > w.maxHeal {
					w.maxHeal = d
				}
			} else {
				fails[p]++
				out.probeErr++
				all = false
			}
		}
		if all {
			return
		}
		time.Sleep(rebuild / 2)
	}
	for p := 0; p < w.np; p++ {
		if !healed[p] {
			detail := fmt.Sprintf("pool %d: %d of %d round trips failed over %v (more than %d rebuild intervals of %v) with a server reachable; the pool's session is dead and is not replaced", p+1, fails[p], tries, time.Since(t0).Round(time.Millisecond), nobs, rebuild)
			stale := false
			w.sm.RLock()
			cur := w.sm.pools[p].Session()
			w.sm.RUnlock()
			// classifier of the finding "stale-watch": the pool was swapped by a hot restart, its new session is closed, and the
			// pre-restart session (the one the watcher still waits on) is open
			if cur.IsClosed() && cur.epochID != 0 {
				for _, c := range w.cli {
					if c.sessionID == p && c != cur && !c.IsClosed() {
						stale = true
					}
				}
			}
			if stale && hrHas(job.Known, "stale-watch") {
				out.known = append(out.known, "stale-watch: "+detail)
			} else {
				w.viol(sc, out, "not-healed", detail)
			}
		}
	}
}

// ---------------------------------------------------------------- free-running executions (trace validation, B3)

type hrOp struct {
	Op string `json:"op"` // new | hr | waitdone | exit | kill | waitheal | close | sleep
	A  int    `json:"a"`  // epoch / pool / milliseconds
}

type hrFree struct {
	Name string `json:"name"`
	NP   int    `json:"np"`
	Ops  []hrOp `json:"ops"`
}

// ---------------------------------------------------------------- entry point

func TestVS_HotRestart(t *testing.T) {
	in := os.Getenv("VS_IN_JOB")
	if in == "" {
		t.Skip("VS_IN_JOB not set")
	}
	raw, err := os.ReadFile(in)
	if err != nil {
		t.Fatal(err)
	}
	var job hrJob
	if err := json.Unmarshal(raw, &job); err != nil {
		t.Fatal(err)
	}
	if job.Parallel <= 0 {
		job.Parallel = 8
	}
	if job.RebuildMs <= 0 {
		job.RebuildMs = 60
	}
	hrInstall()
	res := hrResult{Drift: []string{}, Violations: []hrViolation{}, KnownHits: []string{}, Samples: []string{}, FreeNotes: []string{}, Hooks: hrHooksOn, Per: []hrPer{}, HarnessPanics: []string{}, CallPanics: []string{}}
	var mu sync.Mutex
	// the result file is rewritten after every scenario: if the process dies (a fatal error of the runtime cannot be
	// recovered) the scenarios finished so far are not lost and the runner repeats only the others
	writeOut := func() {
		b, err := json.Marshal(res)
		if err != nil {
			return
		}
		tmp := os.Getenv("VS_OUT") + ".tmp"
		if os.WriteFile(tmp, b, 0o644) == nil {
			_ = os.Rename(tmp, os.Getenv("VS_OUT"))
		}
	}
	sem := make(chan struct{}, job.Parallel)
	var wg sync.WaitGroup
	for i := range job.Scenarios {
		sc := &job.Scenarios[i]
		wg.Add(1)
		sem <- struct{}{}
		go func() {
			defer wg.Done()
			defer func() { <-sem }()
			var out hrOutcome
			for attempt := 0; attempt < 4; attempt++ {
				out = hrRunScenarioSafe(sc, &job)
				again := out.slip && len(out.violations) == 0
				if out.setupFailed || out.harnessPanic != "" {
					again = true // nothing was learnt about the code: run it again
				}
				if !again || attempt == 3 {
					break
				}
				mu.Lock()
				res.Retries++
				mu.Unlock()
				time.Sleep(50 * time.Millisecond)
			}
			mu.Lock()
			defer mu.Unlock()
			defer writeOut()
			// self-test of the runner's crash tolerance: die once, after the third finished scenario
			if marker := os.Getenv("VS_HR_CRASH_ONCE"); marker != "" && res.Replayed == 3 {
				if _, err := os.Stat(marker); err != nil {
					_ = os.WriteFile(marker, []byte("x"), 0o644)
					writeOut()
					fmt.Println("fatal error: simulated crash of the harness process (VS_HR_CRASH_ONCE)")
					os.Exit(3)
				}
			}
			if out.harnessPanic != "" {
				res.HarnessPanics = append(res.HarnessPanics, sc.Name+": "+out.harnessPanic)
			}
			res.Replayed++
			res.Per = append(res.Per, hrPer{Name: sc.Name, Conform: out.conform, Slip: out.slip && len(out.violations) == 0,
				Drift: out.drift != "" && !out.slip, Steps: out.steps})
			res.Steps += out.steps
			res.Compares += out.compares
			res.Probes += out.probes
			res.ProbeOK += out.probeOK
			res.ProbeErr += out.probeErr
			res.Traffic += int(out.traffic)
			res.TrafficMust += int(out.trafMust)
			res.Sessions += out.sessions
			if ms := out.maxLeave.Milliseconds(); ms > res.MaxLeaveMs {
				res.MaxLeaveMs = ms
			}
			if ms := out.maxHeal.Milliseconds(); ms > res.MaxHealMs {
				res.MaxHealMs = ms
			}
			if ms := out.maxErr.Milliseconds(); ms > res.MaxErrMs {
				res.MaxErrMs = ms
			}
			res.Violations = append(res.Violations, out.violations...)
			res.KnownHits = append(res.KnownHits, out.known...)
			if out.slip && len(out.violations) == 0 {
				res.Unrealised++
			} else if out.drift != "" {
				res.DriftCount++
				if len(res.Drift) < 8 {
					res.Drift = append(res.Drift, out.drift)
				}
			}
			if out.conform {
				res.Conforming++
			}
		}()
	}
	wg.Wait()
	hrPanicMu.Lock()
	for _, pmsg := range hrPanics {
		prop := "C16"
		if len(job.Scenarios) > 0 {
			prop = job.Scenarios[0].Prop
		}
		res.Violations = append(res.Violations, hrViolation{Property: prop, Kind: "panic", Scenario: "(process)", Detail: pmsg, Steps: []hrStep{}})
	}
	hrPanicMu.Unlock()
	res.ScenariosDone = true
	mu.Lock()
	writeOut()
	mu.Unlock()
	func() {
		defer func() {
			if r := recover(); r != nil {
				res.FreeNotes = append(res.FreeNotes, fmt.Sprintf("recorder panicked: %v", r))
			}
		}()
		hrRunFree(&job, &res)
	}()
	hrPanicMu.Lock()
	res.CallPanics = append([]string{}, hrCallPanics...)
	res.HarnessPanics = append(res.HarnessPanics, hrHarnessPanics...)
	hrPanicMu.Unlock()
	res.AllDone = true
	mu.Lock()
	writeOut()
	mu.Unlock()
}

// hrRunScenario with everything recovered, including the set-up
func hrRunScenarioSafe(sc *hrScenario, job *hrJob) (out hrOutcome) {
	defer func() {
		if r := recover(); r != nil {
			buf := make([]byte, 6000)
			buf = buf[:runtime.Stack(buf, false)]
			out = hrOutcome{harnessPanic: fmt.Sprintf("%v\n%s", r, buf)}
		}
	}()
	return hrRunScenario(sc, job)
}

// one trace line (NDJSON) for specs/Trace_HotRestart.tla
type hrLine struct {
	Ev  string `json:"ev"`
	S   int    `json:"s"`
	A   int    `json:"a"`
	B   int    `json:"b"`
	T   []int  `json:"t"`
	Srv string `json:"srv"`
	Run string `json:"run"`
}

// free-running executions of the real code (no interception): every hook event is recorded in the global order of
// the hooks' sequence numbers; sessions are numbered in creation order like the model does
func hrRunFree(job *hrJob, res *hrResult) {
	if len(job.Free) == 0 || !hrHooksOn || job.TraceFile == "" {
		return
	}
	f, err := os.Create(job.TraceFile)
	if err != nil {
		res.FreeNotes = append(res.FreeNotes, "cannot create trace file: "+err.Error())
		return
	}
	defer f.Close()
	enc := json.NewEncoder(f)
	rebuild := time.Duration(job.RebuildMs) * time.Millisecond
	for fi := range job.Free {
		fr := &job.Free[fi]
		w, err := hrNewWorld(fr.Name, fr.NP, rebuild, false)
		if err != nil {
			res.FreeNotes = append(res.FreeNotes, fr.Name+": cannot set up: "+err.Error())
			continue
		}
		w.startTraffic()
		time.Sleep(100 * time.Millisecond)
		env := func(ev string, a int) {
			seq := atomic.AddInt64(&hrGlobalSeq, 1)
			w.mu.Lock()
			w.evs = append(w.evs, hrEv{Seq: seq, Ev: ev, A: int64(a)})
			w.mu.Unlock()
		}
		healed := func(d time.Duration) bool {
			return w.waitFor(d, func() bool {
				for p := 0; p < w.np; p++ {
					if err, _ := w.probePool(p, "free"); err != nil {
						return false
					}
				}
				return true
			})
		}
		note := ""
		for _, op := range fr.Ops {
			switch op.Op {
			case "new":
				env("NewServerStarts", 0)
				l, cl, err := w.startListener()
				if err != nil {
					note = "cannot start the new listener: " + err.Error()
				}
				w.newL, w.newLn = l, cl
			case "hr":
				if err := w.oldL.HotRestart(uint64(op.A)); err != nil {
					note = "HotRestart: " + err.Error()
				}
			case "waitdone":
				if !w.waitFor(hrLeaveLimit, func() bool { return w.lstate() != hotRestartState && w.mstate() != hotRestartState }) {
					note = "still in the hot-restart state"
				}
			case "exit":
				w.oldClosed = true
				w.oldL.Close()
			case "kill":
				// close the server end of the session currently behind pool op.A
				w.sm.RLock()
				c := w.sm.pools[op.A].Session()
				w.sm.RUnlock()
				for _, l := range w.listeners() {
					if l == nil {
						continue
					}
					var victim *Session
					l.sessions.sessionMu.Lock()
					for sv := range l.sessions.data {
						if sv.name == c.name && !sv.IsClosed() {
							victim = sv
						}
					}
					l.sessions.sessionMu.Unlock()
					if victim != nil {
						victim.Close()
					}
				}
				w.waitFor(hrWaitLimit, func() bool { return c.IsClosed() })
			case "waitheal":
				if !healed(time.Duration(op.A)*rebuild + 8*time.Second) {
					note = "pools not healed"
				}
			case "close":
				w.closeDone = make(chan struct{})
				w.sm.Close()
				close(w.closeDone)
			case "sleep":
				time.Sleep(time.Duration(op.A) * time.Millisecond)
			}
			if note != "" {
				break
			}
		}
		time.Sleep(2*rebuild + 20*time.Millisecond)
		close(w.trafStop)
		w.trafWg.Wait()
		// ---- number the sessions and write the trace
		w.mu.Lock()
		evs := append([]hrEv(nil), w.evs...)
		w.mu.Unlock()
		sort.Slice(evs, func(i, j int) bool { return evs[i].Seq < evs[j].Seq })
		ids := map[*Session]int{}
		byName := map[string][]*Session{} // client sessions by name, in creation order
		next := 1
		for p := 0; p < fr.NP; p++ {
			c := w.cli[p+1]
			ids[c] = next
			byName[c.name] = append(byName[c.name], c)
			next++
		}
		// a watcher whose first recorded event is a WPick had not yet reached its select when recording began
		startsInPick := []int{}
		for p := 0; p < fr.NP; p++ {
			for _, e := range evs {
				if (e.Ev == "WPick" || e.Ev == "WLost" || e.Ev == "WSkip" || e.Ev == "WExit") && int(e.A) == p {
					if e.Ev == "WPick" {
						startsInPick = append(startsInPick, p+1)
					}
					break
				}
			}
		}
		_ = enc.Encode(hrLine{Ev: "reset", A: fr.NP, T: startsInPick, Run: fr.Name})
		n := 0
		resolve := func(s *Session) int {
			if s == nil {
				return 0
			}
			if s.isClient {
				return ids[s]
			}
			lst := byName[s.name]
			if len(lst) == 0 {
				return 0
			}
			return ids[lst[len(lst)-1]]
		}
		for i := 0; i < len(evs); i++ {
			e := evs[i]
			ln := hrLine{Ev: e.Ev, A: int(e.A), B: int(e.B), T: []int{}, Run: fr.Name}
			switch e.Ev {
			case "SClose":
				if e.S == nil || !e.S.isClient {
					continue
				}
				if _, ok := ids[e.S]; !ok {
					continue // a session that never made it into a pool (e.g. closed during set-up)
				}
				ln.S = ids[e.S]
			case "MSwap", "WConn":
				ids[e.S] = next
				byName[e.S.name] = append(byName[e.S.name], e.S)
				ln.S = next
				next++
			case "LBegin":
				// the sessions notified in this call: the LNotify events up to LEnd
				for j := i + 1; j < len(evs); j++ {
					if evs[j].Ev == "LEnd" && evs[j].Obj == e.Obj {
						break
					}
					if evs[j].Ev == "LNotify" && evs[j].Obj == e.Obj {
						ln.T = append(ln.T, resolve(evs[j].S))
					}
				}
				sort.Ints(ln.T)
			case "LClose":
				if l, ok := e.Obj.(*Listener); ok && l == w.oldL {
					ln.A = 0
				} else {
					continue
				}
			case "LDone", "LTimeout", "LEnd", "LAck", "LNotify":
				if l, ok := e.Obj.(*Listener); ok && l != w.oldL {
					continue
				}
				ln.S = resolve(e.S)
			case "WRebuilt", "SMClosing":
				continue
			case "WPick":
				ln.S = resolve(e.S)
			default:
				ln.S = resolve(e.S)
			}
			if err := enc.Encode(ln); err == nil {
				n++
			}
		}
		res.FreeRuns++
		res.FreeEvents += n
		if note != "" {
			res.FreeNotes = append(res.FreeNotes, fr.Name+": "+note)
		}
		w.destroy()
	}
}

// ---------------------------------------------------------------- staged race: GetStream against the teardown of a lost session

// Witness of the finding "openstream-teardown": Session.OpenStream checks IsClosed, then registers the stream in
// s.streams; if the session is lost and torn down in between (the teardown sets s.streams = nil) the registration is a
// write to a nil map: GetStream panics instead of failing with an error. The goroutine is parked at the scheduling
// point the rewriter puts in front of the atomic.AddUint32 between the two (gate mode; needs zz_vs_sched.go and
// Session.OpenStream instrumented).
func TestVS_HotRestartGate(t *testing.T) {
	if os.Getenv("VS_IN_JOB") == "" {
		t.Skip("VS_IN_JOB not set")
	}
	type gateResult struct {
		Reproduced bool   `json:"reproduced"`
		Detail     string `json:"detail"`
		Note       string `json:"note"`
	}
	var res gateResult
	defer func() {
		b, _ := json.Marshal(res)
		_ = os.WriteFile(os.Getenv("VS_OUT"), b, 0o644)
	}()
	w, err := hrNewWorld("gate", 1, 60*time.Millisecond, false)
	if err != nil {
		res.Note = "cannot set up: " + err.Error()
		return
	}
	defer w.destroy()
	// a first round trip so that the pool is warm and the epoll loop is awake
	if err, _ := w.probePool(0, "warm"); err != nil {
		res.Note = "warm-up round trip failed: " + err.Error()
		return
	}
	c := w.cli[1]
	// empty the stream pool so that GetStream has to call OpenStream
	for st := w.sm.pools[0].pop(); st != nil; st = w.sm.pools[0].pop() {
		st.Close()
	}
	vsReset(vsGate)
	defer vsReset(vsOff)
	g := vsGateArm("Session.OpenStream:AddUint32", 1)
	done := make(chan string, 1)
	go func() {
		defer func() {
			if r := recover(); r != nil {
				done <- fmt.Sprintf("panic: %v", r)
			}
		}()
		st, err := w.sm.GetStream()
		if err != nil {
			done <- "error: " + err.Error()
			return
		}
		_ = st
		done <- "stream"
	}()
	select {
	case <-g.hit:
	case <-time.After(20 * time.Second):
		res.Note = "GetStream did not reach OpenStream"
		close(g.release)
		return
	}
	// the session is lost now: its server end is closed, the client end notices and tears itself down
	w.srv[1].Close()
	torn := w.waitFor(20*time.Second, func() bool {
		if !c.IsClosed() {
			return false
		}
		c.streamLock.Lock()
		defer c.streamLock.Unlock()
		return c.streams == nil
	})
	close(g.release)
	if !torn {
		res.Note = "the client session was not torn down in time"
	}
	select {
	case out := <-done:
		res.Detail = "GetStream racing with the loss of the pool's session (parked after the IsClosed check of Session.OpenStream, session torn down, resumed): " + out
		res.Reproduced = strings.HasPrefix(out, "panic")
	case <-time.After(20 * time.Second):
		res.Detail = "GetStream did not return within 20 s after the session was torn down"
		res.Reproduced = true
	}
}

// ---------------------------------------------------------------- staged: HotRestart notifying a session whose peer is gone

// Witness of the finding "hotrestart-write-deadlock" (own process: on the unrepaired code the listener's locks and soon the
// shared event loop are blocked for ever). The client end of one session is shut down while the event loop is stalled
// (dispatcher lock held by the test), so the server has not handled the hang-up when Listener.HotRestart writes the
// notification: the write fails (EPIPE), writeEventData -> exitErr -> Session.Close -> sessionCallback.OnShutdown ->
// sessions.removeShutdownSession wants sessions.sessionMu, which HotRestart itself holds.
func TestVS_HotRestartDeadlock(t *testing.T) {
	if os.Getenv("VS_IN_JOB") == "" {
		t.Skip("VS_IN_JOB not set")
	}
	type dlResult struct {
		Reproduced bool   `json:"reproduced"`
		Detail     string `json:"detail"`
		Note       string `json:"note"`
	}
	var res dlResult
	write := func() {
		b, _ := json.Marshal(res)
		_ = os.WriteFile(os.Getenv("VS_OUT"), b, 0o644)
	}
	defer write()
	w, err := hrNewWorld("deadlock", 2, 60*time.Millisecond, true)
	if err != nil {
		res.Note = "cannot set up: " + err.Error()
		return
	}
	if err, _ := w.probePool(0, "warm"); err != nil {
		res.Note = "warm-up round trip failed: " + err.Error()
		w.destroy()
		return
	}
	d, ok := defaultDispatcher.(*epollDispatcher)
	if !ok {
		res.Note = "unexpected dispatcher type"
		w.destroy()
		return
	}
	// stall the event loop, then kill the client end of session 1: the server cannot have noticed
	d.lock.Lock()
	stalled := true
	unstall := func() {
		if stalled {
			stalled = false
			d.lock.Unlock()
		}
	}
	defer unstall()
	if err := syscall.Shutdown(w.cli[1].connFd, syscall.SHUT_RDWR); err != nil {
		res.Note = "shutdown of the client fd failed: " + err.Error()
		return
	}
	ret := make(chan error, 1)
	go func() { ret <- w.oldL.HotRestart(7) }()
	returned := false
	var hrErr error
	select {
	case hrErr = <-ret:
		returned = true
	case <-time.After(4 * time.Second):
	}
	unstall()
	if !returned {
		select {
		case hrErr = <-ret:
			returned = true
		case <-time.After(4 * time.Second):
		}
	}
	if !returned {
		muFree := w.oldL.mu.TryLock()
		if muFree {
			w.oldL.mu.Unlock()
		}
		smFree := w.oldL.sessions.sessionMu.TryLock()
		if smFree {
			w.oldL.sessions.sessionMu.Unlock()
		}
		res.Reproduced = true
		res.Detail = fmt.Sprintf("Listener.HotRestart(7) with the client end of one session already closed (hang-up not yet handled by the server) has not returned after 8 s; Listener.mu free=%v, sessions.sessionMu free=%v, server session closed=%v: the failing notification write closes the session inside the loop and removeShutdownSession waits for sessionMu held by HotRestart itself", muFree, smFree, w.srv[1].IsClosed())
		return // no clean-up possible: every path through the listener blocks
	}
	// repaired code: the restart must end (by acknowledgement of the live session or by the time-out) and the listener must close
	left := w.waitFor(hrLeaveLimit, func() bool { return w.oldL.IsHotRestartDone() })
	closed := make(chan struct{})
	go func() { w.destroy(); close(closed) }()
	closeOK := true
	select {
	case <-closed:
	case <-time.After(hrLeaveLimit):
		closeOK = false
	}
	res.Detail = fmt.Sprintf("HotRestart returned %v; left the hot-restart state within %v: %v; listener and manager closed: %v; dead session closed: %v", hrErr, hrLeaveLimit, left, closeOK, w.srv[1].IsClosed())
	res.Reproduced = !left || !closeOK
}
