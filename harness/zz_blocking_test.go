package shmipc

// Binding for the Blocking module (C11 - no stream or session call blocks forever).
//
// The waiter under test (a reader in Stream.readMore, a writer in the queue-full retry loop of Stream.Flush, a caller of
// Session.AcceptStream, a caller of Session.waitForSend, a Flush in the slow path of Session.wakeUpPeer) is a goroutine
// running the REAL function on a vpPair of REAL sessions. The schedule comes from a path of the TLC state graph of
// Blocking.tla: every step is either "the waiter moves to its next access to shared state" (gate mode of zz_vs_sched.go:
// the goroutine is parked in front of pendingData.moveTo / Stream.getStreamState / queue.put and released one stretch
// at a time) or one environment event performed with the real code (peer flushes a message + the event loop handles it,
// split between pendingData.add and the notification; peer closes; local Close from another goroutine split between the
// state CAS and the clean-up; Session.Close and its posted teardown; the clock passing the deadline). Whether a waiter
// is blocked is read from the Go runtime (goroutine state "select"/"chan send" inside the library function), so
// "the event fired just before the waiter subscribed" and "... just after" are staged exactly, without sleeps.
//
// After every step the harness records what it observes on the real objects (position of the waiter, its result,
// bytes pending / buffered, notification token, close channel, stream and session state, queue and channel lengths);
// the Python side validates the recorded sequence against the TLC state graph (code -> spec). Independently of the
// specification the property oracles are evaluated here on the real run:
//   O1  a waiter is never left blocked when an event that must release it has completed;
//   O2  a nil result only with the data there; ErrTimeout only with a deadline that has really passed (never early);
//       an end-of-stream / closed / shutdown error only when the stream or session really is closed;
//   O3  every release completes within a generous bound (the machine is shared; a slow run is "inconclusive").

import (
	"encoding/json"
	"fmt"
	"net"
	"os"
	"runtime"
	"strconv"
	"strings"
	"sync"
	"sync/atomic"
	"testing"
	"time"

	syscall "golang.org/x/sys/unix"
)

type blkStep struct {
	A string `json:"a"`
	K int    `json:"k"`
}

type blkSched struct {
	Name      string    `json:"name"`
	Mode      string    `json:"mode"`
	Steps     []blkStep `json:"steps"`
	InitTok   int       `json:"init_tok"`
	Need      int       `json:"need"`
	Deadlines []int     `json:"deadlines"`
	QCap      int       `json:"qcap"`
	Preload   int       `json:"preload"`
	WDeadline int       `json:"wdeadline"`
	SPre      int       `json:"spre"`
	SCap      int       `json:"scap"`
	CWT       int       `json:"cwt"`
	PeerDied  bool      `json:"peer_died"` // session close = the peer disappeared (onRemoteClose) instead of Close()
	Cb        bool      `json:"cb"`        // callback mode: the read under test is done by OnData in the callback goroutine
	Eager     bool      `json:"eager"`     // a reader woken by an event runs on at once (until it blocks or returns)
}

type blkJob struct {
	Schedules []blkSched `json:"schedules"`
	Scenarios []string   `json:"scenarios"` // hand-staged scenarios by name
	BoundMs   int        `json:"bound_ms"`  // O3 bound
	TickMs    int        `json:"tick_ms"`   // initial distance of a deadline that the schedule lets pass
	WakeTries int        `json:"wake_tries"`
}

type blkObs map[string]interface{}

type blkEvent struct {
	A   string `json:"a"`
	K   int    `json:"k"`
	Obs blkObs `json:"obs"`
}

type blkViolation struct {
	Kind     string   `json:"kind"`
	Detail   string   `json:"detail"`
	Schedule blkSched `json:"schedule"`
	At       int      `json:"at"`
}

type blkRun struct {
	Name     string     `json:"name"`
	Events   []blkEvent `json:"events"`
	Timing   string     `json:"timing"` // "" or why the real-time staging of this schedule was not valid (retried)
	Attempts int        `json:"attempts"`
	Skipped  int        `json:"skipped"`
	WallMs   int64      `json:"wall_ms"`
	Eos      string     `json:"eos_with_data"` // C07 observation: end-of-stream reported over delivered, unread data
}

type blkScenario struct {
	Name   string                 `json:"name"`
	Ok     bool                   `json:"ok"`
	Detail string                 `json:"detail"`
	Data   map[string]interface{} `json:"data"`
}

type blkResult struct {
	Runs           []blkRun       `json:"runs"`
	Violations     []blkViolation `json:"violations"`
	Inconclusive   []string       `json:"inconclusive"`
	Scenarios      []blkScenario  `json:"scenarios"`
	Steps          int            `json:"steps"`
	Releases       int            `json:"releases"`    // times a blocked waiter was released by an event
	BlockedObs     int            `json:"blocked_obs"` // quiescent points with the waiter blocked (O1 evaluated)
	Returns        map[string]int `json:"returns"`
	MaxReleaseUs   int64          `json:"max_release_us"`
	EosWithData    int            `json:"eos_with_data"`
	EosWitness     string         `json:"eos_witness"`
	TimingRetry    int            `json:"timing_retries"`
	Actions        map[string]int `json:"actions"` // environment / waiter steps really executed, by specification action
	WakeStuck      int            `json:"wake_stuck"`
	CbCloseBlocked int            `json:"cb_close_blocked"`
	CbCloseWitness string         `json:"cb_close_witness"`
	WakeWitness    string         `json:"wake_witness"`
}

// ---------------------------------------------------------------- goroutine states

func blkGoid() int64 {
	var buf [64]byte
	n := runtime.Stack(buf[:], false)
	s := strings.TrimPrefix(string(buf[:n]), "goroutine ")
	i := strings.IndexByte(s, ' ')
	id, _ := strconv.ParseInt(s[:i], 10, 64)
	return id
}

var blkStackBuf = make([]byte, 1<<20)
var blkStackMu sync.Mutex

// blkStatus returns the runtime state ("select", "chan send", "chan receive", "runnable", ...) and the stack text of
// goroutine gid ("" when it does not exist any more).
func blkStatus(gid int64) (string, string) {
	blkStackMu.Lock()
	defer blkStackMu.Unlock()
	for {
		n := runtime.Stack(blkStackBuf, true)
		if n < len(blkStackBuf) {
			dump := string(blkStackBuf[:n])
			hdr := "goroutine " + strconv.FormatInt(gid, 10) + " ["
			i := strings.Index(dump, hdr)
			for i > 0 && dump[i-1] != '\n' {
				j := strings.Index(dump[i+1:], hdr)
				if j < 0 {
					return "", ""
				}
				i = i + 1 + j
			}
			if i < 0 {
				return "", ""
			}
			rest := dump[i+len(hdr):]
			e := strings.IndexByte(rest, ']')
			st := rest[:e]
			if c := strings.IndexByte(st, ','); c >= 0 {
				st = st[:c]
			}
			end := strings.Index(rest, "\n\n")
			if end < 0 {
				end = len(rest)
			}
			return st, rest[:end]
		}
		blkStackBuf = make([]byte, 2*len(blkStackBuf))
	}
}

// blkAnyGoroutineIn: is any goroutine executing (or blocked under) a function whose name contains fn?
func blkAnyGoroutineIn(fn string) bool {
	blkStackMu.Lock()
	defer blkStackMu.Unlock()
	for {
		n := runtime.Stack(blkStackBuf, true)
		if n < len(blkStackBuf) {
			return strings.Contains(string(blkStackBuf[:n]), fn)
		}
		blkStackBuf = make([]byte, 2*len(blkStackBuf))
	}
}

// ---------------------------------------------------------------- threads and gates

type blkThr struct {
	name    string
	gid     int64
	done    chan struct{}
	gate    *vsGateT // the gate the goroutine is parked at
	kind    string   // which label
	blockFn string   // library function in which the goroutine may legitimately block (select / chan send)
	panicV  interface{}
	startCh chan struct{}
	started bool
	altDone func() bool // the goroutine may also end without closing done (callback goroutine that never calls OnData)
}

func (th *blkThr) start() {
	if !th.started {
		th.started = true
		close(th.startCh)
	}
}

const (
	blkLblMove  = "pendingData.moveTo:lock"
	blkLblState = "Stream.getStreamState:"
	blkLblClear = "pendingData.clear:lock"
	blkLblPut   = "queue.put:lock"
	blkLblAdd   = "pendingData.add:lock"
	blkLblSel   = "Stream.readMore:select" // in front of every select of readMore (instr rule preSelect)
)

// blkSpawn creates the goroutine; it runs fn only after th.start() (called by advance once the gates are armed).
func blkSpawn(name, blockFn string, fn func()) *blkThr {
	th := &blkThr{name: name, done: make(chan struct{}), blockFn: blockFn, startCh: make(chan struct{})}
	ready := make(chan struct{})
	go func() {
		atomic.StoreInt64(&th.gid, blkGoid())
		close(ready)
		<-th.startCh
		defer func() {
			if r := recover(); r != nil {
				th.panicV = fmt.Sprintf("%v", r)
			}
			close(th.done)
		}()
		fn()
	}()
	<-ready
	return th
}

func (th *blkThr) finished() bool {
	select {
	case <-th.done:
		return true
	default:
		return th.altDone != nil && th.altDone()
	}
}

// blocked: is the goroutine parked by the runtime inside its library function (not at one of our gates)?
func (th *blkThr) blocked() (bool, string) {
	if th.finished() || th.blockFn == "" || !th.started {
		return false, ""
	}
	st, frames := blkStatus(atomic.LoadInt64(&th.gid))
	if (strings.HasPrefix(st, "select") || st == "chan send" || st == "chan receive") && strings.Contains(frames, th.blockFn) &&
		!strings.Contains(frames, "vsGateCheck") {
		return true, st
	}
	return false, st
}

type blkWorld struct {
	res   *blkResult
	job   *blkJob
	sc    *blkSched
	bound time.Duration
	viol  *blkViolation
	inc   string
	at    int
}

func (w *blkWorld) fail(kind, detail string) {
	if w.viol == nil {
		w.viol = &blkViolation{Kind: kind, Detail: detail, Schedule: *w.sc, At: w.at}
	}
}

// advance releases th from its gate (or lets start() start it) with gates armed at the given label prefixes and waits
// until th is parked at one of them, has finished, or is blocked inside blockFn. extra are threads that may be woken by
// this step (a blocked reader): they get the gate wake armed and are waited for as well.
// It returns "gate:<label>", "done", "blocked" or "stuck".
func (w *blkWorld) advance(th *blkThr, labels []string, extra ...*blkThr) string {
	gates := make([]*vsGateT, len(labels))
	for i, l := range labels {
		gates[i] = vsGateArm(l, 1)
	}
	type ex struct {
		th   *blkThr
		gate *vsGateT
		was  bool
	}
	var exs []*ex
	for _, e := range extra {
		if e == nil || e == th || e.finished() || e.gate != nil {
			continue
		}
		b, _ := e.blocked()
		exs = append(exs, &ex{th: e, gate: vsGateArm(blkLblMove, 1), was: b})
	}
	if th.gate != nil {
		g := th.gate
		th.gate, th.kind = nil, ""
		g.releaseGate()
	}
	th.start()
	out := w.waitThr(th, gates, labels)
	for _, g := range gates {
		if g != th.gate {
			g.releaseGate()
		}
	}
	for _, e := range exs {
		if e.was {
			t0 := time.Now()
			if b, _ := e.th.blocked(); !b {
				r := w.waitThr(e.th, []*vsGateT{e.gate}, []string{blkLblMove})
				if r != "stuck" {
					w.res.Releases++
					if us := time.Since(t0).Microseconds(); us > w.res.MaxReleaseUs {
						w.res.MaxReleaseUs = us
					}
				}
			}
		}
		if e.gate != e.th.gate {
			e.gate.releaseGate()
		}
	}
	return out
}

func (w *blkWorld) waitThr(th *blkThr, gates []*vsGateT, labels []string) string {
	t0 := time.Now()
	spin := 0
	for {
		for i, g := range gates {
			select {
			case <-g.hit:
				th.gate, th.kind = g, labels[i]
				return "gate:" + labels[i]
			default:
			}
		}
		if th.finished() {
			return "done"
		}
		spin++
		if th.blockFn != "" && spin%4 == 0 {
			if b, _ := th.blocked(); b {
				// a goroutine seen blocked may be the one a gate is about to catch (it ran between the two tests)
				for i, g := range gates {
					select {
					case <-g.hit:
						th.gate, th.kind = g, labels[i]
						return "gate:" + labels[i]
					default:
					}
				}
				if th.finished() {
					return "done"
				}
				return "blocked"
			}
		}
		if time.Since(t0) > w.bound {
			st, _ := blkStatus(atomic.LoadInt64(&th.gid))
			if w.inc == "" {
				w.inc = fmt.Sprintf("%s: thread %s neither parked, finished nor blocked within %v (runtime state %q)", w.sc.Name, th.name, w.bound, st)
			}
			return "stuck"
		}
		if spin < 50 {
			runtime.Gosched()
		} else if spin < 400 {
			time.Sleep(50 * time.Microsecond)
		} else {
			time.Sleep(time.Millisecond)
		}
	}
}

func blkClosed(ch chan struct{}) bool {
	select {
	case <-ch:
		return true
	default:
		return false
	}
}

func blkStateName(s uint32) string {
	switch streamState(s) {
	case streamOpened:
		return "open"
	case streamHalfClosed:
		return "half"
	}
	return "closed"
}

func blkErrName(err error) string {
	switch err {
	case nil:
		return "nil"
	case ErrTimeout:
		return "timeout"
	case ErrEndOfStream:
		return "eos"
	case ErrStreamClosed:
		return "closed"
	case ErrQueueFull:
		return "queuefull"
	case ErrConnectionWriteTimeout:
		return "timeout"
	case ErrSessionShutdown:
		return "shutdown"
	}
	return "err:" + err.Error()
}

func blkNewPair(qcap int) (*vpPair, error) {
	return vpNewPair(vpConfig{Sizes: []uint32{8}, Percents: []uint32{100}, MemSize: 4096, QueueCap: uint32(qcap)})
}

// blkSend: the client end writes n bytes (values from *seq on) on st and flushes them; the events stay recorded in connA.
func blkSend(p *vpPair, st *Stream, n int, seq *int) error {
	b := make([]byte, n)
	for i := range b {
		b[i] = byte(*seq)
		*seq++
	}
	if _, err := st.BufferWriter().WriteBytes(b); err != nil {
		return err
	}
	if err := st.Flush(false); err != nil {
		return err
	}
	for k := 0; k < 4000 && len(p.A.sendCh) > 0; k++ {
		time.Sleep(50 * time.Microsecond)
	}
	return nil
}

// ================================================================= mode "read"

type blkReadWorld struct {
	*blkWorld
	pair      *vpPair
	as, bs    *Stream // client end / server end (the reader's) of the stream
	R, D, C   *blkThr
	seq       int // next byte value the peer writes
	consumed  int // bytes the reader has been given
	now       int
	rd        int
	sess      string
	dpc, cpc  string
	peerCl    bool
	deadline  time.Time // real deadline of the current read (zero: none)
	near      bool      // the schedule lets this deadline pass
	dlTick    int
	accounted bool
	cbRead    bool // callback mode: OnData's read has returned
	cbCalls   int32
	tearing   int32
	cbClosed  bool // callback mode: a local Close was deferred (CloseCb) in this run
	cbKnown   int
	eosDetail string
	timingBad string
	seenGate  *vsGateT
	lastRes   string
	lastErr   error
	lastN     int
	retAt     time.Time
	mvHits    int
	stHits    int
	tickD     time.Duration
}

func (w *blkReadWorld) pendBytes() int {
	pd := w.bs.pendingData
	pd.Lock()
	defer pd.Unlock()
	n := 0
	for _, u := range pd.unread {
		if u.fallbackSlice != nil {
			n += u.fallbackSlice.size()
			continue
		}
		off := u.offset
		for {
			sl, err := w.bs.session.bufferManager.readBufferSlice(off)
			if err != nil {
				break
			}
			n += sl.size()
			if !sl.hasNext() {
				break
			}
			off = sl.nextBufferOffset()
		}
	}
	return n
}

func (w *blkReadWorld) pos() string {
	if w.R == nil || w.R.finished() {
		return "idle"
	}
	if w.R.gate != nil {
		if w.R.kind == blkLblMove {
			return "mv"
		}
		if w.R.kind == blkLblSel {
			return "ps"
		}
		return "st"
	}
	// neither parked nor finished: blocked in the select, or in flight (e.g. the timer has just fired) - let it settle
	t0 := time.Now()
	for {
		if b, _ := w.R.blocked(); b {
			return "sel"
		}
		if w.R.finished() {
			w.syncR()
			return "idle"
		}
		if time.Since(t0) > 2*time.Second {
			return "run"
		}
		time.Sleep(200 * time.Microsecond)
	}
}

func (w *blkReadWorld) obs() blkObs {
	pos := w.pos()
	o := blkObs{"pos": pos, "res": w.lastRes, "rd": w.rd, "tok": len(w.bs.recvNotifyCh),
		"cls": blkClosed(w.bs.closeNotifyCh), "st": blkStateName(w.bs.getStreamState()), "sess": w.sess,
		"dpc": w.dpc, "cpc": w.cpc, "mv": w.mvHits, "sth": w.stHits, "now": w.now}
	o["pend"] = w.pendBytes()
	o["rbuf"] = w.bs.recvBuf.len
	if w.sc.Cb && w.R != nil && w.R.finished() {
		// the rest of the callback goroutine (further OnData calls, the deferred close) is not modelled
		for _, k := range []string{"pend", "rbuf", "tok", "st", "cls"} {
			delete(o, k)
		}
	}
	return o
}

// oracle O1: evaluated at every quiescent point
func (w *blkReadWorld) checkBlocked() {
	if w.R == nil || w.R.finished() || w.R.gate != nil {
		return
	}
	b, st := w.R.blocked()
	if !b {
		return
	}
	w.res.BlockedObs++
	why := ""
	switch {
	case blkClosed(w.bs.closeNotifyCh):
		why = "the stream's close notification has been given"
	case w.cpc != "mid" && w.bs.getStreamState() != uint32(streamOpened):
		why = "the stream is " + blkStateName(w.bs.getStreamState())
		if w.sc.Cb && w.cbClosed {
			// finding callback-close-leaves-reader-blocked: Close() while the callback goroutine is active is only deferred
			// (open -> half, no notification), the read inside OnData is not released by it - nor by a later peer close
			w.res.CbCloseBlocked++
			if w.res.CbCloseWitness == "" {
				js, _ := json.Marshal(w.sc.Steps[:w.at+1])
				w.res.CbCloseWitness = fmt.Sprintf("%s: ReadBytes(%d) inside OnData (goroutine state %q in Stream.readMore) stays blocked after "+
					"Stream.Close() from another goroutine returned nil: stream state %s, closeNotifyCh not closed; steps %s",
					w.sc.Name, w.sc.Need, st, blkStateName(w.bs.getStreamState()), js)
			}
			why = "Stream.Close() was called by another goroutine (callback mode: only deferred, the stream is " +
				blkStateName(w.bs.getStreamState()) + ", no close notification)"
		}
	case w.cpc != "mid" && w.sess != "up":
		why = "the session is shut down"
	case w.dpc == "idle" && w.pendBytes()+w.bs.recvBuf.len >= w.sc.Need:
		why = fmt.Sprintf("%d bytes have been delivered (wanted %d)", w.pendBytes()+w.bs.recvBuf.len, w.sc.Need)
	case !w.deadline.IsZero() && time.Since(w.deadline) > 50*time.Millisecond:
		why = fmt.Sprintf("the read deadline passed %v ago", time.Since(w.deadline))
	}
	if why == "" {
		return
	}
	// the releasing operation has returned, so the runtime has already made the reader runnable if it was going to;
	// still give it the full bound before calling it blocked forever
	t0 := time.Now()
	for time.Since(t0) < w.bound {
		if b, _ := w.R.blocked(); !b {
			return
		}
		time.Sleep(2 * time.Millisecond)
	}
	w.fail("blocked-forever", fmt.Sprintf("reader (ReadBytes(%d), goroutine state %q in Stream.readMore) is still blocked %v after "+
		"the releasing event completed: %s", w.sc.Need, st, w.bound, why))
}

// oracle O2: evaluated when a read returns
func (w *blkReadWorld) checkReturn() {
	w.res.Returns[w.lastRes]++
	st := w.bs.getStreamState()
	switch w.lastRes {
	case "nil":
		if w.lastN != w.sc.Need {
			w.fail("nil-without-data", fmt.Sprintf("ReadBytes(%d) returned nil error with %d bytes", w.sc.Need, w.lastN))
		}
	case "timeout":
		if w.deadline.IsZero() {
			w.fail("timeout-without-deadline", "ReadBytes returned ErrTimeout although the stream has no read deadline")
		} else if w.retAt.Before(w.deadline) {
			w.fail("timeout-early", fmt.Sprintf("ReadBytes returned ErrTimeout %v BEFORE its deadline", w.deadline.Sub(w.retAt)))
		}
	case "eos", "closed":
		if st == uint32(streamOpened) && !blkClosed(w.bs.closeNotifyCh) && w.sess == "up" {
			w.fail("error-without-cause", "ReadBytes returned "+w.lastRes+" on an open stream of a live session")
		}
		if w.lastRes == "eos" && w.peerCl && w.cpc == "idle" && w.pendBytes()+w.bs.recvBuf.len >= w.sc.Need {
			w.res.EosWithData++
			b, _ := json.Marshal(w.sc.Steps[:w.at+1])
			w.eosDetail = fmt.Sprintf("ReadBytes(%d) returned ErrEndOfStream although %d bytes flushed by the peer before it closed had been "+
				"delivered (pendingData %d + read buffer %d) and were unread; steps executed %s", w.sc.Need,
				w.pendBytes()+w.bs.recvBuf.len, w.pendBytes(), w.bs.recvBuf.len, b)
			if w.res.EosWitness == "" {
				b, _ := json.Marshal(w.sc.Steps[:w.at+1])
				w.res.EosWitness = fmt.Sprintf("%s: ReadBytes(%d) = end of stream with %d bytes delivered and unread; steps %s",
					w.sc.Name, w.sc.Need, w.pendBytes()+w.bs.recvBuf.len, b)
			}
		}
	default:
		w.fail("unexpected-result", "ReadBytes returned "+w.lastRes)
	}
	if w.R.panicV != nil {
		w.fail("panic", fmt.Sprintf("reader panicked: %v", w.R.panicV))
	}
}

func (w *blkReadWorld) setup() error {
	var err error
	if w.pair, err = blkNewPair(8); err != nil {
		return err
	}
	p := w.pair
	if w.as, err = p.A.OpenStream(); err != nil {
		return err
	}
	w.seq = 200
	if err = blkSend(p, w.as, 1, &w.seq); err != nil {
		return err
	}
	if err = p.settle(); err != nil {
		return err
	}
	if len(p.newStreamsB) != 1 {
		return fmt.Errorf("server end did not surface the stream")
	}
	w.bs = p.newStreamsB[0]
	if _, err = w.bs.BufferReader().ReadBytes(1); err != nil {
		return err
	}
	w.bs.BufferReader().ReleasePreviousRead()
	if w.sc.InitTok == 0 {
		select {
		case <-w.bs.recvNotifyCh:
		default:
		}
	} else if len(w.bs.recvNotifyCh) != 1 {
		return fmt.Errorf("no stale token after the first message")
	}
	w.seq = 0
	w.sess, w.dpc, w.cpc = "up", "idle", "idle"
	w.lastRes = "none"
	if w.sc.Cb {
		if err = w.bs.SetCallbacks(&blkCallbacks{w: w}); err != nil {
			return err
		}
	}
	return nil
}

// blkCallbacks: callback mode. The first OnData does the read under test (ReadBytes(Need) with fewer bytes delivered: it
// blocks in readMore inside the callback goroutine); later calls just take what is there.
type blkCallbacks struct{ w *blkReadWorld }

func (c *blkCallbacks) OnData(r BufferReader) {
	w := c.w
	if atomic.LoadInt32(&w.tearing) == 1 || w.R == nil || atomic.AddInt32(&w.cbCalls, 1) > 1 {
		// not the read under test (later calls; a callback goroutine started by a deliverer that the teardown let go)
		r.Discard(r.Len())
		return
	}
	atomic.StoreInt64(&w.R.gid, blkGoid())
	defer func() {
		if p := recover(); p != nil {
			w.R.panicV = fmt.Sprintf("%v", p)
		}
		w.cbRead = true
		close(w.R.done)
	}()
	b, err := r.ReadBytes(w.sc.Need)
	w.retAt = time.Now()
	w.lastErr, w.lastN = err, len(b)
	if err == nil {
		w.consumed = int(b[0]) + len(b)
		r.ReleasePreviousRead()
	}
}
func (c *blkCallbacks) OnLocalClose()  {}
func (c *blkCallbacks) OnRemoteClose() {}

// setDeadline: real read deadline of read number w.rd (see RStart)
func (w *blkReadWorld) setDeadline(i int) {
	w.dlTick = w.sc.Deadlines[w.rd-1]
	w.near = false
	switch {
	case w.dlTick == 0:
		w.deadline = time.Time{}
	case w.dlTick <= w.now:
		w.deadline = time.Now().Add(-time.Millisecond)
	case w.ticksAhead(i+1, w.dlTick):
		w.deadline = time.Now().Add(w.tickD)
		w.near = true
	default:
		w.deadline = time.Now().Add(time.Hour)
	}
	w.bs.SetReadDeadline(w.deadline)
}

func (w *blkReadWorld) teardown() {
	atomic.StoreInt32(&w.tearing, 1)
	vsReset(vsOff) // releases nothing by itself: release every gate first
	for _, th := range []*blkThr{w.R, w.D, w.C} {
		if th != nil && th.gate != nil {
			th.gate.releaseGate()
			th.gate = nil
		}
	}
	if w.bs != nil {
		w.bs.safeCloseNotify() // let a reader that is still blocked go (schedule ended while it legitimately waits)
	}
	for _, th := range []*blkThr{w.R, w.D, w.C} {
		if th != nil {
			for t0 := time.Now(); !th.finished() && time.Since(t0) < w.bound; {
				time.Sleep(200 * time.Microsecond)
			}
		}
	}
	alive := false
	if w.sc.Cb && w.bs != nil {
		// the callback goroutine still works on the stream after OnData returned (further OnData calls, the deferred close -
		// which runs AFTER asyncGoroutineWg.Done()): never unmap under it, wait until no goroutine is inside its closure
		alive = true
		for t0 := time.Now(); time.Since(t0) < w.bound; {
			if !blkAnyGoroutineIn("fillDataToReadBuffer.func") {
				alive = false
				break
			}
			time.Sleep(300 * time.Microsecond)
		}
	}
	if w.pair != nil && !alive {
		if w.sess == "notified" {
			w.pair.dispB.run()
		}
		w.pair.destroy()
	}
}

// ticksAhead: does the rest of the schedule (before the next RStart) bring the clock to tick?
func (w *blkReadWorld) ticksAhead(from int, tick int) bool {
	now := w.now
	for i := from; i < len(w.sc.Steps); i++ {
		switch w.sc.Steps[i].A {
		case "RTick":
			now++
			if now >= tick {
				return true
			}
		case "RStart":
			return false
		}
	}
	return false
}

// syncR accounts for what the reader did during the last step (parked at a new gate / returned).
func (w *blkReadWorld) syncR() {
	if w.R == nil {
		return
	}
	if w.R.gate != nil && w.R.gate != w.seenGate {
		w.seenGate = w.R.gate
		if w.R.kind == blkLblMove {
			w.mvHits++
		} else if w.R.kind == blkLblState {
			w.stHits++
		}
	}
	if w.R.finished() && !w.accounted && w.sc.Cb && !w.cbRead {
		w.accounted = true // the callback goroutine left without calling OnData (stream not open any more)
		return
	}
	if w.R.finished() && !w.accounted {
		w.accounted = true
		w.lastRes = blkErrName(w.lastErr)
		if w.lastRes == "timeout" && w.near && w.now < w.dlTick && !w.retAt.Before(w.deadline) {
			// the real deadline passed before the schedule's clock reached it: the staging was too slow, not the library
			w.timingBad = "real deadline passed while the schedule's clock was still before it"
		}
		w.checkReturn()
	}
}

// advanceR lets the reader run to its next scheduling point: pendingData.moveTo, Stream.getStreamState or the main
// select of readMore. The select inside the deferred timer drain carries the same label prefix: a reader parked there
// (its stack is inside the deferred closure readMore.func1) is simply let through.
func (w *blkReadWorld) advanceR() string {
	for k := 0; ; k++ {
		r := w.advance(w.R, []string{blkLblMove, blkLblState, blkLblSel})
		if r == "gate:"+blkLblSel && k < 4 {
			if _, frames := blkStatus(atomic.LoadInt64(&w.R.gid)); strings.Contains(frames, "readMore.func") {
				continue
			}
		}
		return r
	}
}

func (w *blkReadWorld) env(name string, labels []string, fn func()) (*blkThr, string) {
	th := blkSpawn(name, "", fn)
	r := w.advance(th, labels, w.R)
	return th, r
}

func (w *blkReadWorld) step(i int, s blkStep) (skipped bool, timing string) {
	// a deadline the schedule has not let pass yet must still be in the future in real time
	if w.near && w.now < w.dlTick && w.R != nil && !w.R.finished() && time.Until(w.deadline) < 3*time.Millisecond {
		return false, fmt.Sprintf("real deadline reached before step %d", i)
	}
	switch {
	case s.A == "RStart":
		if w.sc.Cb || (w.R != nil && !w.R.finished()) {
			return true, ""
		}
		w.rd++
		w.setDeadline(i)
		w.mvHits, w.stHits = 0, 0
		w.lastRes = "none"
		w.accounted, w.seenGate = false, nil
		need := w.sc.Need
		w.R = blkSpawn("reader", "readMore", func() {
			b, err := w.bs.BufferReader().ReadBytes(need)
			w.retAt = time.Now()
			w.lastErr, w.lastN = err, len(b)
			if err == nil {
				// FIFO content: bytes are consecutive and never older than what was already consumed (a local close may have
				// dropped bytes in between)
				for j := range b {
					if int(b[j]) != int(b[0])+j || int(b[0]) < w.consumed {
						w.lastErr = fmt.Errorf("read returned bytes %v after %d bytes had been consumed", b, w.consumed)
						break
					}
				}
				if len(b) > 0 {
					w.consumed = int(b[0]) + len(b)
				}
				w.bs.BufferReader().ReleasePreviousRead()
			}
		})
		w.advanceR()
	case strings.HasPrefix(s.A, "R_sel"):
		// taking an arm is part of the stretch that leaves the select gate (R_enter) or of the wake-up by an event
		return true, ""
	case strings.HasPrefix(s.A, "R_"):
		if w.R == nil || w.R.finished() || w.R.gate == nil {
			return true, "" // returned already, or blocked in the select: it moves when an event releases it
		}
		w.advanceR()
	case s.A == "ArrBegin":
		if w.dpc != "idle" || w.peerCl {
			return true, ""
		}
		if err := blkSend(w.pair, w.as, s.K, &w.seq); err != nil {
			w.inc = "peer Flush failed: " + err.Error()
			return true, ""
		}
		var r string
		w.D, r = w.env("deliver", []string{blkLblAdd}, func() { w.pair.deliver(w.pair.B) })
		if strings.HasPrefix(r, "gate:") {
			w.dpc = "pre"
		}
	case s.A == "ArrAdd":
		if w.dpc != "pre" {
			return true, ""
		}
		r := w.advance(w.D, []string{blkLblState}, w.R)
		if strings.HasPrefix(r, "gate:") {
			w.dpc = "mid"
		} else {
			w.dpc = "idle"
		}
	case s.A == "ArrNotify":
		if w.dpc != "mid" {
			return true, ""
		}
		if w.sc.Cb && w.R == nil && w.bs.getStreamState() != uint32(streamClosed) {
			// callback mode, first message: fillDataToReadBuffer starts the callback goroutine; it is caught at its first
			// scheduling point (the moveTo in front of the OnData loop)
			w.rd = 1
			w.setDeadline(i)
			w.mvHits, w.stHits = 0, 0
			w.accounted, w.seenGate = false, nil
			bs := w.bs
			w.R = &blkThr{name: "callback-goroutine", done: make(chan struct{}), blockFn: "readMore", startCh: make(chan struct{}),
				started: true}
			w.R.altDone = func() bool {
				return atomic.LoadInt32(&w.cbCalls) == 0 && atomic.LoadUint32(&bs.callbackInProcess) == 0
			}
			labels := []string{blkLblMove, blkLblState, blkLblSel}
			gates := []*vsGateT{vsGateArm(blkLblMove, 1), vsGateArm(blkLblState, 1), vsGateArm(blkLblSel, 1)}
			if w.D.gate != nil {
				g := w.D.gate
				w.D.gate, w.D.kind = nil, ""
				g.releaseGate()
			}
			// the deliverer itself may load the stream state again before it starts the goroutine (commit e3f8d7e): a hit of
			// the state gate while the deliverer is still running and nobody reached moveTo is the deliverer's - let it pass
			t0 := time.Now()
			for !w.D.finished() && time.Since(t0) < w.bound {
				select {
				case <-gates[1].hit:
					gates[1].releaseGate()
					gates[1] = vsGateArm(blkLblState, 1)
				default:
					time.Sleep(50 * time.Microsecond)
				}
			}
			w.waitThr(w.R, gates, labels)
			for _, g := range gates {
				if g != w.R.gate {
					g.releaseGate()
				}
			}
		} else {
			w.advance(w.D, nil, w.R)
		}
		w.dpc = "idle"
	case s.A == "HalfClose":
		if w.peerCl || w.dpc != "idle" {
			return true, ""
		}
		w.as.Close()
		for k := 0; k < 4000 && len(w.pair.A.sendCh) > 0; k++ {
			time.Sleep(50 * time.Microsecond)
		}
		w.env("deliver-close", nil, func() { w.pair.deliver(w.pair.B) })
		w.peerCl = true
	case s.A == "CloseCAS":
		if w.cpc != "idle" {
			return true, ""
		}
		var r string
		w.C, r = w.env("closer", []string{blkLblClear}, func() { w.bs.Close() })
		if strings.HasPrefix(r, "gate:") {
			w.cpc = "mid"
		} else {
			w.cpc = "done"
		}
	case s.A == "CloseCb":
		if !w.sc.Cb || w.cpc != "idle" || w.R == nil {
			return true, ""
		}
		w.C, _ = w.env("closer", nil, func() { w.bs.Close() })
		w.cpc = "done"
		w.cbClosed = true
	case s.A == "CloseFin":
		if w.cpc != "mid" {
			return true, ""
		}
		w.advance(w.C, nil, w.R)
		w.cpc = "done"
	case s.A == "SessNotify":
		if w.sess != "up" {
			return true, ""
		}
		w.env("session-close", nil, func() {
			if w.sc.PeerDied {
				w.pair.B.onRemoteClose()
			} else {
				w.pair.B.Close()
			}
		})
		w.sess = "notified"
	case s.A == "SessLambda":
		if w.sess != "notified" || w.dpc != "idle" || w.sc.Cb {
			return true, ""
		}
		w.env("session-teardown", nil, func() { w.pair.dispB.run() })
		w.sess = "down"
	case s.A == "RTick":
		w.now++
		if w.near && w.now >= w.dlTick && w.R != nil && !w.R.finished() {
			if time.Until(w.deadline) < time.Millisecond {
				return false, "real deadline passed before the tick that lets it pass"
			}
			w.near = false
			g := vsGateArm(blkLblMove, 1)
			was, _ := w.R.blocked()
			time.Sleep(time.Until(w.deadline) + 3*time.Millisecond)
			if was {
				t0 := time.Now()
				for time.Since(t0) < w.bound {
					if b, _ := w.R.blocked(); !b {
						break
					}
					time.Sleep(500 * time.Microsecond)
				}
				if b, st := w.R.blocked(); b {
					w.fail("blocked-forever", fmt.Sprintf("reader (ReadBytes(%d), goroutine state %q in Stream.readMore) is still "+
						"blocked %v after its read deadline", w.sc.Need, st, time.Since(w.deadline)))
				} else {
					w.waitThr(w.R, []*vsGateT{g}, []string{blkLblMove})
					w.res.Releases++
					if us := time.Since(w.deadline).Microseconds(); us > w.res.MaxReleaseUs {
						w.res.MaxReleaseUs = us
					}
				}
			}
			if g != w.R.gate {
				g.releaseGate()
			}
		}
	default:
		return true, "" // TimerFire and other internal steps are not the harness's to take
	}
	return false, ""
}

func blkRunRead(job *blkJob, sc *blkSched, res *blkResult) blkRun {
	run := blkRun{Name: sc.Name, Events: []blkEvent{}}
	for attempt := 0; attempt < 3; attempt++ {
		run.Attempts = attempt + 1
		run.Events = run.Events[:0]
		run.Skipped = 0
		run.Timing = ""
		w := &blkReadWorld{blkWorld: &blkWorld{res: res, job: job, sc: sc, bound: time.Duration(job.BoundMs) * time.Millisecond},
			tickD: time.Duration(job.TickMs<<(2*uint(attempt))) * time.Millisecond}
		vsReset(vsGate)
		if err := w.setup(); err != nil {
			res.Inconclusive = append(res.Inconclusive, sc.Name+": setup: "+err.Error())
			w.teardown()
			return run
		}
		run.Events = append(run.Events, blkEvent{A: "Init", Obs: w.obs()})
		for i, s := range sc.Steps {
			w.at = i
			wasBlocked := false
			if sc.Eager && w.R != nil && !w.R.finished() && w.R.gate == nil {
				wasBlocked, _ = w.R.blocked()
			}
			skipped, timing := w.step(i, s)
			if timing != "" {
				run.Timing = timing
				break
			}
			if skipped {
				run.Skipped++
				continue
			}
			res.Steps++
			res.Actions[s.A]++
			w.syncR()
			if wasBlocked && !strings.HasPrefix(s.A, "R") {
				// eager reader: woken by this event, it runs on until it blocks again or returns
				for k := 0; k < 12 && w.R.gate != nil && w.viol == nil; k++ {
					w.advanceR()
					w.syncR()
				}
			}
			w.checkBlocked()
			w.syncR()
			if w.timingBad != "" {
				run.Timing = w.timingBad
				break
			}
			run.Events = append(run.Events, blkEvent{A: s.A, K: s.K, Obs: w.obs()})
			if w.viol != nil || w.inc != "" {
				break
			}
			if sc.Cb && w.R != nil && w.R.finished() {
				break // callback mode: the behaviour ends with the read
			}
		}
		if sc.Cb && w.R != nil && w.R.finished() && w.R.gate != nil {
			// the gate caught the callback goroutine on its way on after OnData: not part of the read
			w.R.gate.releaseGate()
			w.R.gate, w.R.kind = nil, ""
		}
		if w.viol == nil && w.inc == "" && run.Timing == "" && w.R != nil && w.R.gate != nil {
			// let a reader parked at a gate run on: it must return or block legitimately
			for k := 0; k < 12 && w.R.gate != nil; k++ {
				w.advanceR()
				w.syncR()
			}
			w.checkBlocked()
			w.syncR()
			run.Events = append(run.Events, blkEvent{A: "R_run", Obs: w.obs()})
		}
		w.teardown()
		run.Eos = w.eosDetail
		if w.viol != nil {
			res.Violations = append(res.Violations, *w.viol)
		}
		if w.inc != "" {
			res.Inconclusive = append(res.Inconclusive, w.inc)
		}
		if run.Timing == "" {
			break
		}
		res.TimingRetry++
	}
	return run
}

func TestVS_Blocking(t *testing.T) {
	in := os.Getenv("VS_IN_JOB")
	if in == "" {
		t.Skip("VS_IN_JOB not set")
	}
	raw, err := os.ReadFile(in)
	if err != nil {
		t.Fatal(err)
	}
	var job blkJob
	if err := json.Unmarshal(raw, &job); err != nil {
		t.Fatal(err)
	}
	level = levelNoPrint
	if job.BoundMs == 0 {
		job.BoundMs = 10000
	}
	if job.TickMs == 0 {
		job.TickMs = 150
	}
	res := &blkResult{Runs: []blkRun{}, Violations: []blkViolation{}, Inconclusive: []string{}, Scenarios: []blkScenario{},
		Returns: map[string]int{}, Actions: map[string]int{}}
	defer func() {
		vsReset(vsOff)
		out, _ := json.Marshal(res)
		os.WriteFile(os.Getenv("VS_OUT"), out, 0o644)
	}()
	for i := range job.Schedules {
		sc := &job.Schedules[i]
		t0 := time.Now()
		switch sc.Mode {
		case "read":
			res.Runs = append(res.Runs, blkRunRead(&job, sc, res))
		case "flush":
			res.Runs = append(res.Runs, blkRunFlush(&job, sc, res))
		case "accept":
			res.Runs = append(res.Runs, blkRunAccept(&job, sc, res))
		case "send":
			res.Runs = append(res.Runs, blkRunSend(&job, sc, res))
		case "init":
			res.Runs = append(res.Runs, blkRunInit(&job, sc, res))
		}
		if n := len(res.Runs); n > 0 {
			res.Runs[n-1].WallMs = time.Since(t0).Milliseconds()
		}
		if len(res.Violations) >= 5 {
			break
		}
	}
	_ = net.Pipe
	_ = syscall.EPIPE
}

// ================================================================= mode "flush"

type blkFlushWorld struct {
	*blkWorld
	pair      *vpPair
	as, bs    *Stream // the stream under test: client end (the flusher's) and server end
	hs        *Stream // helper stream used to fill the queue
	F         *blkThr
	seq       int
	now       int
	deadline  time.Time
	near      bool
	lastRes   string
	lastErr   error
	retAt     time.Time
	startAt   time.Time
	puts      int
	seenGate  *vsGateT
	done      bool
	tickD     time.Duration
	sessCl    bool
	timingBad string
}

func (w *blkFlushWorld) setup() error {
	var err error
	if w.pair, err = blkNewPair(w.sc.QCap); err != nil {
		return err
	}
	p := w.pair
	if w.as, err = p.A.OpenStream(); err != nil {
		return err
	}
	if err = blkSend(p, w.as, 1, &w.seq); err != nil {
		return err
	}
	if err = p.settle(); err != nil {
		return err
	}
	if len(p.newStreamsB) != 1 {
		return fmt.Errorf("server end did not surface the stream")
	}
	w.bs = p.newStreamsB[0]
	if w.hs, err = p.A.OpenStream(); err != nil {
		return err
	}
	for i := 0; i < w.sc.Preload; i++ {
		if err = blkSend(p, w.hs, 1, &w.seq); err != nil {
			return fmt.Errorf("preload %d: %v", i, err)
		}
	}
	w.lastRes = "none"
	return nil
}

func (w *blkFlushWorld) obs() blkObs {
	pos := "idle"
	if w.F != nil && !w.F.finished() {
		pos = "run"
		if w.F.gate != nil {
			pos = "put"
		}
	}
	return blkObs{"pos": pos, "res": w.lastRes, "qn": int(w.pair.A.sendQueue().size()), "st": blkStateName(w.as.getStreamState()),
		"cls": blkClosed(w.as.closeNotifyCh), "try": w.puts - 1, "now": w.now}
}

func (w *blkFlushWorld) syncF() {
	if w.F == nil {
		return
	}
	if w.F.gate != nil && w.F.gate != w.seenGate {
		w.seenGate = w.F.gate
		w.puts++
	}
	if w.F.finished() && !w.done {
		w.done = true
		w.lastRes = blkErrName(w.lastErr)
		if w.lastRes == "timeout" && w.near && w.now < w.sc.WDeadline && !w.retAt.Before(w.deadline) {
			w.timingBad = "real write deadline passed while the schedule's clock was still before it"
		}
		w.res.Returns["flush:"+w.lastRes]++
		switch w.lastRes {
		case "nil", "queuefull":
		case "timeout":
			if w.deadline.IsZero() {
				w.fail("timeout-without-deadline", "Flush returned ErrTimeout although the stream has no write deadline")
			} else if w.retAt.Before(w.deadline) {
				w.fail("timeout-early", fmt.Sprintf("Flush returned ErrTimeout %v BEFORE its write deadline", w.deadline.Sub(w.retAt)))
			}
		case "closed":
			if w.as.getStreamState() == uint32(streamOpened) && !blkClosed(w.as.closeNotifyCh) {
				w.fail("error-without-cause", "Flush returned ErrStreamClosed on an open stream of a live session")
			}
		default:
			w.fail("unexpected-result", "Flush returned "+w.lastRes)
		}
		if w.F.panicV != nil {
			w.fail("panic", fmt.Sprintf("Flush panicked: %v", w.F.panicV))
		}
	}
}

func (w *blkFlushWorld) ticksAhead(from int) bool {
	now := w.now
	for i := from; i < len(w.sc.Steps); i++ {
		if w.sc.Steps[i].A == "FTick" {
			now++
			if now >= w.sc.WDeadline {
				return true
			}
		}
	}
	return false
}

func (w *blkFlushWorld) step(i int, s blkStep) (bool, string) {
	if w.near && w.now < w.sc.WDeadline && w.F != nil && !w.F.finished() && time.Until(w.deadline) < 3*time.Millisecond {
		return false, fmt.Sprintf("real write deadline reached before step %d", i)
	}
	switch s.A {
	case "FStart":
		if w.F != nil {
			return true, ""
		}
		switch {
		case w.sc.WDeadline == 0:
			w.deadline = time.Time{}
		case w.sc.WDeadline <= w.now:
			w.deadline = time.Now().Add(-time.Millisecond)
		case w.ticksAhead(i + 1):
			w.deadline = time.Now().Add(w.tickD)
			w.near = true
		default:
			w.deadline = time.Now().Add(time.Hour)
		}
		w.as.SetWriteDeadline(w.deadline)
		if _, err := w.as.BufferWriter().WriteBytes([]byte{1, 2}); err != nil {
			w.inc = "WriteBytes: " + err.Error()
			return true, ""
		}
		w.F = blkSpawn("flusher", "", func() {
			w.startAt = time.Now()
			w.lastErr = w.as.Flush(false)
			w.retAt = time.Now()
		})
		w.advance(w.F, []string{blkLblPut})
	case "FAttempt":
		if w.F == nil || w.F.finished() || w.F.gate == nil {
			return true, ""
		}
		w.advance(w.F, []string{blkLblPut})
	case "Consume":
		th := blkSpawn("deliver", "", func() { w.pair.deliver(w.pair.B) })
		w.advance(th, nil)
	case "FHalfClose":
		w.bs.Close()
		for k := 0; k < 4000 && len(w.pair.B.sendCh) > 0; k++ {
			time.Sleep(50 * time.Microsecond)
		}
		th := blkSpawn("deliver-close", "", func() { w.pair.deliver(w.pair.A) })
		w.advance(th, nil)
	case "FSessClose":
		if w.sessCl {
			return true, ""
		}
		w.sessCl = true
		th := blkSpawn("session-close", "", func() { w.pair.A.Close() })
		w.advance(th, nil)
	case "FTick":
		w.now++
		if w.near && w.now >= w.sc.WDeadline && w.F != nil && !w.F.finished() {
			if time.Until(w.deadline) < time.Millisecond {
				return false, "real write deadline passed before the tick that lets it pass"
			}
			w.near = false
			time.Sleep(time.Until(w.deadline) + 3*time.Millisecond)
		}
	default:
		return true, "" // FWaitTimer / FWaitDeadline / FWaitClosed happen inside the released stretch
	}
	return false, ""
}

func blkRunFlush(job *blkJob, sc *blkSched, res *blkResult) blkRun {
	run := blkRun{Name: sc.Name, Events: []blkEvent{}}
	for attempt := 0; attempt < 3; attempt++ {
		run.Attempts = attempt + 1
		run.Events = run.Events[:0]
		run.Skipped = 0
		run.Timing = ""
		w := &blkFlushWorld{blkWorld: &blkWorld{res: res, job: job, sc: sc, bound: time.Duration(job.BoundMs) * time.Millisecond},
			tickD: time.Duration(job.TickMs<<(2*uint(attempt))) * time.Millisecond}
		vsReset(vsGate)
		if err := w.setup(); err != nil {
			res.Inconclusive = append(res.Inconclusive, sc.Name+": setup: "+err.Error())
			if w.pair != nil {
				w.pair.destroy()
			}
			return run
		}
		run.Events = append(run.Events, blkEvent{A: "Init", Obs: w.obs()})
		for i, s := range sc.Steps {
			w.at = i
			skipped, timing := w.step(i, s)
			if timing != "" {
				run.Timing = timing
				break
			}
			if skipped {
				run.Skipped++
				continue
			}
			res.Steps++
			res.Actions[s.A]++
			w.syncF()
			if w.timingBad != "" {
				run.Timing = w.timingBad
				break
			}
			run.Events = append(run.Events, blkEvent{A: s.A, K: s.K, Obs: w.obs()})
			if w.viol != nil || w.inc != "" {
				break
			}
		}
		// O1 for Flush: whatever the environment did or did not do, the call returns (the queue may stay full for ever)
		if w.F != nil && !w.F.finished() && w.viol == nil && w.inc == "" {
			t0 := time.Now()
			for k := 0; k < 14 && !w.F.finished(); k++ {
				r := w.advance(w.F, []string{blkLblPut})
				w.syncF()
				if r == "stuck" {
					break
				}
			}
			if !w.F.finished() {
				st, _ := blkStatus(atomic.LoadInt64(&w.F.gid))
				w.inc = ""
				w.fail("blocked-forever", fmt.Sprintf("Flush did not return within %v and %d further put attempts after the schedule ended "+
					"(goroutine state %q)", time.Since(t0), 14, st))
			} else if run.Timing == "" {
				run.Events = append(run.Events, blkEvent{A: "W_run", Obs: w.obs()})
			}
		}
		vsReset(vsOff)
		if w.F != nil && w.F.gate != nil {
			w.F.gate.releaseGate()
		}
		alive := false
		if w.F != nil && !w.F.finished() {
			// never unmap the queue under a Flush that is still running: let it go through the close arm, else leak the pair
			w.as.safeCloseNotify()
			select {
			case <-w.F.done:
			case <-time.After(3 * time.Second):
				alive = true
			}
		}
		if !alive {
			w.pair.destroy()
		}
		if w.viol != nil {
			res.Violations = append(res.Violations, *w.viol)
		}
		if w.inc != "" {
			res.Inconclusive = append(res.Inconclusive, w.inc)
		}
		if run.Timing == "" {
			break
		}
		res.TimingRetry++
	}
	return run
}

// ================================================================= mode "accept"

type blkAcceptWorld struct {
	*blkWorld
	pair    *vpPair
	Acc     *blkThr
	lastRes string
	lastErr error
	lastStr *Stream
	done    bool
	seq     int
	closed  bool
}

func (w *blkAcceptWorld) obs() blkObs {
	pos := "idle"
	if w.Acc != nil && !w.Acc.finished() {
		pos = "run"
		if b, _ := w.Acc.blocked(); b {
			pos = "sel"
		}
	}
	sess := "up"
	if w.pair.B.IsClosed() {
		sess = "closed"
	}
	return blkObs{"pos": pos, "res": w.lastRes, "backlog": len(w.pair.B.acceptCh), "sess": sess}
}

func (w *blkAcceptWorld) sync() {
	if w.Acc == nil {
		return
	}
	if w.Acc.finished() && !w.done {
		w.done = true
		if w.lastErr == nil {
			w.lastRes = "stream"
			if w.lastStr == nil {
				w.fail("nil-without-data", "AcceptStream returned nil stream and nil error")
			}
		} else {
			w.lastRes = "shutdown"
			if !w.pair.B.IsClosed() {
				w.fail("error-without-cause", "AcceptStream returned error "+w.lastErr.Error()+" on a live session")
			}
		}
		w.res.Returns["accept:"+w.lastRes]++
		if w.Acc.panicV != nil {
			w.fail("panic", fmt.Sprintf("AcceptStream panicked: %v", w.Acc.panicV))
		}
		return
	}
	if b, st := w.Acc.blocked(); b {
		w.res.BlockedObs++
		why := ""
		if len(w.pair.B.acceptCh) > 0 {
			why = fmt.Sprintf("%d stream(s) wait in the accept backlog", len(w.pair.B.acceptCh))
		} else if w.pair.B.IsClosed() {
			why = "the session is shut down"
		}
		if why != "" {
			t0 := time.Now()
			for time.Since(t0) < w.bound {
				if b, _ := w.Acc.blocked(); !b {
					w.waitThr(w.Acc, nil, nil)
					w.sync()
					return
				}
				time.Sleep(2 * time.Millisecond)
			}
			w.fail("blocked-forever", fmt.Sprintf("AcceptStream (goroutine state %q) still blocked %v after: %s", st, w.bound, why))
		}
	}
}

func blkRunAccept(job *blkJob, sc *blkSched, res *blkResult) blkRun {
	run := blkRun{Name: sc.Name, Events: []blkEvent{}, Attempts: 1}
	w := &blkAcceptWorld{blkWorld: &blkWorld{res: res, job: job, sc: sc, bound: time.Duration(job.BoundMs) * time.Millisecond}}
	vsReset(vsGate)
	var err error
	if w.pair, err = blkNewPair(8); err != nil {
		res.Inconclusive = append(res.Inconclusive, sc.Name+": setup: "+err.Error())
		return run
	}
	w.pair.B.config.listenCallback = nil
	w.lastRes = "none"
	run.Events = append(run.Events, blkEvent{A: "Init", Obs: w.obs()})
	for i, s := range sc.Steps {
		w.at = i
		switch s.A {
		case "AStart":
			w.Acc = blkSpawn("acceptor", "AcceptStream", func() { w.lastStr, w.lastErr = w.pair.B.AcceptStream() })
			w.advance(w.Acc, nil)
		case "NewStream":
			st, err := w.pair.A.OpenStream()
			if err == nil {
				err = blkSend(w.pair, st, 1, &w.seq)
			}
			if err != nil {
				w.inc = "peer could not open/flush a stream: " + err.Error()
				break
			}
			th := blkSpawn("deliver", "", func() { w.pair.deliver(w.pair.B) })
			w.advance(th, nil, w.Acc)
		case "ASessClose":
			th := blkSpawn("session-close", "", func() { w.pair.B.Close() })
			w.advance(th, nil, w.Acc)
			w.closed = true
		default:
			run.Skipped++
			continue
		}
		res.Steps++
		res.Actions[s.A]++
		w.sync()
		run.Events = append(run.Events, blkEvent{A: s.A, K: s.K, Obs: w.obs()})
		if w.viol != nil || w.inc != "" {
			break
		}
	}
	vsReset(vsOff)
	if !w.closed {
		w.pair.B.Close() // lets a legitimately blocked acceptor go
	}
	if w.Acc != nil {
		select {
		case <-w.Acc.done:
		case <-time.After(w.bound):
			w.fail("blocked-forever", "AcceptStream did not return after Session.Close")
		}
	}
	w.pair.destroy()
	if w.viol != nil {
		res.Violations = append(res.Violations, *w.viol)
	}
	if w.inc != "" {
		res.Inconclusive = append(res.Inconclusive, w.inc)
	}
	return run
}

// ================================================================= mode "send"

// blkConn: the event connection of the session under test. It records what is written like vpConn, and can behave like
// a socket whose peer has stopped reading (send buffer full): write then waits exactly like connEventHandler.write
// waits for EPOLLOUT (onWriteReadyCh) and fails with EPIPE once the connection is closed.
type blkConn struct {
	*vpConn
	mu       sync.Mutex
	blocked  bool
	wake     chan struct{}
	closedCh chan struct{}
	once     sync.Once
	inWrite  int32
	payloads int32 // writes that carried the waiter's marker
}

func (c *blkConn) write(data []byte) error {
	atomic.AddInt32(&c.inWrite, 1)
	defer atomic.AddInt32(&c.inWrite, -1)
	for {
		c.mu.Lock()
		b, ch := c.blocked, c.wake
		c.mu.Unlock()
		select {
		case <-c.closedCh:
			return syscall.EPIPE
		default:
		}
		if !b {
			break
		}
		select {
		case <-ch:
		case <-c.closedCh:
			return syscall.EPIPE
		}
	}
	if len(data) == 7 && string(data) == "blkmine" {
		atomic.AddInt32(&c.payloads, 1)
	}
	return c.vpConn.write(data)
}
func (c *blkConn) writev(data ...[]byte) error {
	for _, d := range data {
		if err := c.write(d); err != nil {
			return err
		}
	}
	return nil
}
func (c *blkConn) close() error {
	c.once.Do(func() { close(c.closedCh) })
	return c.vpConn.close()
}
func (c *blkConn) setBlocked(b bool) {
	c.mu.Lock()
	c.blocked = b
	close(c.wake)
	c.wake = make(chan struct{})
	c.mu.Unlock()
}

type blkSendWorld struct {
	*blkWorld
	pair    *vpPair
	conn    *blkConn
	W, K    *blkThr
	ks      *Stream
	now     int
	sess    string
	wblk    bool
	wRes    string
	wErr    error
	wStart  time.Time
	wRet    time.Time
	wDone   bool
	kDone   bool
	kErr    error
	cwt     time.Duration
	near    bool
	timingB string
	kStuck  bool
}

func (w *blkSendWorld) setup() error {
	var err error
	if w.pair, err = blkNewPair(8); err != nil {
		return err
	}
	s := w.pair.A
	w.conn = &blkConn{vpConn: w.pair.connA, wake: make(chan struct{}), closedCh: make(chan struct{}), blocked: true}
	s.eventConn = w.conn
	s.config.ConnectionWriteTimeout = w.cwt
	w.sess, w.wblk, w.wRes = "up", true, "none"
	if w.ks, err = s.OpenStream(); err != nil {
		return err
	}
	// the send loop takes a foreign entry and blocks in the write (the peer does not read)
	s.sendCh <- sendReady{Body: pollingEventWithVersion[s.communicationVersion]}
	for k := 0; atomic.LoadInt32(&w.conn.inWrite) == 0; k++ {
		if k > 20000 {
			return fmt.Errorf("send loop did not reach the blocked write")
		}
		time.Sleep(100 * time.Microsecond)
	}
	// SPre foreign entries wait; fillers make the real free capacity equal to the specification's (SCap - SPre)
	n := cap(s.sendCh) - w.sc.SCap + w.sc.SPre
	for i := 0; i < n; i++ {
		s.sendCh <- sendReady{Body: pollingEventWithVersion[s.communicationVersion]}
	}
	return nil
}

func (w *blkSendWorld) tpos(th *blkThr) string {
	if th == nil {
		return "idle"
	}
	if th.finished() {
		return "done"
	}
	if b, _ := th.blocked(); b {
		return "blocked"
	}
	return "run"
}

func (w *blkSendWorld) obs() blkObs {
	s := w.pair.A
	wp := w.tpos(w.W)
	if wp == "done" {
		wp = "idle"
	}
	kp := w.tpos(w.K)
	if kp == "done" && w.kErr != nil {
		kp = "shut"
	}
	return blkObs{"wpos": wp, "res": w.wRes, "kpos": kp, "full": len(s.sendCh) == cap(s.sendCh), "sess": w.sess,
		"wblk": w.wblk, "now": w.now}
}

func (w *blkSendWorld) sync() {
	if w.W != nil && w.W.finished() && !w.wDone {
		w.wDone = true
		switch {
		case w.wErr == nil:
			w.wRes = "nil"
			if atomic.LoadInt32(&w.conn.payloads) == 0 {
				w.fail("nil-without-data", "waitForSend returned nil although its data was not written to the connection")
			}
		case w.wErr == ErrConnectionWriteTimeout:
			w.wRes = "timeout"
			if w.wRet.Sub(w.wStart) < w.cwt {
				w.fail("timeout-early", fmt.Sprintf("waitForSend returned ErrConnectionWriteTimeout after %v, ConnectionWriteTimeout is %v",
					w.wRet.Sub(w.wStart), w.cwt))
			} else if w.near && w.now < w.sc.CWT {
				w.timingB = "real write timeout passed while the schedule's clock was still before it"
			}
		case w.wErr == syscall.EPIPE:
			w.wRes = "writeerr"
		default:
			w.wRes = "shutdown"
			if !w.pair.A.IsClosed() {
				w.fail("error-without-cause", "waitForSend returned "+w.wErr.Error()+" on a live session")
			}
		}
		w.res.Returns["send:"+w.wRes]++
		if w.W.panicV != nil {
			w.fail("panic", fmt.Sprintf("waitForSend panicked: %v", w.W.panicV))
		}
	}
	if w.K != nil && w.K.finished() && !w.kDone {
		w.kDone = true
		w.res.Returns["wakeup:"+blkErrName(w.kErr)]++
		if w.kErr != nil && !w.pair.A.IsClosed() {
			w.fail("error-without-cause", "Flush (slow path of wakeUpPeer) returned "+w.kErr.Error()+" on a live session")
		}
	}
}

// quiesce: wait until W and K are finished or blocked, and the send loop has done what it can
func (w *blkSendWorld) quiesce() {
	s := w.pair.A
	t0 := time.Now()
	stable := 0
	last := -1
	for time.Since(t0) < w.bound {
		ok := true
		for _, th := range []*blkThr{w.W, w.K} {
			if th != nil && !th.finished() {
				if b, _ := th.blocked(); !b {
					ok = false
				}
			}
		}
		n := len(s.sendCh)
		loopBusy := atomic.LoadInt32(&w.conn.inWrite) > 0 && !(w.wblk && w.sess != "down")
		if ok && !loopBusy && n == last {
			stable++
			if stable >= 3 {
				return
			}
		} else {
			stable = 0
		}
		last = n
		time.Sleep(300 * time.Microsecond)
	}
}

func (w *blkSendWorld) ticksAhead(from int) bool {
	now := w.now
	for i := from; i < len(w.sc.Steps); i++ {
		if w.sc.Steps[i].A == "STick" {
			now++
			if now >= w.sc.CWT {
				return true
			}
		}
	}
	return false
}

func (w *blkSendWorld) step(i int, s blkStep) (bool, string) {
	if w.near && w.now < w.sc.CWT && w.W != nil && !w.W.finished() && time.Until(w.wStart.Add(w.cwt)) < 3*time.Millisecond {
		return false, fmt.Sprintf("real write timeout reached before step %d", i)
	}
	switch s.A {
	case "SStart":
		if w.W != nil {
			return true, ""
		}
		w.near = w.ticksAhead(i + 1)
		if !w.near {
			// the schedule never lets the timeout pass: make it far away
			w.pair.A.config.ConnectionWriteTimeout = time.Hour
			w.cwt = time.Hour
		}
		w.W = blkSpawn("sender", "waitForSendErr", func() {
			w.wStart = time.Now()
			w.wErr = w.pair.A.waitForSend(nil, []byte("blkmine"))
			w.wRet = time.Now()
		})
		w.W.start()
	case "KStart":
		if w.K != nil || atomic.LoadInt32(&w.conn.inWrite) == 0 {
			return true, ""
		}
		if w.sess == "down" {
			return true, "" // the teardown has closed the stream: Flush fails at its entry, wakeUpPeer is not reached
		}
		ks := w.ks
		ks.BufferWriter().WriteBytes([]byte{7})
		w.K = blkSpawn("flusher", "wakeUpPeer", func() { w.kErr = ks.Flush(false) })
		w.K.start()
	case "SUnblock":
		if !w.wblk {
			return true, ""
		}
		w.wblk = false
		w.conn.setBlocked(false)
	case "SSessClose":
		if w.sess != "up" {
			return true, ""
		}
		w.pair.A.Close()
		w.sess = "closed"
	case "SSessLambda":
		if w.sess != "closed" {
			return true, ""
		}
		w.pair.dispA.run()
		w.sess = "down"
		w.wblk = false
	case "STick":
		w.now++
		if w.near && w.now >= w.sc.CWT && w.W != nil && !w.W.finished() {
			dl := w.wStart.Add(w.cwt)
			if time.Until(dl) < time.Millisecond {
				return false, "real write timeout passed before the tick that lets it pass"
			}
			w.near = false
			time.Sleep(time.Until(dl) + 3*time.Millisecond)
			// O1: the timer arm is always there - the call must be back within the bound
			select {
			case <-w.W.done:
			case <-time.After(w.bound):
				st, _ := blkStatus(atomic.LoadInt64(&w.W.gid))
				w.fail("blocked-forever", fmt.Sprintf("waitForSend (goroutine state %q) still blocked %v after ConnectionWriteTimeout", st, w.bound))
			}
		}
	default:
		return true, "" // steps of the send loop and of the waiters themselves
	}
	w.quiesce()
	return false, ""
}

func blkRunSend(job *blkJob, sc *blkSched, res *blkResult) blkRun {
	run := blkRun{Name: sc.Name, Events: []blkEvent{}}
	for attempt := 0; attempt < 3; attempt++ {
		run.Attempts = attempt + 1
		run.Events = run.Events[:0]
		run.Skipped = 0
		run.Timing = ""
		w := &blkSendWorld{blkWorld: &blkWorld{res: res, job: job, sc: sc, bound: time.Duration(job.BoundMs) * time.Millisecond},
			cwt: time.Duration(job.TickMs<<(2*uint(attempt))) * 2 * time.Millisecond}
		vsReset(vsOff)
		if err := w.setup(); err != nil {
			res.Inconclusive = append(res.Inconclusive, sc.Name+": setup: "+err.Error())
			return run
		}
		run.Events = append(run.Events, blkEvent{A: "Init", Obs: w.obs()})
		for i, s := range sc.Steps {
			w.at = i
			skipped, timing := w.step(i, s)
			if timing != "" {
				run.Timing = timing
				break
			}
			if skipped {
				run.Skipped++
				continue
			}
			res.Steps++
			res.Actions[s.A]++
			w.sync()
			if w.timingB != "" {
				run.Timing = w.timingB
				break
			}
			run.Events = append(run.Events, blkEvent{A: s.A, K: s.K, Obs: w.obs()})
			if w.viol != nil || w.inc != "" {
				break
			}
		}
		// end of schedule: the session dies if it has not yet; afterwards nobody may stay blocked
		if w.viol == nil && run.Timing == "" {
			if w.sess == "up" {
				w.pair.A.Close()
				w.sess = "closed"
			}
			if w.sess == "closed" {
				w.pair.dispA.run()
				w.sess = "down"
				w.wblk = false
			}
			w.quiesce()
			w.sync()
			if w.W != nil && !w.W.finished() {
				select {
				case <-w.W.done:
					w.sync()
				case <-time.After(w.bound):
					st, _ := blkStatus(atomic.LoadInt64(&w.W.gid))
					w.fail("blocked-forever", fmt.Sprintf("waitForSend (goroutine state %q) still blocked %v after the session was closed and torn down", st, w.bound))
				}
			}
			if w.K != nil && !w.K.finished() {
				// the send loop needs no more than milliseconds to drain or leave; give the blocked sender 1.5 s
				t0 := time.Now()
				for time.Since(t0) < 1500*time.Millisecond && !w.K.finished() {
					time.Sleep(2 * time.Millisecond)
				}
				if !w.K.finished() {
					b, st := w.K.blocked()
					detail := fmt.Sprintf("Stream.Flush is blocked for ever in the slow path of Session.wakeUpPeer (goroutine state %q, blocked=%v): "+
						"sendCh is full (%d/%d), the session is closed and torn down, the send loop has exited, nothing will ever "+
						"receive from sendCh", st, b, len(w.pair.A.sendCh), cap(w.pair.A.sendCh))
					w.kStuck = true
					res.WakeStuck++
					if res.WakeWitness == "" {
						js, _ := json.Marshal(sc.Steps)
						res.WakeWitness = sc.Name + ": " + detail + "; steps " + string(js)
					}
					w.fail("blocked-forever", detail)
					// free the goroutine
					for len(w.pair.A.sendCh) > 0 {
						<-w.pair.A.sendCh
					}
				}
			}
		}
		w.conn.setBlocked(false)
		for _, th := range []*blkThr{w.W, w.K} {
			if th != nil {
				select {
				case <-th.done:
				case <-time.After(2 * time.Second):
				}
			}
		}
		w.pair.destroy()
		if w.viol != nil {
			res.Violations = append(res.Violations, *w.viol)
		}
		if w.inc != "" {
			res.Inconclusive = append(res.Inconclusive, w.inc)
		}
		if run.Timing == "" {
			break
		}
		res.TimingRetry++
	}
	return run
}

// ================================================================= mode "init" (handshake)

var blkInitCounter uint64

type blkInitWorld struct {
	*blkWorld
	peer     *net.UnixConn // the scripted peer's end of a real unix socketpair
	under    net.Conn      // handed to newSession
	T        *blkThr
	sess     *Session
	err      error
	k        int
	peerSt   string
	res      string
	now      int
	it       time.Duration
	startAt  time.Time
	retAt    time.Time
	near     bool
	done     bool
	timingB  string
	isClient bool
}

func blkSocketpair() (*net.UnixConn, *net.UnixConn, error) {
	fds, err := syscall.Socketpair(syscall.AF_UNIX, syscall.SOCK_STREAM, 0)
	if err != nil {
		return nil, nil, err
	}
	mk := func(fd int) (*net.UnixConn, error) {
		f := os.NewFile(uintptr(fd), "blk-sp")
		defer f.Close()
		c, err := net.FileConn(f)
		if err != nil {
			return nil, err
		}
		return c.(*net.UnixConn), nil
	}
	a, err := mk(fds[0])
	if err != nil {
		return nil, nil, err
	}
	b, err := mk(fds[1])
	if err != nil {
		return nil, nil, err
	}
	return a, b, nil
}

// reply k of the scripted SERVER peer (the client under test uses memfd): 0 answer the version exchange, 1 read the
// metadata event and say "ready for the descriptors", 2 receive the descriptors and acknowledge the share memory.
func (w *blkInitWorld) peerReply() error {
	p := w.peer
	p.SetDeadline(time.Now().Add(5 * time.Second))
	hdr := make([]byte, headerSize)
	out := header(make([]byte, headerSize))
	switch w.k {
	case 0:
		if _, err := blkReadFull(p, hdr); err != nil {
			return err
		}
		out.encode(headerSize, maxSupportProtoVersion, typeExchangeProtoVersion)
	case 1:
		if _, err := blkReadFull(p, hdr); err != nil {
			return err
		}
		body := make([]byte, header(hdr).Length()-headerSize)
		if _, err := blkReadFull(p, body); err != nil {
			return err
		}
		out.encode(headerSize, maxSupportProtoVersion, typeAckReadyRecvFD)
	case 2:
		oob := make([]byte, syscall.CmsgSpace(memfdCount*memfdDataLen))
		_, oobn, _, _, err := p.ReadMsgUnix(nil, oob)
		if err != nil {
			return err
		}
		if msgs, err := syscall.ParseSocketControlMessage(oob[:oobn]); err == nil && len(msgs) > 0 {
			if fds, err := syscall.ParseUnixRights(&msgs[0]); err == nil {
				for _, fd := range fds {
					syscall.Close(fd)
				}
			}
		}
		out.encode(headerSize, maxSupportProtoVersion, typeAckShareMemory)
	}
	_, err := p.Write(out)
	return err
}

func blkReadFull(c net.Conn, b []byte) (int, error) {
	n := 0
	for n < len(b) {
		m, err := c.Read(b[n:])
		n += m
		if err != nil {
			return n, err
		}
	}
	return n, nil
}

func (w *blkInitWorld) obs() blkObs {
	pos := "idle"
	if w.T != nil {
		pos = "run"
		if w.T.finished() {
			pos = "done"
		} else if b, _ := w.T.blocked(); b {
			pos = "blocked"
		}
	}
	return blkObs{"pos": pos, "res": w.res, "k": w.k, "peer": w.peerSt, "now": w.now}
}

func (w *blkInitWorld) sync() {
	if w.T == nil || !w.T.finished() || w.done {
		return
	}
	w.done = true
	el := w.retAt.Sub(w.startAt)
	switch {
	case w.err == nil:
		w.res = "ok"
		if w.k < 3 {
			w.fail("nil-without-data", fmt.Sprintf("newSession succeeded although the peer had sent only %d of its 3 handshake messages", w.k))
		}
	case strings.Contains(w.err.Error(), "init timeout"):
		w.res = "timeout"
		if el < w.it {
			w.fail("timeout-early", fmt.Sprintf("newSession reported the initialization timeout after %v, InitializeTimeout is %v", el, w.it))
		} else if w.near && w.now < 1 {
			w.timingB = "real InitializeTimeout passed while the schedule's clock was still before it"
		}
	default:
		w.res = "err"
		if w.peerSt == "up" {
			w.fail("error-without-cause", "newSession failed with "+w.err.Error()+" although the peer neither stalled past the timeout nor closed")
		}
	}
	w.res2count()
	if w.T.panicV != nil {
		w.fail("panic", fmt.Sprintf("newSession panicked: %v", w.T.panicV))
	}
}

func (w *blkInitWorld) res2count() { w.blkWorld.res.Returns["init:"+w.res]++ }

func (w *blkInitWorld) waitT() {
	if w.T != nil && !w.T.finished() {
		w.waitThr(w.T, nil, nil)
	}
}

func (w *blkInitWorld) ticksAhead(from int) bool {
	for i := from; i < len(w.sc.Steps); i++ {
		if w.sc.Steps[i].A == "ITick" {
			return true
		}
	}
	return false
}

func blkRunInit(job *blkJob, sc *blkSched, res *blkResult) blkRun {
	run := blkRun{Name: sc.Name, Events: []blkEvent{}}
	for attempt := 0; attempt < 3; attempt++ {
		run.Attempts = attempt + 1
		run.Events = run.Events[:0]
		run.Skipped = 0
		run.Timing = ""
		w := &blkInitWorld{blkWorld: &blkWorld{res: res, job: job, sc: sc, bound: time.Duration(job.BoundMs) * time.Millisecond},
			it: time.Duration(job.TickMs<<(2*uint(attempt))) * 2 * time.Millisecond, peerSt: "up", res: "none", isClient: true}
		vsReset(vsOff)
		a, b, err := blkSocketpair()
		if err != nil {
			res.Inconclusive = append(res.Inconclusive, sc.Name+": socketpair: "+err.Error())
			return run
		}
		w.under, w.peer = a, b
		run.Events = append(run.Events, blkEvent{A: "Init", Obs: w.obs()})
		for i, s := range sc.Steps {
			w.at = i
			if w.near && w.now < 1 && w.T != nil && !w.T.finished() && time.Until(w.startAt.Add(w.it)) < 3*time.Millisecond {
				run.Timing = fmt.Sprintf("real InitializeTimeout reached before step %d", i)
				break
			}
			skipped := false
			switch s.A {
			case "IStart":
				n := atomic.AddUint64(&blkInitCounter, 1)
				conf := DefaultConfig()
				conf.MemMapType = MemMapTypeMemFd
				conf.ShareMemoryPathPrefix = fmt.Sprintf("/dev/shm/blk_c11_%d_%d", os.Getpid(), n)
				conf.QueuePath = fmt.Sprintf("/dev/shm/blk_c11_q_%d_%d", os.Getpid(), n)
				conf.ShareMemoryBufferCap = 1 << 20
				conf.LogOutput = nil
				w.near = w.ticksAhead(i + 1)
				if w.near {
					conf.InitializeTimeout = w.it
				} else {
					conf.InitializeTimeout = time.Hour
					w.it = time.Hour
				}
				w.T = blkSpawn("newSession", "initProtocol", func() {
					w.startAt = time.Now()
					w.sess, w.err = newSession(conf, w.under, true)
					w.retAt = time.Now()
				})
				w.startAt = time.Now()
				w.T.start()
				w.waitT()
			case "PeerReply":
				if w.T == nil || w.peerSt != "up" || w.k >= 3 {
					skipped = true
					break
				}
				if w.T.finished() {
					skipped = true // the call is over (timeout): nobody reads the peer's message any more
					break
				}
				if err := w.peerReply(); err != nil {
					w.inc = fmt.Sprintf("%s: scripted peer step %d: %v", sc.Name, w.k, err)
					break
				}
				w.k++
				// the client consumes the message and blocks on its next read (or finishes)
				time.Sleep(2 * time.Millisecond)
				w.waitT()
				if w.k < 3 {
					// let the handshake goroutine send its next message before the next step
					time.Sleep(3 * time.Millisecond)
				}
			case "PeerClose":
				if w.peerSt != "up" {
					skipped = true
					break
				}
				w.peer.Close()
				w.peerSt = "closed"
				if w.T != nil && !w.T.finished() {
					// O1: the peer is gone - newSession must come back (error or, if everything was already read, success)
					select {
					case <-w.T.done:
					case <-time.After(w.bound):
						st, _ := blkStatus(atomic.LoadInt64(&w.T.gid))
						w.fail("blocked-forever", fmt.Sprintf("newSession (goroutine state %q) still blocked %v after the peer closed the connection", st, w.bound))
					}
				}
			case "ITick":
				w.now++
				if w.near && w.T != nil && !w.T.finished() {
					dl := w.startAt.Add(w.it)
					if time.Until(dl) < time.Millisecond {
						run.Timing = "real InitializeTimeout passed before the tick that lets it pass"
						break
					}
					w.near = false
					time.Sleep(time.Until(dl) + 3*time.Millisecond)
					select {
					case <-w.T.done:
					case <-time.After(w.bound):
						st, _ := blkStatus(atomic.LoadInt64(&w.T.gid))
						w.fail("blocked-forever", fmt.Sprintf("newSession (goroutine state %q) still blocked %v after InitializeTimeout", st, w.bound))
					}
				}
			default:
				skipped = true
			}
			if run.Timing != "" {
				break
			}
			if skipped {
				run.Skipped++
				continue
			}
			res.Steps++
			res.Actions[s.A]++
			w.sync()
			if w.timingB != "" {
				run.Timing = w.timingB
				break
			}
			run.Events = append(run.Events, blkEvent{A: s.A, K: s.K, Obs: w.obs()})
			if w.viol != nil || w.inc != "" {
				break
			}
		}
		// end: the peer goes away; newSession must be back
		if w.peerSt == "up" {
			w.peer.Close()
			w.peerSt = "closed"
		}
		if w.T != nil {
			select {
			case <-w.T.done:
				w.sync()
			case <-time.After(w.bound):
				st, _ := blkStatus(atomic.LoadInt64(&w.T.gid))
				w.fail("blocked-forever", fmt.Sprintf("newSession (goroutine state %q) still blocked %v after the peer closed the connection", st, w.bound))
			}
			if w.sess != nil {
				w.sess.Close()
			}
		} else {
			w.under.Close()
		}
		if w.viol != nil {
			res.Violations = append(res.Violations, *w.viol)
		}
		if w.inc != "" {
			res.Inconclusive = append(res.Inconclusive, w.inc)
		}
		if run.Timing == "" {
			break
		}
		res.TimingRetry++
	}
	return run
}
