package shmipc

// Binding B2 for the Layout module (C03): every configuration TLC enumerated (one "B"/"Q" row each, carrying the
// geometry the specification predicts) is executed on the REAL createBufferManager / mappingBufferManager (plain
// []byte with guard bytes), on the REAL getGlobalBufferManager / getGlobalBufferManagerWithMemFd pair (file in
// /dev/shm, memfd; the peer maps the same file / a dup of the fd through the real mapping path) and on the REAL
// createQueueManager[WithMemFd] / mappingQueueManager[Memfd]. Property oracles (disjoint, in bounds, behind headers,
// peer sees the same, queues cross-wired) are evaluated on the real objects by pointer arithmetic, on the real free
// chain, and functionally through pop / readBufferSlice / push / put; they do not use the predicted numbers.
// The prediction is compared separately (conformance); a mismatch with intact oracles is spec drift.

import (
	"bufio"
	"encoding/json"
	"fmt"
	"math/rand"
	"os"
	"sort"
	"strconv"
	"strings"
	"testing"
	"unsafe"

	syscall "golang.org/x/sys/unix"
)

type lyJob struct {
	RowsFile        string `json:"rows_file"`
	Seed            int64  `json:"seed"`
	BackendPermille int    `json:"backend_permille"` // share of direct rows with ascending sizes also run on both back-ends
	ForceBackend    int    `json:"force_backend"`    // replay: -1 = as usual, 0 plain, 1 file, 2 memfd
	KnownSizeWrap   bool   `json:"known_size_wrap"`  // finding size-plus-header-wraps-uint32 is listed: skip its class
	KnownQueueWrap  bool   `json:"known_queue_wrap"` // finding queue-cap-times-12-wraps-uint32 is listed: skip its class
	KnownPctWrap    bool   `json:"known_pct_wrap"`   // finding percent-sum-wraps-uint32 is listed: skip its class
	Witnesses       bool   `json:"witnesses"`        // reproduce the witnesses of both findings
	Edge            bool   `json:"edge"`             // run the cases at the top of the uint32 range (sparse 4 GiB mapping)
	MaxViolations   int    `json:"max_violations"`
}

type lyViolation struct {
	Kind    string  `json:"kind"`
	Detail  string  `json:"detail"`
	Tag     string  `json:"tag"`
	Row     []int64 `json:"row"`
	Backend int     `json:"backend"`
}

type lyWitness struct {
	Reproduced bool   `json:"reproduced"`
	Detail     string `json:"detail"`
}

type lyResult struct {
	Rows             int                  `json:"rows"`
	BufExecutions    int                  `json:"buf_executions"`
	CreateOK         int                  `json:"create_ok"`
	CreateErr        int                  `json:"create_err"`
	PeerMapped       int                  `json:"peer_mapped"`
	BackendFile      int                  `json:"backend_file"`
	BackendMemfd     int                  `json:"backend_memfd"`
	HeldWhileMapping int64                `json:"buffers_held_while_peer_mapped"`
	SlotsChecked     int64                `json:"slots_checked"`
	SlicesPopped     int64                `json:"slices_popped"`
	BytesPatterned   int64                `json:"bytes_patterned"`
	QueueExec        int                  `json:"queue_executions"`
	QueueElems       int64                `json:"queue_elements"`
	Conforming       int                  `json:"conforming"`
	Drift            []string             `json:"drift"`
	DriftCount       int                  `json:"drift_count"`
	Violations       []lyViolation        `json:"violations"`
	ViolationCount   int                  `json:"violation_count"`
	Samples          []string             `json:"samples"`
	Witness          map[string]lyWitness `json:"witness"`
	EdgeCases        int                  `json:"edge_cases"`
	EdgeSkipped      int                  `json:"edge_skipped_known"`
	MemfdLeaked      int                  `json:"memfd_left_open_on_failed_create"`
	OOBHeaderWrite   int                  `json:"oob_header_write"` // createBufferManager stored listNum past a 1-byte mapping
	CounterOffs      []int64              `json:"counter_offsets"`  // creator, mapper (named deviation D3)
	Arm              bool                 `json:"arm"`
	SkippedArmRows   int                  `json:"skipped_arm_rows"`
}

type lyState struct {
	job lyJob
	res *lyResult
	rng *rand.Rand
	ctr int
}

func (st *lyState) violate(kind, detail, tag string, row []int64, backend int) {
	st.res.ViolationCount++
	if len(st.res.Violations) < st.job.MaxViolations {
		st.res.Violations = append(st.res.Violations, lyViolation{kind, detail, tag, row, backend})
	}
}

func (st *lyState) drift(s string) {
	st.res.DriftCount++
	if len(st.res.Drift) < 10 {
		st.res.Drift = append(st.res.Drift, s)
	}
}

// ---- geometry of a real bufferManager, by pointer arithmetic relative to its own mapping

type lyList struct {
	Off, RegionOff, RegionLen int64
	Cap, CapPer, Size         int64
	Head, Tail                int64
	Fields                    [5]int64 // size, cap, head, tail, capPerBuffer pointers
	Counter                   int64
	RegionPtrOff              int64 // where bufferRegion really starts
}

type lyGeom struct {
	Lists    []lyList
	Min, Max int64
	MemLen   int64
}

func lySliceBase(b []byte) uintptr { return (*[3]uintptr)(unsafe.Pointer(&b))[0] }

func lyGeomOf(bm *bufferManager) lyGeom {
	base := lySliceBase(bm.mem)
	rel := func(p unsafe.Pointer) int64 { return int64(uintptr(p)) - int64(base) }
	g := lyGeom{Min: int64(bm.minSliceSize), Max: int64(bm.maxSliceSize), MemLen: int64(len(bm.mem)), Lists: []lyList{}}
	for _, l := range bm.lists {
		x := lyList{Off: int64(l.offsetInShm), RegionOff: int64(l.bufferRegionOffsetInShm), RegionLen: int64(len(l.bufferRegion)),
			Cap: int64(*l.cap), CapPer: int64(*l.capPerBuffer), Size: int64(*l.size), Head: int64(*l.head), Tail: int64(*l.tail),
			Counter: rel(unsafe.Pointer(l.counter)), RegionPtrOff: int64(lySliceBase(l.bufferRegion)) - int64(base)}
		x.Fields = [5]int64{rel(unsafe.Pointer(l.size)), rel(unsafe.Pointer(l.cap)), rel(unsafe.Pointer(l.head)),
			rel(unsafe.Pointer(l.tail)), rel(unsafe.Pointer(l.capPerBuffer))}
		g.Lists = append(g.Lists, x)
	}
	return g
}

type lyIv struct {
	a, e int64
	what string
}

func lyDisjoint(ivs []lyIv) string {
	sort.Slice(ivs, func(i, j int) bool { return ivs[i].a < ivs[j].a })
	for i := 1; i < len(ivs); i++ {
		if ivs[i].a < ivs[i-1].e {
			return fmt.Sprintf("%s [%d,%d) overlaps %s [%d,%d)", ivs[i-1].what, ivs[i-1].a, ivs[i-1].e, ivs[i].what, ivs[i].a, ivs[i].e)
		}
	}
	return ""
}

// the free chain as it really is in the memory: offsets (relative to the region) of every slot reachable from head
func lyChain(l *bufferList) ([]int64, string) {
	out := []int64{}
	n := int64(*l.cap)
	cur := int64(*l.head)
	rl := int64(len(l.bufferRegion))
	for i := int64(0); i <= n; i++ {
		if cur < 0 || cur+bufferHeaderSize > rl {
			return out, fmt.Sprintf("slot header at region offset %d outside the region of %d bytes", cur, rl)
		}
		out = append(out, cur)
		h := bufferHeader(l.bufferRegion[cur : cur+bufferHeaderSize])
		if !h.hasNext() {
			break
		}
		cur = int64(h.nextBufferOffset())
	}
	if int64(len(out)) != n {
		return out, fmt.Sprintf("free chain visits %d slots, header says cap %d", len(out), n)
	}
	if out[len(out)-1] != int64(*l.tail) {
		return out, fmt.Sprintf("free chain ends at %d, tail says %d", out[len(out)-1], *l.tail)
	}
	return out, ""
}

// property oracle on one view: header fields, regions and every slot pairwise disjoint, inside the mapping, slots behind
// the header fields of their list. Returns "" or what is wrong.
func (st *lyState) lyViewOK(bm *bufferManager, g lyGeom, peerCounterOff []int64) string {
	ivs := []lyIv{{0, bufferManagerHeaderSize, "manager header"}}
	for i, x := range g.Lists {
		l := bm.lists[i]
		hdrEnd := int64(0)
		names := []string{"size", "cap", "head", "tail", "capPerBuffer"}
		for k, f := range x.Fields {
			if f < 0 || f+4 > g.MemLen {
				return fmt.Sprintf("list %d: header field %s at %d outside the mapping of %d bytes", i, names[k], f, g.MemLen)
			}
			ivs = append(ivs, lyIv{f, f + 4, fmt.Sprintf("list %d %s", i, names[k])})
			if f+4 > hdrEnd {
				hdrEnd = f + 4
			}
		}
		cs := []int64{x.Counter}
		if peerCounterOff != nil && i < len(peerCounterOff) && peerCounterOff[i] != x.Counter {
			cs = append(cs, peerCounterOff[i])
		}
		for _, c := range cs {
			if c < 0 || c+4 > g.MemLen {
				return fmt.Sprintf("list %d: counter at %d outside the mapping of %d bytes", i, c, g.MemLen)
			}
			ivs = append(ivs, lyIv{c, c + 4, fmt.Sprintf("list %d counter", i)})
			if c+4 > hdrEnd {
				hdrEnd = c + 4
			}
		}
		if x.RegionPtrOff != x.RegionOff {
			return fmt.Sprintf("list %d: bufferRegion starts at %d but bufferRegionOffsetInShm says %d", i, x.RegionPtrOff, x.RegionOff)
		}
		if x.RegionOff < hdrEnd {
			return fmt.Sprintf("list %d: slot region starts at %d, before the end of its header fields %d", i, x.RegionOff, hdrEnd)
		}
		if x.RegionOff+x.RegionLen > g.MemLen {
			return fmt.Sprintf("list %d: slot region [%d,%d) leaves the mapping of %d bytes", i, x.RegionOff, x.RegionOff+x.RegionLen, g.MemLen)
		}
		if x.Cap < 1 || x.CapPer < 1 {
			return fmt.Sprintf("list %d: cap %d capPerBuffer %d", i, x.Cap, x.CapPer)
		}
		chain, bad := lyChain(l)
		if bad != "" {
			return fmt.Sprintf("list %d: %s", i, bad)
		}
		for _, s := range chain {
			c := int64(*(*uint32)(unsafe.Pointer(&l.bufferRegion[s+bufferCapOffset])))
			if c != x.CapPer {
				return fmt.Sprintf("list %d: slot at region offset %d has cap %d, class says %d", i, s, c, x.CapPer)
			}
			a := x.RegionOff + s
			e := a + bufferHeaderSize + c
			if e > x.RegionOff+x.RegionLen || e > g.MemLen {
				return fmt.Sprintf("list %d: slot [%d,%d) leaves its region [%d,%d) / the mapping", i, a, e, x.RegionOff, x.RegionOff+x.RegionLen)
			}
			ivs = append(ivs, lyIv{a, e, fmt.Sprintf("list %d slot@%d", i, s)})
		}
		st.res.SlotsChecked += int64(len(chain))
	}
	return lyDisjoint(ivs)
}

func lySameView(a, b lyGeom) string {
	if len(a.Lists) != len(b.Lists) {
		return fmt.Sprintf("creator has %d classes, peer %d", len(a.Lists), len(b.Lists))
	}
	if a.MemLen != b.MemLen {
		return fmt.Sprintf("creator maps %d bytes, peer %d", a.MemLen, b.MemLen)
	}
	if a.Min != b.Min || a.Max != b.Max {
		return fmt.Sprintf("creator min/max slice size %d/%d, peer %d/%d", a.Min, a.Max, b.Min, b.Max)
	}
	for i := range a.Lists {
		x, y := a.Lists[i], b.Lists[i]
		if x.Off != y.Off || x.RegionOff != y.RegionOff || x.RegionLen != y.RegionLen || x.Cap != y.Cap || x.CapPer != y.CapPer ||
			x.Fields != y.Fields || x.RegionPtrOff != y.RegionPtrOff || x.Head != y.Head || x.Tail != y.Tail || x.Size != y.Size {
			return fmt.Sprintf("class %d: creator %+v, peer %+v", i, x, y)
		}
	}
	return ""
}

type lySlots struct{ offs []int64 }

func newLySlots(chain []int64, regionOff int64) lySlots {
	o := make([]int64, len(chain))
	for i, c := range chain {
		o[i] = regionOff + c
	}
	sort.Slice(o, func(i, j int) bool { return o[i] < o[j] })
	return lySlots{o}
}

func (s lySlots) index(o int64) int {
	k := sort.Search(len(s.offs), func(i int) bool { return s.offs[i] >= o })
	if k < len(s.offs) && s.offs[k] == o {
		return k
	}
	return -1
}

func lyPat(list int, off int64, j int) byte { return byte(list*31 + int(off%251)*7 + j*13 + 1) }

// functional oracle: the creator allocates every allocatable slot through the real pop, fills it, the peer reads each one
// through the real readBufferSlice (that is how a received offset is turned into a buffer) and recycles it through the
// real push of its own view; then the peer allocates everything itself.
func (st *lyState) lyExchange(a, b *bufferManager, ga lyGeom) string {
	baseA, baseB := lySliceBase(a.mem), lySliceBase(b.mem)
	for i, l := range a.lists {
		x := ga.Lists[i]
		chain, _ := lyChain(l)
		slots := newLySlots(chain, x.RegionOff)
		seen := make([]bool, len(chain))
		var got []*bufferSlice
		for {
			s, err := l.pop()
			if err != nil {
				break
			}
			got = append(got, s)
			if int64(len(got)) > x.Cap {
				return fmt.Sprintf("class %d: pop handed out more than cap=%d buffers", i, x.Cap)
			}
		}
		if int64(len(got)) != x.Cap-1 {
			return fmt.Sprintf("class %d: a fresh list of cap %d handed out %d buffers (expected cap-1)", i, x.Cap, len(got))
		}
		for _, s := range got {
			o := int64(s.offsetInShm)
			if k := slots.index(o); k < 0 || seen[k] {
				return fmt.Sprintf("class %d: pop returned offset %d which is not a (distinct) slot of the class", i, o)
			} else {
				seen[k] = true
			}
			if int64(len(s.data)) != x.CapPer || int64(s.cap) != x.CapPer ||
				int64(lySliceBase(s.data))-int64(baseA) != o+bufferHeaderSize || int64(lySliceBase(s.bufferHeader))-int64(baseA) != o {
				return fmt.Sprintf("class %d: buffer at %d: data len %d cap %d at mapping offset %d, header at %d (class capPer %d)", i, o,
					len(s.data), s.cap, int64(lySliceBase(s.data))-int64(baseA), int64(lySliceBase(s.bufferHeader))-int64(baseA), x.CapPer)
			}
			n := len(s.data)
			if n <= 4096 {
				for j := 0; j < n; j++ {
					s.data[j] = lyPat(i, o, j)
				}
				st.res.BytesPatterned += int64(n)
			} else {
				for j := 0; j < 64; j++ {
					s.data[j] = lyPat(i, o, j)
					s.data[n-1-j] = lyPat(i, o, n-1-j)
				}
				st.res.BytesPatterned += 128
			}
		}
		st.res.SlicesPopped += int64(len(got))
		// the peer's side
		for _, s := range got {
			o := int64(s.offsetInShm)
			ps, err := b.readBufferSlice(s.offsetInShm)
			if err != nil {
				return fmt.Sprintf("class %d: peer cannot read the buffer at %d: %v", i, o, err)
			}
			if int64(len(ps.data)) != x.CapPer || int64(lySliceBase(ps.data))-int64(baseB) != o+bufferHeaderSize {
				return fmt.Sprintf("class %d: peer sees buffer at %d as %d bytes at mapping offset %d", i, o, len(ps.data), int64(lySliceBase(ps.data))-int64(baseB))
			}
			n := len(ps.data)
			chk := func(j int) bool { return ps.data[j] == lyPat(i, o, j) }
			if n <= 4096 {
				for j := 0; j < n; j++ {
					if !chk(j) {
						return fmt.Sprintf("class %d: byte %d of the buffer at %d differs through the peer's view", i, j, o)
					}
				}
			} else {
				for j := 0; j < 64; j++ {
					if !chk(j) || !chk(n-1-j) {
						return fmt.Sprintf("class %d: edge bytes of the buffer at %d differ through the peer's view", i, o)
					}
				}
			}
			if i >= len(b.lists) {
				return fmt.Sprintf("peer has no class %d", i)
			}
			b.lists[i].push(ps)
			putBackBufferSlice(ps)
			putBackBufferSlice(s)
		}
		if *l.size != int32(x.Cap) || *b.lists[i].size != int32(x.Cap) {
			return fmt.Sprintf("class %d: after returning everything through the peer size is %d/%d, cap %d", i, *l.size, *b.lists[i].size, x.Cap)
		}
		// peer allocates
		n := 0
		seen = make([]bool, len(chain))
		var back []*bufferSlice
		for {
			s, err := b.lists[i].pop()
			if err != nil {
				break
			}
			n++
			o := int64(s.offsetInShm)
			k := slots.index(o)
			if k < 0 || seen[k] || int64(len(s.data)) != x.CapPer || int64(lySliceBase(s.data))-int64(baseB) != o+bufferHeaderSize {
				return fmt.Sprintf("class %d: peer's pop returned offset %d (len %d, data at %d): not a distinct slot of the class", i, o,
					len(s.data), int64(lySliceBase(s.data))-int64(baseB))
			}
			seen[k] = true
			back = append(back, s)
			if int64(n) > x.Cap {
				break
			}
		}
		if int64(n) != x.Cap-1 {
			return fmt.Sprintf("class %d: peer could allocate %d buffers of cap %d", i, n, x.Cap)
		}
		for _, s := range back {
			l.push(s)
			putBackBufferSlice(s)
		}
		st.res.SlicesPopped += int64(n)
	}
	return ""
}

// ---- one buffer configuration on one back-end

type lyBufRow struct {
	raw        []int64
	global     bool
	held       int64 // buffers of every class the creator holds while the peer maps; -1 = all that can be allocated
	mem        int64
	pairs      [][2]int64
	okA        bool
	okB        int64
	lists      [][5]int64 // off, cap, capPer, size word and head word at the moment the peer maps
	used       int64
	ascending  bool
	distinctSz bool
}

func lyParseBuf(r []int64) (lyBufRow, error) {
	var b lyBufRow
	b.raw = r
	if len(r) < 8 {
		return b, fmt.Errorf("short row")
	}
	b.global, b.held, b.mem = r[0] == 1, r[1], r[2]
	n := int(r[3])
	p := 4
	if len(r) < p+2*n+4 {
		return b, fmt.Errorf("short row")
	}
	for i := 0; i < n; i++ {
		b.pairs = append(b.pairs, [2]int64{r[p], r[p+1]})
		p += 2
	}
	b.okA, b.okB = r[p] == 1, r[p+1]
	k := int(r[p+2])
	p += 3
	if len(r) != p+5*k+1 {
		return b, fmt.Errorf("row length %d, expected %d", len(r), p+5*k+1)
	}
	for i := 0; i < k; i++ {
		b.lists = append(b.lists, [5]int64{r[p], r[p+1], r[p+2], r[p+3], r[p+4]})
		p += 5
	}
	b.used = r[p]
	b.ascending, b.distinctSz = true, true
	for i := 1; i < n; i++ {
		if b.pairs[i][0] <= b.pairs[i-1][0] {
			b.ascending = false
		}
	}
	for i := 0; i < n; i++ {
		for j := i + 1; j < n; j++ {
			if b.pairs[i][0] == b.pairs[j][0] {
				b.distinctSz = false
			}
		}
	}
	return b, nil
}

func lyPairs(b lyBufRow) []*SizePercentPair {
	ps := make([]*SizePercentPair, 0, len(b.pairs))
	for _, p := range b.pairs {
		ps = append(ps, &SizePercentPair{Size: uint32(p[0]), Percent: uint32(p[1])})
	}
	return ps
}

const lyGuard = 64

type lyViews struct {
	held    [][]*bufferSlice // per class: what the creator allocated before the peer attached
	a, b    *bufferManager
	errA    error
	errB    error
	cleanup func()
	guardOK func() string
}

// the creator allocates k buffers of every class through the real pop before the peer attaches (late attach, hot restart)
func lyHold(v *lyViews, k int64) {
	if v.a == nil || k == 0 {
		return
	}
	for _, l := range v.a.lists {
		want := int64(*l.cap) - 1
		if k >= 0 && k < want {
			want = k
		}
		var got []*bufferSlice
		for int64(len(got)) < want {
			s, err := l.pop()
			if err != nil {
				break
			}
			got = append(got, s)
		}
		v.held = append(v.held, got)
	}
}

func lyDropRegistry(path string) {
	bufferManagers.Lock()
	delete(bufferManagers.bms, path)
	bufferManagers.Unlock()
}

// builds creator and peer on the chosen back-end with the real constructors
func (st *lyState) lyBuild(v *lyViews, b lyBufRow, backend int, wantPeer bool) {
	st.ctr++
	switch backend {
	case 0:
		n := int(b.mem)
		big := make([]byte, n+2*lyGuard)
		for i := range big {
			if i < lyGuard || i >= lyGuard+n {
				big[i] = 0xA5
			}
		}
		mem := big[lyGuard : lyGuard+n : lyGuard+n]
		v.guardOK = func() string {
			for i := range big {
				if (i < lyGuard || i >= lyGuard+n) && big[i] != 0xA5 {
					return fmt.Sprintf("byte at mapping offset %d (outside the mapping of %d bytes) was overwritten", i-lyGuard, n)
				}
			}
			return ""
		}
		v.a, v.errA = createBufferManager(lyPairs(b), "vs-layout", mem, 0)
		if v.errA == nil {
			lyHold(v, b.held)
		}
		if v.errA == nil && wantPeer {
			v.b, v.errB = mappingBufferManager("vs-layout", mem, 0)
		}
	case 1:
		path := fmt.Sprintf("/dev/shm/vs-layout-%d-%d_buffer", os.Getpid(), st.ctr)
		var mems [][]byte
		v.cleanup = func() {
			lyDropRegistry(path)
			for _, m := range mems {
				_ = syscall.Munmap(m)
			}
			_ = os.Remove(path)
		}
		v.a, v.errA = getGlobalBufferManager(path, uint32(b.mem), true, lyPairs(b))
		if v.errA == nil {
			mems = append(mems, v.a.mem)
			lyHold(v, b.held)
			lyDropRegistry(path) // the peer is another process: it has its own registry
			if wantPeer {
				v.b, v.errB = getGlobalBufferManager(path, 0, false, nil)
				if v.errB == nil {
					mems = append(mems, v.b.mem)
				}
			}
		}
	case 2:
		path := fmt.Sprintf("vs-layout-%d-%d_buffer", os.Getpid(), st.ctr)
		var mems [][]byte
		var fds []int
		// the library does not close the memfd it created when laying out fails (or panics); that leak is not C03's
		// subject, but 10^4 of them would exhaust the descriptor table of this process: find it and close it
		probe, _ := syscall.Dup(0)
		_ = syscall.Close(probe)
		v.cleanup = func() {
			lyDropRegistry(path)
			for _, m := range mems {
				_ = syscall.Munmap(m)
			}
			for _, fd := range fds {
				_ = syscall.Close(fd)
			}
			if v.a == nil && probe > 2 {
				if l, err := os.Readlink(fmt.Sprintf("/proc/self/fd/%d", probe)); err == nil && strings.Contains(l, "memfd:") && strings.Contains(l, path) {
					_ = syscall.Close(probe)
					st.res.MemfdLeaked++
				}
			}
		}
		v.a, v.errA = getGlobalBufferManagerWithMemFd(path, 0, uint32(b.mem), true, lyPairs(b))
		if v.errA != nil {
			v.a = nil
		}
		if v.errA == nil {
			mems = append(mems, v.a.mem)
			fds = append(fds, v.a.memFd)
			lyHold(v, b.held)
			lyDropRegistry(path)
			if wantPeer {
				fd2, err := syscall.Dup(v.a.memFd) // what SCM_RIGHTS gives the peer
				if err != nil {
					panic(err)
				}
				fds = append(fds, fd2)
				v.b, v.errB = getGlobalBufferManagerWithMemFd(path, fd2, 0, false, nil)
				if v.errB == nil {
					mems = append(mems, v.b.mem)
				}
			}
		}
	}
}

func (st *lyState) lyRunBuf(b lyBufRow, backend int) {
	st.res.BufExecutions++
	switch backend {
	case 1:
		st.res.BackendFile++
	case 2:
		st.res.BackendMemfd++
	}
	v := &lyViews{cleanup: func() {}, guardOK: func() string { return "" }}
	bad, kind := "", ""
	func() {
		defer func() {
			if r := recover(); r != nil {
				bad, kind = fmt.Sprintf("panic: %v", r), "panic"
			}
			v.cleanup()
		}()
		st.lyBuild(v, b, backend, true)
		if g := v.guardOK(); g != "" && !(b.mem == 1 && v.errA != nil) {
			bad, kind = g, "write outside the mapping"
			return
		} else if g != "" {
			st.res.OOBHeaderWrite++
		}
		if v.errA != nil {
			st.res.CreateErr++
			if b.okA {
				st.drift(fmt.Sprintf("row %v backend %d: specification lays this configuration out, the code rejects it: %v", b.raw, backend, v.errA))
			} else {
				st.res.Conforming++
			}
			return
		}
		st.res.CreateOK++
		ga := lyGeomOf(v.a)
		if backend != 0 && ga.MemLen != b.mem {
			bad, kind = fmt.Sprintf("mapping has %d bytes, configured capacity %d", ga.MemLen, b.mem), "mapping size"
			return
		}
		if v.errB != nil || v.b == nil {
			bad, kind = fmt.Sprintf("creator laid the memory out (%d classes) but the peer cannot map it: %v", len(ga.Lists), v.errB), "peer cannot map"
			return
		}
		st.res.PeerMapped++
		gb := lyGeomOf(v.b)
		pc := []int64{}
		for _, x := range gb.Lists {
			pc = append(pc, x.Counter)
		}
		// the peer attached while the creator holds buffers: same classes, capacities, regions, and the free count / head
		// words are the predicted ones; every held buffer lies inside the peer's region of its class
		ga = lyGeomOf(v.a)
		heldN := int64(0)
		if s := lySameView(ga, gb); s != "" {
			bad, kind = fmt.Sprintf("peer attached while the creator held %d buffers per class: %s", b.held, s), "peer derives a different layout"
			return
		}
		wordsOK := len(ga.Lists) == len(b.lists)
		for i, x := range ga.Lists {
			if x.RegionLen < x.Cap*(x.CapPer+bufferHeaderSize) || gb.Lists[i].RegionLen < x.Cap*(x.CapPer+bufferHeaderSize) {
				bad, kind = fmt.Sprintf("class %d: region of %d/%d bytes (creator/peer) cannot hold cap=%d slots of %d+%d bytes", i, x.RegionLen,
					gb.Lists[i].RegionLen, x.Cap, bufferHeaderSize, x.CapPer), "layout unsound"
				return
			}
			if wordsOK && (x.Size != b.lists[i][3] || x.Head != b.lists[i][4]) {
				wordsOK = false
			}
			if i < len(v.held) {
				for _, hs := range v.held[i] {
					heldN++
					o := int64(hs.offsetInShm)
					y := gb.Lists[i]
					if o < y.RegionOff || o+bufferHeaderSize+x.CapPer > y.RegionOff+y.RegionLen {
						bad, kind = fmt.Sprintf("class %d: buffer at %d held by the creator lies outside the peer's region [%d,%d)", i, o, y.RegionOff,
							y.RegionOff+y.RegionLen), "peer derives a different layout"
						return
					}
				}
			}
		}
		st.res.HeldWhileMapping += heldN
		// the peer gives the held buffers back through its own view (it received their offsets), then everything is free again
		for i := range v.held {
			for _, hs := range v.held[i] {
				ps, err := v.b.readBufferSlice(hs.offsetInShm)
				if err != nil {
					bad, kind = fmt.Sprintf("class %d: peer cannot read the held buffer at %d: %v", i, hs.offsetInShm, err), "buffers not exchanged faithfully"
					return
				}
				v.b.lists[i].push(ps)
				putBackBufferSlice(ps)
				putBackBufferSlice(hs)
			}
		}
		v.held = nil
		ga, gb = lyGeomOf(v.a), lyGeomOf(v.b)
		if s := st.lyViewOK(v.a, ga, pc); s != "" {
			bad, kind = "creator view: "+s, "layout unsound"
			return
		}
		if s := lySameView(ga, gb); s != "" {
			bad, kind = s, "peer derives a different layout"
			return
		}
		if s := st.lyViewOK(v.b, gb, nil); s != "" {
			bad, kind = "peer view: "+s, "layout unsound"
			return
		}
		if backend != 0 {
			// through the session-level constructors the classes are sorted and min/max are the real extremes
			for i := 1; i < len(ga.Lists); i++ {
				if ga.Lists[i].CapPer < ga.Lists[i-1].CapPer {
					bad, kind = fmt.Sprintf("classes not ascending by slice size: %d after %d", ga.Lists[i].CapPer, ga.Lists[i-1].CapPer), "classes unsorted"
					return
				}
			}
			if len(ga.Lists) > 0 && (ga.Min != ga.Lists[0].CapPer || ga.Max != ga.Lists[len(ga.Lists)-1].CapPer) {
				bad, kind = fmt.Sprintf("min/max slice size %d/%d do not match the classes", ga.Min, ga.Max), "classes unsorted"
				return
			}
		}
		if len(st.res.CounterOffs) == 0 && len(ga.Lists) > 0 {
			st.res.CounterOffs = []int64{ga.Lists[0].Counter - ga.Lists[0].Off, gb.Lists[0].Counter - gb.Lists[0].Off}
		}
		hdr := make([]byte, 0, 64)
		hdr = append(hdr, v.a.mem[:bufferManagerHeaderSize]...)
		if s := st.lyExchange(v.a, v.b, ga); s != "" {
			bad, kind = s, "buffers not exchanged faithfully"
			return
		}
		// nothing the exchange wrote touched a header
		if string(hdr) != string(v.b.mem[:bufferManagerHeaderSize]) {
			bad, kind = "manager header changed while buffers were filled", "layout unsound"
			return
		}
		g2 := lyGeomOf(v.b)
		for i := range g2.Lists {
			if g2.Lists[i].Cap != ga.Lists[i].Cap || g2.Lists[i].CapPer != ga.Lists[i].CapPer {
				bad, kind = fmt.Sprintf("class %d header changed while buffers were filled", i), "layout unsound"
				return
			}
		}
		if s := st.lyViewOK(v.a, lyGeomOf(v.a), pc); s != "" {
			bad, kind = "after exchange: "+s, "layout unsound"
			return
		}
		if g := v.guardOK(); g != "" {
			bad, kind = g, "write outside the mapping"
			return
		}
		// conformance with the prediction
		usedWord := int64(*(*uint32)(unsafe.Pointer(&v.a.mem[bmCapOffset]))) + bufferManagerHeaderSize
		listNum := int64(*(*uint16)(unsafe.Pointer(&v.a.mem[0])))
		conf := wordsOK && b.okA && b.okB == 1 && len(b.lists) == len(ga.Lists) && usedWord == b.used && listNum == int64(len(b.lists))
		if conf {
			for i, x := range ga.Lists {
				if x.Off != b.lists[i][0] || x.Cap != b.lists[i][1] || x.CapPer != b.lists[i][2] ||
					x.RegionOff != x.Off+bufferListHeaderSize || x.RegionLen != x.Cap*(x.CapPer+bufferHeaderSize) {
					conf = false
				}
			}
		}
		if conf {
			st.res.Conforming++
		} else {
			st.drift(fmt.Sprintf("row %v backend %d: real geometry %+v used %d differs from the predicted one", b.raw, backend, ga.Lists, usedWord))
		}
		if len(st.res.Samples) < 4 && len(ga.Lists) >= 2 && backend != 0 {
			st.res.Samples = append(st.res.Samples, fmt.Sprintf("backend %d mem %d pairs %v -> classes [off cap capPer] %v used %d; peer identical; %d slots walked",
				backend, b.mem, b.pairs, b.lists, usedWord, st.res.SlotsChecked))
		}
	}()
	if bad != "" {
		st.violate(kind, bad, "B", b.raw, backend)
	}
}

// ---- queues

type lyQGeom struct{ Head, Tail, Flag, Ring, RingLen, Cap int64 }

func lyQGeomOf(q *queue, mem []byte) lyQGeom {
	base := int64(lySliceBase(mem))
	return lyQGeom{int64(uintptr(unsafe.Pointer(q.head))) - base, int64(uintptr(unsafe.Pointer(q.tail))) - base,
		int64(uintptr(unsafe.Pointer(q.workingFlag))) - base, int64(lySliceBase(q.queueBytesOnMemory)) - base,
		int64(len(q.queueBytesOnMemory)), q.cap}
}

func lyQOK(g lyQGeom, lo, hi int64, name string) string {
	ivs := []lyIv{{g.Head, g.Head + 8, name + ".head"}, {g.Tail, g.Tail + 8, name + ".tail"}, {g.Flag, g.Flag + 4, name + ".workingFlag"},
		{lo, lo + 4, name + ".cap word"}}
	if g.RingLen > 0 {
		ivs = append(ivs, lyIv{g.Ring, g.Ring + g.RingLen, name + ".ring"})
	}
	for _, iv := range ivs {
		if iv.a < lo || iv.e > hi {
			return fmt.Sprintf("%s [%d,%d) outside its half [%d,%d)", iv.what, iv.a, iv.e, lo, hi)
		}
	}
	if g.RingLen < g.Cap*queueElementLen {
		return fmt.Sprintf("%s: ring of %d bytes cannot hold cap=%d elements", name, g.RingLen, g.Cap)
	}
	return lyDisjoint(ivs)
}

func (st *lyState) lyPipe(from, to, other1, other2 *queue, name string, salt uint32) string {
	cap := from.cap
	n := cap
	if n > 20000 {
		n = 20000
	}
	for round := 0; round < 2; round++ { // second round wraps around the ring
		for i := int64(0); i < n; i++ {
			if err := from.put(queueElement{seqID: salt + uint32(i), offsetInShmBuf: uint32(i*7) ^ salt, status: uint32(round + 1)}); err != nil {
				return fmt.Sprintf("%s: put #%d of %d failed: %v", name, i, n, err)
			}
		}
		if n == cap {
			if err := from.put(queueElement{}); err != ErrQueueFull {
				return fmt.Sprintf("%s: put into a full queue returned %v", name, err)
			}
		}
		if !other1.isEmpty() || !other2.isEmpty() {
			return fmt.Sprintf("%s: elements showed up on the opposite queue", name)
		}
		if to.size() != n {
			return fmt.Sprintf("%s: receiver sees %d elements, %d were put", name, to.size(), n)
		}
		for i := int64(0); i < n; i++ {
			e, err := to.pop()
			if err != nil || e.seqID != salt+uint32(i) || e.offsetInShmBuf != uint32(i*7)^salt || e.status != uint32(round+1) {
				return fmt.Sprintf("%s: pop #%d gave %+v err %v", name, i, e, err)
			}
		}
		if _, err := to.pop(); err != errQueueEmpty {
			return fmt.Sprintf("%s: pop from the drained queue returned %v", name, err)
		}
		st.res.QueueElems += n
	}
	if !from.markWorking() || !to.consumerIsWorking() || other1.consumerIsWorking() || other2.consumerIsWorking() {
		return fmt.Sprintf("%s: working flag not shared between the two ends (or shared with the other queue)", name)
	}
	if !to.markNotWorking() || from.consumerIsWorking() {
		return fmt.Sprintf("%s: working flag not cleared for the other end", name)
	}
	return ""
}

func (st *lyState) lyRunQueue(r []int64, backend int) {
	st.res.QueueExec++
	cap := uint32(r[0])
	bad, kind := "", ""
	func() {
		defer func() {
			if rec := recover(); rec != nil {
				bad, kind = fmt.Sprintf("panic: %v", rec), "panic"
			}
		}()
		st.ctr++
		var a, b *queueManager
		var err error
		if backend == 1 {
			path := fmt.Sprintf("/dev/shm/vs-layout-%d-%d_queue", os.Getpid(), st.ctr)
			defer os.Remove(path)
			a, err = createQueueManager(path, cap)
			if err != nil {
				bad, kind = fmt.Sprintf("createQueueManager(cap %d): %v", cap, err), "queue create failed"
				return
			}
			defer syscall.Munmap(a.mem)
			b, err = mappingQueueManager(path)
			if err != nil {
				bad, kind = fmt.Sprintf("peer cannot map the queues: %v", err), "peer cannot map"
				return
			}
			defer syscall.Munmap(b.mem)
		} else {
			path := fmt.Sprintf("vs-layout-%d-%d_queue", os.Getpid(), st.ctr)
			a, err = createQueueManagerWithMemFd(path, cap)
			if err != nil {
				bad, kind = fmt.Sprintf("createQueueManagerWithMemFd(cap %d): %v", cap, err), "queue create failed"
				return
			}
			defer syscall.Munmap(a.mem)
			defer syscall.Close(a.memFd)
			fd2, err := syscall.Dup(a.memFd)
			if err != nil {
				panic(err)
			}
			defer syscall.Close(fd2)
			b, err = mappingQueueManagerMemfd(path, fd2)
			if err != nil {
				bad, kind = fmt.Sprintf("peer cannot map the queues: %v", err), "peer cannot map"
				return
			}
			defer syscall.Munmap(b.mem)
		}
		total := int64(len(a.mem))
		if int64(len(b.mem)) != total {
			bad, kind = fmt.Sprintf("creator maps %d bytes, peer %d", total, len(b.mem)), "peer derives a different layout"
			return
		}
		as, ar := lyQGeomOf(a.sendQueue, a.mem), lyQGeomOf(a.recvQueue, a.mem)
		bs, br := lyQGeomOf(b.sendQueue, b.mem), lyQGeomOf(b.recvQueue, b.mem)
		// each queue lives in one half; which half is read off the real pointers
		half := func(g lyQGeom) (int64, int64) {
			if g.Head < total/2 {
				return 0, total / 2
			}
			return total / 2, total
		}
		for _, x := range []struct {
			g lyQGeom
			n string
		}{{as, "creator.send"}, {ar, "creator.recv"}, {bs, "peer.send"}, {br, "peer.recv"}} {
			lo, hi := half(x.g)
			if s := lyQOK(x.g, lo, hi, x.n); s != "" {
				bad, kind = s, "queue layout unsound"
				return
			}
			if x.g.Cap != int64(cap) {
				bad, kind = fmt.Sprintf("%s has cap %d, configured %d", x.n, x.g.Cap, cap), "peer derives a different layout"
				return
			}
		}
		if l1, _ := half(as); func() bool { l2, _ := half(ar); return l1 == l2 }() {
			bad, kind = "creator's send and receive queue are in the same half", "queue layout unsound"
			return
		}
		if as != br || ar != bs {
			bad, kind = fmt.Sprintf("not cross-wired: creator.send %+v peer.recv %+v / creator.recv %+v peer.send %+v", as, br, ar, bs), "queues not cross-wired"
			return
		}
		if s := st.lyPipe(a.sendQueue, b.recvQueue, a.recvQueue, b.sendQueue, "creator.send->peer.recv", 1000); s != "" {
			bad, kind = s, "queues not cross-wired"
			return
		}
		if s := st.lyPipe(b.sendQueue, a.recvQueue, b.recvQueue, a.sendQueue, "peer.send->creator.recv", 500000); s != "" {
			bad, kind = s, "queues not cross-wired"
			return
		}
		// conformance: <<cap, arm, total, A.send.base, A.recv.base, B.send.base, B.recv.base, head, tail, flag, ring, ringLen>>
		lo := func(g lyQGeom) int64 { l, _ := half(g); return l }
		conf := total == r[2] && lo(as) == r[3] && lo(ar) == r[4] && lo(bs) == r[5] && lo(br) == r[6] &&
			as.Head-lo(as) == r[7] && as.Tail-lo(as) == r[8] && as.Flag-lo(as) == r[9] && as.RingLen == r[11] &&
			ar.Head-lo(ar) == r[7] && ar.Tail-lo(ar) == r[8] && ar.Flag-lo(ar) == r[9] && ar.RingLen == r[11] &&
			(r[11] == 0 || (as.Ring-lo(as) == r[10] && ar.Ring-lo(ar) == r[10])) // an empty ring slice has no meaningful address
		if conf {
			st.res.Conforming++
		} else {
			st.drift(fmt.Sprintf("queue row %v backend %d: real %+v / %+v total %d differs from the predicted layout", r, backend, as, ar, total))
		}
		if len(st.res.Samples) < 6 && cap == 3 {
			st.res.Samples = append(st.res.Samples, fmt.Sprintf("queue backend %d cap %d: total %d, creator.send=peer.recv %+v, creator.recv=peer.send %+v, %d elements piped",
				backend, cap, total, as, ar, st.res.QueueElems))
		}
	}()
	if bad != "" {
		st.violate(kind, bad, "Q", r, backend)
	}
}

// ---- the top of the uint32 range (TLC's integers end at 2^31; these cases are oracle-only) and the finding witnesses

const lyTopMem = 4294967295

func lySparse(n int) ([]byte, error) {
	return syscall.Mmap(-1, 0, n, syscall.PROT_READ|syscall.PROT_WRITE, syscall.MAP_ANON|syscall.MAP_PRIVATE|syscall.MAP_NORESERVE)
}

func lySizeWraps(size uint32) bool { return size > 4294967295-bufferHeaderSize }
func lyPctWraps(pairs [][2]uint32) bool {
	sum := uint64(0)
	for _, p := range pairs {
		sum += uint64(p[1])
	}
	return sum >= 1<<32
}
func lyQueueWraps(cap uint32) bool { return uint64(cap)*queueElementLen+queueHeaderLength >= 1<<32 }

// one configuration on the sparse 4 GiB mapping; returns "" or what the real code did wrong
func (st *lyState) lyTop(mem []byte, prs [][2]uint32) (bad string) {
	defer func() {
		if r := recover(); r != nil {
			bad = fmt.Sprintf("panic: %v", r)
		}
		_ = syscall.Madvise(mem, syscall.MADV_DONTNEED)
	}()
	pairs := []*SizePercentPair{}
	for _, p := range prs {
		// the rule of VerifyConfig that delimits the quantified domain: Size <= capacity
		cfg := DefaultConfig()
		cfg.ShareMemoryBufferCap = lyTopMem
		cfg.BufferSliceSizes = []*SizePercentPair{{Size: p[0], Percent: 100}}
		if err := VerifyConfig(cfg); err != nil {
			return ""
		}
		pairs = append(pairs, &SizePercentPair{Size: p[0], Percent: p[1]})
	}
	hdr0 := uint16(len(pairs))
	a, err := createBufferManager(pairs, "vs-layout-top", mem, 0)
	if err != nil {
		return ""
	}
	if got := *(*uint16)(unsafe.Pointer(&mem[0])); got != hdr0 {
		return fmt.Sprintf("createBufferManager reports success but the class-count word of the manager header reads %d instead of %d (a class was laid over it)", got, hdr0)
	}
	b, err := mappingBufferManager("vs-layout-top", mem, 0)
	if err != nil {
		return fmt.Sprintf("peer cannot map: %v", err)
	}
	ga, gb := lyGeomOf(a), lyGeomOf(b)
	if s := st.lyViewOK(a, ga, nil); s != "" {
		return s
	}
	return lySameView(ga, gb)
}

func (st *lyState) lyEdges() {
	mem, err := lySparse(lyTopMem)
	if err != nil {
		st.res.Samples = append(st.res.Samples, "edge cases skipped: cannot reserve a sparse 4 GiB mapping: "+err.Error())
		return
	}
	defer syscall.Munmap(mem)
	for d := uint32(0); d <= 24; d++ {
		size := uint32(4294967295 - d)
		for _, pct := range []uint32{0, 1} {
			if lySizeWraps(size) && st.job.KnownSizeWrap {
				st.res.EdgeSkipped++
				continue
			}
			st.res.EdgeCases++
			if bad := st.lyTop(mem, [][2]uint32{{size, pct}}); bad != "" {
				st.violate("uint32 edge", fmt.Sprintf("mapping of %d bytes, pair {Size:%d Percent:%d} (VerifyConfig accepts it): %s", lyTopMem, size, pct, bad),
					"E", []int64{int64(size), int64(pct)}, 0)
			}
		}
	}
	// a class of ordinary size next to the top: 4 GiB - 1 mapping, 1 MiB slices in 1 percent
	st.res.EdgeCases++
	if bad := st.lyTop(mem, [][2]uint32{{1 << 20, 1}}); bad != "" {
		st.violate("uint32 edge", "4 GiB mapping, pair {1 MiB, 1}: "+bad, "E", []int64{1 << 20, 1}, 0)
	}
	// percentages at the top of the uint32 range (seeded), sizes large enough that few pages are touched
	for i := 0; i < 40; i++ {
		k := 2 + st.rng.Intn(2)
		prs := [][2]uint32{}
		flat := []int64{}
		for j := 0; j < k; j++ {
			size := uint32(1<<20) << uint(st.rng.Intn(10))
			if st.rng.Intn(3) == 0 {
				size = uint32(1<<20 + st.rng.Intn(1<<30))
			}
			pct := uint32(st.rng.Intn(101))
			if j == 1 || st.rng.Intn(4) == 0 {
				pct = uint32(4294967295 - st.rng.Intn(100))
			}
			prs = append(prs, [2]uint32{size, pct})
			flat = append(flat, int64(size), int64(pct))
		}
		if lyPctWraps(prs) && st.job.KnownPctWrap {
			st.res.EdgeSkipped++
			continue
		}
		st.res.EdgeCases++
		if bad := st.lyTop(mem, prs); bad != "" {
			st.violate("uint32 edge", fmt.Sprintf("mapping of %d bytes, pairs %v: %s", lyTopMem, prs, bad), "E", flat, 0)
		}
	}
	for _, cap := range []uint32{357913938, 357913939, 357913940, 357913941, 357913942, 357913943, 715827883} {
		if lyQueueWraps(cap) && st.job.KnownQueueWrap {
			st.res.EdgeSkipped++
			continue
		}
		st.res.EdgeCases++
		if bad := lyTopQueue(cap); bad != "" {
			st.violate("uint32 edge", fmt.Sprintf("queue capacity %d: %s", cap, bad), "F", []int64{int64(cap)}, 0)
		}
	}
}

func lyTopQueue(cap uint32) (bad string) {
	defer func() {
		if r := recover(); r != nil {
			bad = fmt.Sprintf("panic: %v", r)
		}
	}()
	half := countQueueMemSize(cap)
	mem, err := lySparse(half)
	if err != nil {
		return ""
	}
	defer syscall.Munmap(mem)
	q := createQueueFromBytes(mem, cap)
	p := mappingQueueFromBytes(mem)
	g := lyQGeomOf(p, mem)
	if s := lyQOK(g, 0, int64(half), "queue"); s != "" {
		return s
	}
	// first and last ring slot
	for _, at := range []int64{0, int64(cap) - 1} {
		*q.head, *q.tail = at, at
		if err := q.put(queueElement{7, 8, 9}); err != nil {
			return fmt.Sprintf("put at index %d: %v", at, err)
		}
		if e, err := p.pop(); err != nil || e != (queueElement{7, 8, 9}) {
			return fmt.Sprintf("pop at index %d: %+v %v", at, e, err)
		}
	}
	return ""
}

func (st *lyState) lyWitnesses() {
	w := func(f func() string) (out lyWitness) {
		defer func() {
			if r := recover(); r != nil {
				out = lyWitness{true, fmt.Sprintf("panic: %v", r)}
			}
		}()
		s := f()
		return lyWitness{s != "", s}
	}
	// through the session-level constructor, exactly as Session.initProtocol would call it
	st.res.Witness["size-plus-header-wraps-uint32"] = w(func() string {
		cfg := DefaultConfig()
		cfg.ShareMemoryBufferCap = lyTopMem
		cfg.BufferSliceSizes = []*SizePercentPair{{Size: 4294967276, Percent: 100}}
		if err := VerifyConfig(cfg); err != nil {
			return ""
		}
		path := fmt.Sprintf("vs-layout-wit-%d", os.Getpid())
		defer lyDropRegistry(path)
		bm, err := getGlobalBufferManagerWithMemFd(path, 0, cfg.ShareMemoryBufferCap, true, cfg.BufferSliceSizes)
		if err == nil {
			_ = syscall.Munmap(bm.mem)
			_ = syscall.Close(bm.memFd)
		}
		return ""
	})
	if x := st.res.Witness["size-plus-header-wraps-uint32"]; x.Reproduced {
		x.Detail = "VerifyConfig accepts ShareMemoryBufferCap=4294967295 BufferSliceSizes=[{4294967276 100}]; getGlobalBufferManagerWithMemFd(create): " + x.Detail
		if mem, err := lySparse(lyTopMem); err == nil {
			if s := st.lyTop(mem, [][2]uint32{{4294967277, 1}}); s != "" {
				x.Detail += "; pair {4294967277 1}: " + s
			}
			_ = syscall.Munmap(mem)
		}
		st.res.Witness["size-plus-header-wraps-uint32"] = x
	}
	st.res.Witness["percent-sum-wraps-uint32"] = w(func() string {
		mem, err := lySparse(lyTopMem)
		if err != nil {
			return ""
		}
		defer syscall.Munmap(mem)
		s := st.lyTop(mem, [][2]uint32{{945751536, 30}, {1048576, 4294967295}, {65536, 1}})
		if s != "" {
			s = "createBufferManager on a 4294967295-byte mapping with pairs [{945751536 30} {1048576 4294967295} {65536 1}]: " + s
		}
		return s
	})
	st.res.Witness["queue-cap-times-12-wraps-uint32"] = w(func() string {
		s := lyTopQueue(357913942)
		if s != "" {
			s = "createQueueFromBytes(cap 357913942) + put: " + s
		}
		return s
	})
}

// ---- driver

func TestVS_Layout(t *testing.T) {
	jobPath := os.Getenv("VS_IN_JOB")
	if jobPath == "" {
		t.Skip("VS_IN_JOB not set")
	}
	var job lyJob
	raw, err := os.ReadFile(jobPath)
	if err != nil {
		t.Fatal(err)
	}
	if err := json.Unmarshal(raw, &job); err != nil {
		t.Fatal(err)
	}
	if job.MaxViolations == 0 {
		job.MaxViolations = 8
	}
	res := &lyResult{Drift: []string{}, Violations: []lyViolation{}, Samples: []string{}, Witness: map[string]lyWitness{},
		CounterOffs: []int64{}, Arm: isArmArch()}
	st := &lyState{job: job, res: res, rng: rand.New(rand.NewSource(job.Seed))}
	if job.RowsFile != "" {
		fh, err := os.Open(job.RowsFile)
		if err != nil {
			t.Fatal(err)
		}
		sc := bufio.NewScanner(fh)
		sc.Buffer(make([]byte, 1<<20), 1<<20)
		for sc.Scan() {
			f := strings.Fields(sc.Text())
			if len(f) < 2 {
				continue
			}
			row := make([]int64, 0, len(f)-1)
			for _, x := range f[1:] {
				v, err := strconv.ParseInt(x, 10, 64)
				if err != nil {
					t.Fatalf("bad row %q", sc.Text())
				}
				row = append(row, v)
			}
			res.Rows++
			switch f[0] {
			case "B":
				b, err := lyParseBuf(row)
				if err != nil {
					t.Fatalf("bad row %q: %v", sc.Text(), err)
				}
				switch {
				case job.ForceBackend >= 0:
					st.lyRunBuf(b, job.ForceBackend)
				case b.global:
					st.lyRunBuf(b, 1)
					st.lyRunBuf(b, 2)
				default:
					st.lyRunBuf(b, 0)
					if (b.ascending || len(b.pairs) == 1) && st.rng.Intn(1000) < job.BackendPermille {
						st.lyRunBuf(b, 1)
						st.lyRunBuf(b, 2)
					}
				}
			case "Q":
				if (row[1] == 1) != res.Arm {
					res.SkippedArmRows++
					continue
				}
				if job.ForceBackend >= 1 {
					st.lyRunQueue(row, job.ForceBackend)
				} else {
					st.lyRunQueue(row, 1)
					st.lyRunQueue(row, 2)
				}
			case "E":
				if mem, err := lySparse(lyTopMem); err == nil {
					prs := [][2]uint32{}
					for i := 0; i+1 < len(row); i += 2 {
						prs = append(prs, [2]uint32{uint32(row[i]), uint32(row[i+1])})
					}
					if bad := st.lyTop(mem, prs); bad != "" {
						st.violate("uint32 edge", bad, "E", row, 0)
					}
					_ = syscall.Munmap(mem)
				}
			case "F":
				if bad := lyTopQueue(uint32(row[0])); bad != "" {
					st.violate("uint32 edge", bad, "F", row, 0)
				}
			}
			if res.ViolationCount >= 200 {
				break
			}
		}
		fh.Close()
	}
	if job.Edge {
		st.lyEdges()
	}
	if job.Witnesses {
		st.lyWitnesses()
	}
	out, _ := json.Marshal(res)
	if err := os.WriteFile(os.Getenv("VS_OUT"), out, 0o644); err != nil {
		t.Fatal(err)
	}
}
