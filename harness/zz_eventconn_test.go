package shmipc

// Harness of module EventConn (C18). Everything under test is the REAL code of the current tree:
// connEventHandler.write / writev / doWritev / onReadReady / maybeExpandReadBuffer / commitRead / onWriteReady, the epoll
// dispatcher, and Session.send / wakeUpPeer / hotRestart / waitForSend (the `writing` flag protocol).
//
//  window : TLC behaviours of EventConn.tla replayed 1:1 on a real connEventHandler whose fd is one end of an
//           AF_UNIX SOCK_DGRAM socketpair: one datagram per read(2) the behaviour prescribes, so every read returns exactly
//           the size TLC chose ("any kernel IO" on the read side is enumerated, not sampled). The callback is the harness;
//           it consumes what the behaviour says. Compared at every callback and after every onReadReady: len(readBuffer),
//           readStartOff, readEndOff with the spec state; oracle (independent of the spec): callback argument ==
//           stream[consumed : consumed+len], and after the call everything that was in the socket has been shown.
//  pipe   : real write/writev stepped one syscall at a time (scheduling point in front of every syscall, put there by
//           tools/instr) into a SOCK_STREAM socketpair with a minimal send buffer, real onReadReady on the other end,
//           environment (message sizes, who moves, consumption) from TLC simulation runs and from the seed; the kernel's
//           answers (n / EAGAIN) are logged for trace validation against the spec.
//  e2e    : free running: real newConnection + setCallback + epoll loop on both ends of a stream socketpair / TCP
//           loopback with small buffers, a Session (hand-built, real send loop) with concurrent senders on the fast and
//           the slow path, events with header+body, consumer with arbitrary pacing; >1 MiB / >4 MiB bursts for the
//           threshold and shrink paths with the real literals.
//  writers: the writer protocol of Session (writing CAS / sendCh / notifyContinueWriteCh) replayed from TLC behaviours of
//           EventConnWriters.tla with gates at every atomic access of wakeUpPeer / hotRestart / send.

import (
	"bytes"
	"encoding/binary"
	"encoding/json"
	"fmt"
	"math/rand"
	"net"
	"os"
	"runtime"
	"runtime/debug"
	"sort"
	"strings"
	"sync"
	"sync/atomic"
	"testing"
	"time"

	"golang.org/x/sys/unix"
)

type ecJob struct {
	Instr      bool          `json:"instr"`
	States     [][]int       `json:"states"` // [len, rs, re, consumed, rpcIdle]
	Window     []ecWinSched  `json:"window"`
	Pipe       []ecPipeScen  `json:"pipe"`
	E2E        []ecE2ECfg    `json:"e2e"`
	Burst      []ecBurstCfg  `json:"burst"`
	Writers    []ecWrSched   `json:"writers"`
	WStates    [][]int       `json:"wstates"`
	Dispatch   []ecDispSched `json:"dispatch"`
	DStates    [][]int       `json:"dstates"`
	Probes     []string      `json:"probes"`
	TraceFile  string        `json:"trace_file"`
	StopAtViol bool          `json:"stop_at_violation"`
}

type ecViolation struct {
	Kind   string      `json:"kind"`
	Part   string      `json:"part"`
	Name   string      `json:"name"`
	Detail string      `json:"detail"`
	Replay interface{} `json:"replay"`
}

type ecResult struct {
	Violations    []ecViolation     `json:"violations"`
	Drift         []string          `json:"drift"`
	WinReplayed   int               `json:"win_replayed"`
	WinConforming int               `json:"win_conforming"`
	WinSteps      int               `json:"win_steps"`
	WinCallbacks  int               `json:"win_callbacks"`
	WinCompared   int               `json:"win_compared"`
	WinExpands    int               `json:"win_expands"`
	WinShrinks    int               `json:"win_shrinks"`
	WinThreshold  int               `json:"win_threshold_callbacks"`
	PipeRun       int               `json:"pipe_run"`
	PipeSyscalls  int               `json:"pipe_syscalls"`
	PipePartial   int               `json:"pipe_partial_writes"`
	PipeEagain    int               `json:"pipe_eagain"`
	PipeBlocked   int               `json:"pipe_blocked_waits"`
	PipeBytes     int64             `json:"pipe_bytes"`
	PipeDistinct  int               `json:"pipe_distinct_kernel_patterns"`
	PipeTraces    int               `json:"pipe_traces_logged"`
	PipeTraceEv   int               `json:"pipe_trace_events"`
	E2ERun        int               `json:"e2e_run"`
	E2EEvents     int               `json:"e2e_events"`
	E2EBytes      int64             `json:"e2e_bytes"`
	E2ESlow       int               `json:"e2e_slow_path"`
	E2EFast       int               `json:"e2e_fast_path"`
	E2ECallbacks  int               `json:"e2e_callbacks"`
	E2EPartialCb  int               `json:"e2e_partial_consumptions"`
	BurstRun      int               `json:"burst_run"`
	BurstMaxLen   int               `json:"burst_max_buffer"`
	BurstShrinks  int               `json:"burst_shrinks"`
	BurstThr      int               `json:"burst_threshold_callbacks"`
	WrReplayed    int               `json:"wr_replayed"`
	WrConforming  int               `json:"wr_conforming"`
	WrSteps       int               `json:"wr_steps"`
	DispReplayed  int               `json:"disp_replayed"`
	DispConform   int               `json:"disp_conforming"`
	DispSteps     int               `json:"disp_steps"`
	DispRounds    int               `json:"disp_epoll_rounds"`
	DispInOut     int               `json:"disp_in_out_events_while_writer_parked"`
	DispRdhupIn   int               `json:"disp_rdhup_in_events"`
	DispLost      int               `json:"disp_bytes_not_offered_at_close"`
	DispWakes     int               `json:"disp_writer_wakeups"`
	Probes        map[string]string `json:"probes"`
	Samples       []string          `json:"samples"`
	Notes         []string          `json:"notes"`
	TimesMs       map[string]int64  `json:"times_ms"`
	Complete      bool              `json:"complete"`
}

// ------------------------------------------------------------------------------------------------ common helpers

func ecStream(n int) []byte {
	b := make([]byte, n)
	for p := 0; p < n; p++ {
		b[p] = byte(p*131 + (p>>8)*31 + (p>>16)*7 + 1)
	}
	return b
}

func ecSocketpair(typ int) (int, int, error) {
	fds, err := unix.Socketpair(unix.AF_UNIX, typ|unix.SOCK_CLOEXEC, 0)
	if err != nil {
		return -1, -1, err
	}
	unix.SetNonblock(fds[0], true)
	unix.SetNonblock(fds[1], true)
	return fds[0], fds[1], nil
}

func ecSetBuf(fd, opt, v int) int {
	if v <= 0 {
		return 0
	}
	force := unix.SO_SNDBUFFORCE
	if opt == unix.SO_RCVBUF {
		force = unix.SO_RCVBUFFORCE
	}
	if v > 200000 {
		if err := unix.SetsockoptInt(fd, unix.SOL_SOCKET, force, v); err != nil {
			unix.SetsockoptInt(fd, unix.SOL_SOCKET, opt, v)
		}
	} else {
		unix.SetsockoptInt(fd, unix.SOL_SOCKET, opt, v)
	}
	got, _ := unix.GetsockoptInt(fd, unix.SOL_SOCKET, opt)
	return got
}

// a connEventHandler built in-package around an fd the harness owns (not registered with epoll: the harness is the
// event loop and calls onReadReady / onWriteReady itself)
func ecNewHandler(fd int, initLen int, cb eventConnCallback) *connEventHandler {
	return &connEventHandler{fd: fd, readBuffer: make([]byte, initLen), onWriteReadyCh: make(chan struct{}, 1), callback: cb}
}

func ecInq(fd int) int {
	n, err := unix.IoctlGetInt(fd, unix.TIOCINQ)
	if err != nil {
		return -1
	}
	return n
}

func ecShort(b []byte) string {
	if len(b) > 24 {
		return fmt.Sprintf("%x..(%d bytes)", b[:24], len(b))
	}
	return fmt.Sprintf("%x", b)
}

func ecFirstDiff(a, b []byte) int {
	n := len(a)
	if len(b) < n {
		n = len(b)
	}
	for i := 0; i < n; i++ {
		if a[i] != b[i] {
			return i
		}
	}
	return n
}

// ------------------------------------------------------------------------------------------------ window replay

const (
	ecOpW       = 0
	ecOpRStart  = 1
	ecOpRTop    = 2
	ecOpRSys    = 3
	ecOpREagain = 4
	ecOpRCb     = 5
)

type ecWinSched struct {
	Name    string  `json:"name"`
	Unit    int     `json:"unit"`
	InitLen int     `json:"initlen"`
	N       int     `json:"n"`
	Init    int     `json:"init"`  // state index of the initial state
	Steps   [][]int `json:"steps"` // [op, arg, stateIndex of the state after the step]
}

type ecWinRun struct {
	job      *ecJob
	s        *ecWinSched
	res      *ecResult
	h        *connEventHandler
	wfd      int
	stream   []byte
	pos      int
	consumed int
	queued   int
	shown    int // consumed + len(arg) at the last callback
	drift    string
	viol     *ecViolation
	beyond   bool
	drain    bool
	cbInCall int
}

func (r *ecWinRun) fail(kind, detail string) {
	if r.viol == nil {
		r.viol = &ecViolation{Kind: kind, Part: "window", Name: r.s.Name, Detail: detail, Replay: map[string]interface{}{"part": "window", "sched": r.s, "states": r.statesUsed()}}
	}
}

func (r *ecWinRun) statesUsed() map[string][]int {
	out := map[string][]int{}
	out[fmt.Sprint(r.s.Init)] = r.job.States[r.s.Init]
	for _, st := range r.s.Steps {
		if st[2] >= 0 && st[2] < len(r.job.States) {
			out[fmt.Sprint(st[2])] = r.job.States[st[2]]
		}
	}
	return out
}

func (r *ecWinRun) stateBefore(i int) []int {
	if i == 0 {
		return r.job.States[r.s.Init]
	}
	return r.job.States[r.s.Steps[i-1][2]]
}

func (r *ecWinRun) compare(st []int, when string) {
	if r.drift != "" || st == nil {
		return
	}
	u := r.s.Unit
	r.res.WinCompared++
	if len(r.h.readBuffer) != st[0]*u || r.h.readStartOff != st[1]*u || r.h.readEndOff != st[2]*u || r.consumed != st[3]*u {
		r.drift = fmt.Sprintf("%s step %d (%s): real len/start/end/consumed = %d/%d/%d/%d, spec %d/%d/%d/%d (x unit %d)", r.s.Name, r.pos, when,
			len(r.h.readBuffer), r.h.readStartOff, r.h.readEndOff, r.consumed, st[0], st[1], st[2], st[3], u)
	}
}

func (r *ecWinRun) onRemoteClose() {
	r.fail("remote-close", "onRemoteClose called although the peer is open")
}
func (r *ecWinRun) onLocalClose() {}

func (r *ecWinRun) onEventData(buf []byte, conn eventConn) error {
	r.res.WinCallbacks++
	r.cbInCall++
	// ---- property oracle: the argument is the unconsumed bytes followed by the new ones, i.e. the stream from `consumed`
	if r.consumed+len(buf) > len(r.stream) || !bytes.Equal(buf, r.stream[r.consumed:r.consumed+len(buf)]) {
		end := r.consumed + len(buf)
		if end > len(r.stream) {
			end = len(r.stream)
		}
		d := ecFirstDiff(buf, r.stream[r.consumed:end])
		r.fail("callback-argument", fmt.Sprintf("callback #%d got %d bytes %s but consumed=%d so it must see stream[%d:%d]=%s (first difference at +%d; %d bytes were put into the socket)",
			r.res.WinCallbacks, len(buf), ecShort(buf), r.consumed, r.consumed, r.consumed+len(buf), ecShort(r.stream[r.consumed:end]), d, r.queued))
	}
	if r.consumed+len(buf) < r.shown {
		r.fail("callback-argument", fmt.Sprintf("callback sees stream up to %d, an earlier call already saw up to %d", r.consumed+len(buf), r.shown))
	}
	r.shown = r.consumed + len(buf)
	if r.drain {
		conn.commitRead(len(buf))
		r.consumed += len(buf)
		return nil
	}
	// ---- conformance: find the RCallback step of the behaviour
	i := r.pos
	for i < len(r.s.Steps) && r.s.Steps[i][0] != ecOpRCb {
		i++
	}
	if i >= len(r.s.Steps) {
		r.beyond = true
		return nil
	}
	r.pos = i
	pre := r.stateBefore(i)
	r.compare(pre, "callback entry")
	if r.drift == "" && len(buf) != (pre[2]-pre[1])*r.s.Unit {
		r.drift = fmt.Sprintf("%s step %d: callback argument has %d bytes, spec %d", r.s.Name, i, len(buf), (pre[2]-pre[1])*r.s.Unit)
	}
	k := r.s.Steps[i][1] * r.s.Unit
	if k > len(buf) {
		k = len(buf)
	}
	lenBefore := len(r.h.readBuffer)
	conn.commitRead(k)
	r.consumed += k
	if len(r.h.readBuffer) < lenBefore {
		r.res.WinShrinks++
	}
	post := r.job.States[r.s.Steps[i][2]]
	if post[4] == 0 {
		r.res.WinThreshold++
	}
	r.pos = i + 1
	r.compare(post, "after commitRead")
	return nil
}

func ecProgress(part string, idx int, name string) {
	fmt.Fprintf(os.Stderr, "ECPROGRESS %s %d %s\n", part, idx, name)
}

func ecRunWindow(job *ecJob, s *ecWinSched, res *ecResult) {
	rfd, wfd, err := ecSocketpair(unix.SOCK_DGRAM)
	if err != nil {
		res.Notes = append(res.Notes, "socketpair: "+err.Error())
		return
	}
	defer unix.Close(rfd)
	defer unix.Close(wfd)
	if s.Unit > 1 {
		ecSetBuf(wfd, unix.SO_SNDBUF, (s.N+2)*s.Unit*2)
		ecSetBuf(rfd, unix.SO_RCVBUF, (s.N+2)*s.Unit*2)
	}
	r := &ecWinRun{job: job, s: s, res: res, wfd: wfd, stream: ecWinStream(s.N * s.Unit)}
	r.h = ecNewHandler(rfd, s.InitLen*s.Unit, r)
	defer func() {
		if p := recover(); p != nil {
			r.fail("panic", fmt.Sprintf("panic at step %d: %v\n%s", r.pos, p, ecTrimStack(debug.Stack())))
		}
		res.WinReplayed++
		res.WinSteps += len(s.Steps)
		if r.viol != nil {
			res.Violations = append(res.Violations, *r.viol)
		}
		if r.drift != "" {
			if len(res.Drift) < 10 {
				res.Drift = append(res.Drift, r.drift)
			}
		} else if r.viol == nil {
			res.WinConforming++
		}
	}()
	invoke := func(reads []int) bool {
		for _, n := range reads {
			nb := n * s.Unit
			if r.queued+nb > len(r.stream) {
				r.drift = "behaviour reads more than the stream"
				return false
			}
			if _, err := unix.Write(wfd, r.stream[r.queued:r.queued+nb]); err != nil {
				res.Notes = append(res.Notes, fmt.Sprintf("%s: cannot queue a %d byte datagram: %v", s.Name, nb, err))
				r.drift = "harness: datagram not queued"
				return false
			}
			r.queued += nb
		}
		lenBefore := len(r.h.readBuffer)
		r.cbInCall = 0
		if err := r.h.onReadReady(); err != nil {
			r.fail("error", "onReadReady returned "+err.Error())
		}
		if len(r.h.readBuffer) > lenBefore {
			res.WinExpands++
		}
		// everything that was in the socket has been read and shown to the callback
		if r.cbInCall == 0 {
			r.fail("not-offered", "onReadReady returned without calling the callback")
		} else if r.shown != r.queued {
			r.fail("not-offered", fmt.Sprintf("%d bytes were in the socket, the last callback of this onReadReady saw the stream only up to %d", r.queued, r.shown))
		}
		if n := ecDgramPending(r.h.fd); n > 0 {
			r.fail("not-read", fmt.Sprintf("onReadReady returned with %d bytes still in the socket (edge-triggered: they would never be read)", n))
		}
		return r.viol == nil
	}
	for r.pos < len(s.Steps) && r.viol == nil && !r.beyond {
		st := s.Steps[r.pos]
		if st[0] != ecOpRStart {
			r.pos++
			continue
		}
		// collect the reads of this invocation: up to the final callback (the one that returns to idle) or the end
		var reads []int
		j := r.pos + 1
		for ; j < len(s.Steps); j++ {
			if s.Steps[j][0] == ecOpRSys {
				reads = append(reads, s.Steps[j][1])
			}
			if s.Steps[j][0] == ecOpRCb && job.States[s.Steps[j][2]][4] == 1 {
				break
			}
		}
		complete := j < len(s.Steps)
		r.pos++
		if !invoke(reads) {
			break
		}
		if complete && !r.beyond {
			r.compare(job.States[s.Steps[j][2]], "after onReadReady")
			if r.pos != j+1 && r.drift == "" {
				r.drift = fmt.Sprintf("%s: onReadReady made fewer callbacks than the behaviour (at step %d, expected to be past %d)", s.Name, r.pos, j)
				r.pos = j + 1
			}
		} else {
			break
		}
	}
	// epilogue: one more read-ready with more of the stream (one datagram that fits the room the loop will have), the
	// callback takes everything
	if r.viol == nil {
		r.drain = true
		var rest []int
		left := (len(r.stream) - r.queued) / s.Unit
		room := len(r.h.readBuffer) - r.h.readEndOff
		if room == 0 {
			room = len(r.h.readBuffer) + r.h.readStartOff // after maybeExpandReadBuffer
		}
		n := room / s.Unit
		if n > left {
			n = left
		}
		if n > 2 && s.Unit > 1 {
			n = 2
		}
		if n >= 1 {
			rest = []int{n}
		}
		invoke(rest)
		if r.viol == nil && r.consumed != r.queued {
			r.fail("lost", fmt.Sprintf("after a draining callback consumed=%d but %d bytes went through the socket", r.consumed, r.queued))
		}
		if r.viol == nil && (r.h.readStartOff != 0 || r.h.readEndOff != 0) {
			r.fail("window", fmt.Sprintf("drained but readStartOff/readEndOff = %d/%d", r.h.readStartOff, r.h.readEndOff))
		}
	}
}

var ecStreamCache = map[int][]byte{}

func ecWinStream(n int) []byte {
	if s, ok := ecStreamCache[n]; ok {
		return s
	}
	s := ecStream(n)
	ecStreamCache[n] = s
	return s
}

func ecDgramPending(fd int) int {
	n := ecInq(fd)
	if n < 0 {
		return 0
	}
	return n
}

func ecTrimStack(b []byte) string {
	lines := strings.Split(string(b), "\n")
	var out []string
	for _, l := range lines {
		if strings.Contains(l, "event_dispatcher") || strings.Contains(l, "session.go") || strings.Contains(l, "connEventHandler") {
			out = append(out, strings.TrimSpace(l))
		}
	}
	if len(out) > 8 {
		out = out[:8]
	}
	return strings.Join(out, " | ")
}

// ------------------------------------------------------------------------------------------------ pipe scenarios

type ecPipeScen struct {
	Name    string  `json:"name"`
	Sndbuf  int     `json:"sndbuf"`
	InitLen int     `json:"initlen"`
	Ops     [][]int `json:"ops"`  // [0,size] write(msg) ; [4,seed,count] writev of count slices; [1] one writer syscall; [2] EPOLLOUT; [3,consIdx] EPOLLIN
	Cons    [][]int `json:"cons"` // consumption choices (permille of what is offered) per callback of a read-ready call
}

type ecPipeRun struct {
	sc        *ecPipeScen
	res       *ecResult
	w, r      *connEventHandler
	wfd, rfd  int
	sent      []byte // every byte handed to write/writev so far, in call order
	consumed  int
	shown     int
	cons      []int
	consPos   int
	drain     bool
	viol      *ecViolation
	th        *vsThread
	thErr     error
	thBusy    bool
	blocked   bool
	pending   [][]int
	pattern   []string
	trace     []string
	werr      []string
	tokBefore int
}

func (p *ecPipeRun) fail(kind, detail string) {
	if p.viol == nil {
		p.viol = &ecViolation{Kind: kind, Part: "pipe", Name: p.sc.Name, Detail: detail + " [kernel answers: " + strings.Join(p.pattern, ",") + "]",
			Replay: map[string]interface{}{"part": "pipe", "scen": p.sc}}
	}
}

func (p *ecPipeRun) onRemoteClose() {
	p.fail("remote-close", "onRemoteClose although the peer is open")
}
func (p *ecPipeRun) onLocalClose() {}
func (p *ecPipeRun) onEventData(buf []byte, conn eventConn) error {
	end := p.consumed + len(buf)
	if end > len(p.sent) || !bytes.Equal(buf, p.sent[p.consumed:end]) {
		e2 := end
		if e2 > len(p.sent) {
			e2 = len(p.sent)
		}
		d := ecFirstDiff(buf, p.sent[p.consumed:e2])
		p.fail("callback-argument", fmt.Sprintf("callback got %d bytes but consumed=%d, written so far=%d: it must see written[%d:%d]; first difference at +%d (got %s, want %s)",
			len(buf), p.consumed, len(p.sent), p.consumed, end, d, ecShort(buf[d:]), ecShort(p.sent[p.consumed+d:e2])))
	}
	if end < p.shown {
		p.fail("callback-argument", fmt.Sprintf("callback sees the stream up to %d, an earlier one saw %d", end, p.shown))
	}
	p.shown = end
	k := 0
	if p.drain {
		k = len(buf)
	} else if p.consPos < len(p.cons) {
		k = len(buf) * p.cons[p.consPos] / 1000
		p.consPos++
	}
	conn.commitRead(k)
	p.consumed += k
	return nil
}

// ecStep: let the writer thread execute exactly one syscall attempt. Returns n (bytes the kernel took, from the peer's
// FIONREAD), and whether the thread is now blocked in `<-onWriteReadyCh`.
func (p *ecPipeRun) step() {
	t := p.th
	before := ecInq(p.rfd)
	first := t.pos == ""
	p.tokBefore = len(p.w.onWriteReadyCh)
	vsCur = t
	t.resume <- struct{}{}
	p.waitParked(before, first)
}

func (p *ecPipeRun) waitParked(before int, first bool) {
	t := p.th
	deadline := time.Now().Add(15 * time.Second)
	for {
		select {
		case t.pos = <-t.parked:
			p.account(before, first, false)
			if t.done {
				p.thBusy = false
				if t.panicVal != nil {
					p.fail("panic", fmt.Sprintf("write panicked: %v", t.panicVal))
				}
			}
			return
		case <-time.After(300 * time.Microsecond):
			if !first && ecAsleepIn("connEventHandler).write(", "connEventHandler).doWritev(") {
				// the thread sits in `<-c.onWriteReadyCh`
				p.account(before, first, true)
				p.blocked = true
				return
			}
			if time.Now().After(deadline) {
				p.fail("stuck", "writer thread neither reached its next syscall nor blocked on onWriteReadyCh within 15s")
				p.thBusy = false
				return
			}
		}
	}
}

// is there a goroutine with one of these frames that is blocked in a channel receive of the library (not in the scheduler)?
func ecAsleepIn(frames ...string) bool {
	buf := make([]byte, 1<<17)
	n := runtime.Stack(buf, true)
	for _, sec := range strings.Split(string(buf[:n]), "\n\n") {
		found := false
		for _, f := range frames {
			if strings.Contains(sec, f) {
				found = true
			}
		}
		if !found || strings.Contains(sec, "vsYield") || strings.Contains(sec, "vsGateCheck") {
			continue
		}
		nl := strings.IndexByte(sec, '\n')
		if nl > 0 && (strings.Contains(sec[:nl], "[chan receive") || strings.Contains(sec[:nl], "[select")) {
			return true
		}
	}
	return false
}

func (p *ecPipeRun) account(before int, first, blocked bool) {
	if first {
		p.trace = append(p.trace, `{"ev":"start"}`)
		return
	}
	n := ecInq(p.rfd) - before
	p.res.PipeSyscalls++
	if n > 0 {
		p.pattern = append(p.pattern, fmt.Sprint(n))
		p.trace = append(p.trace, fmt.Sprintf(`{"ev":"sys","n":%d}`, n))
		if !p.th.done || blocked {
			p.res.PipePartial++
		}
	} else if !blocked && len(p.w.onWriteReadyCh) == p.tokBefore {
		// the syscall took nothing and no token was used: a writev whose remaining slices are all empty returned 0
		p.pattern = append(p.pattern, "0")
		p.trace = append(p.trace, `{"ev":"zero"}`)
	} else {
		p.res.PipeEagain++
		if blocked {
			p.res.PipeBlocked++
			p.pattern = append(p.pattern, "EAGAIN-block")
			p.trace = append(p.trace, `{"ev":"eagain","tok":0}`)
		} else {
			p.pattern = append(p.pattern, "EAGAIN")
			p.trace = append(p.trace, `{"ev":"eagain","tok":1}`)
		}
	}
	if p.th.done {
		p.trace = append(p.trace, `{"ev":"ret"}`)
	}
}

func (p *ecPipeRun) ready() {
	if p.blocked {
		before := ecInq(p.rfd)
		vsCur = p.th
		p.blocked = false
		p.w.onWriteReady()
		p.trace = append(p.trace, `{"ev":"ready"}`)
		// the thread wakes up, `continue`s and parks in front of its next syscall
		select {
		case p.th.pos = <-p.th.parked:
			p.trace = append(p.trace, `{"ev":"wake"}`)
			if p.th.done {
				p.thBusy = false
				p.trace = append(p.trace, `{"ev":"ret"}`)
			}
		case <-time.After(10 * time.Second):
			p.fail("stuck", "writer not woken by onWriteReady")
			p.thBusy = false
		}
		_ = before
		return
	}
	if len(p.w.onWriteReadyCh) == 0 {
		p.trace = append(p.trace, `{"ev":"ready"}`)
	}
	p.w.onWriteReady()
}

func (p *ecPipeRun) startNext() {
	if p.thBusy || len(p.pending) == 0 {
		return
	}
	op := p.pending[0]
	p.pending = p.pending[1:]
	base := len(p.sent)
	if op[0] == 0 {
		size := op[1]
		data := make([]byte, size)
		for i := range data {
			data[i] = byte((base+i)*131 + ((base+i)>>8)*31 + ((base+i)>>16)*7 + 1)
		}
		p.sent = append(p.sent, data...)
		p.trace = append(p.trace, fmt.Sprintf(`{"ev":"msg","size":%d}`, size))
		p.th = vsSpawn(1, func(t *vsThread) {
			if err := p.w.write(data); err != nil {
				p.werr = append(p.werr, err.Error())
			}
		})
	} else {
		rng := rand.New(rand.NewSource(int64(op[1])))
		cnt := op[2]
		var slices [][]byte
		total := 0
		for i := 0; i < cnt; i++ {
			var l int
			switch rng.Intn(4) {
			case 0:
				l = 1 + rng.Intn(4)
			case 1:
				l = 1 + rng.Intn(300)
			default:
				l = 1 + rng.Intn(40)
			}
			if cnt < 8 {
				l = 1 + rng.Intn(6000)
			}
			if ecWritevEmptyOK && rng.Intn(5) == 0 {
				l = 0
			}
			sl := make([]byte, l)
			for j := range sl {
				q := base + total + j
				sl[j] = byte(q*131 + (q>>8)*31 + (q>>16)*7 + 1)
			}
			total += l
			slices = append(slices, sl)
			p.sent = append(p.sent, sl...)
		}
		if total == 0 {
			// (all slices came out empty: keep one byte so that the call is a message of the trace)
			q := base
			slices[len(slices)-1] = []byte{byte(q*131 + (q>>8)*31 + (q>>16)*7 + 1)}
			p.sent = append(p.sent, slices[len(slices)-1]...)
			total = 1
		}
		p.trace = append(p.trace, fmt.Sprintf(`{"ev":"msg","size":%d}`, total))
		p.th = vsSpawn(1, func(t *vsThread) {
			if err := p.w.writev(slices...); err != nil {
				p.werr = append(p.werr, err.Error())
			}
		})
	}
	p.thBusy = true
	p.blocked = false
	p.step() // runs to the scheduling point in front of the first syscall
}

func (p *ecPipeRun) readReady(cons []int, drain bool) {
	p.cons, p.consPos, p.drain = cons, 0, drain
	before := ecInq(p.rfd)
	if err := p.r.onReadReady(); err != nil {
		p.fail("error", "onReadReady: "+err.Error())
	}
	if before > 0 {
		p.trace = append(p.trace, fmt.Sprintf(`{"ev":"drain","n":%d}`, before))
	}
	if n := ecInq(p.rfd); n > 0 {
		p.fail("not-read", fmt.Sprintf("onReadReady returned with %d bytes left in the socket", n))
	}
	if p.shown != p.consumed+(p.r.readEndOff-p.r.readStartOff) {
		p.fail("window", fmt.Sprintf("shown %d != consumed %d + window %d", p.shown, p.consumed, p.r.readEndOff-p.r.readStartOff))
	}
}

func ecRunPipe(sc *ecPipeScen, res *ecResult, traceOut *[]string) {
	wfd, rfd, err := ecSocketpair(unix.SOCK_STREAM)
	if err != nil {
		res.Notes = append(res.Notes, "socketpair: "+err.Error())
		return
	}
	defer unix.Close(wfd)
	defer unix.Close(rfd)
	ecSetBuf(wfd, unix.SO_SNDBUF, sc.Sndbuf)
	p := &ecPipeRun{sc: sc, res: res, wfd: wfd, rfd: rfd}
	p.w = ecNewHandler(wfd, 16, p)
	p.r = ecNewHandler(rfd, sc.InitLen, p)
	vsReset(vsSched)
	defer vsReset(vsOff)
	defer func() {
		if x := recover(); x != nil {
			p.fail("panic", fmt.Sprintf("panic: %v | %s", x, ecTrimStack(debug.Stack())))
		}
		res.PipeRun++
		res.PipeBytes += int64(len(p.sent))
		if p.viol != nil {
			res.Violations = append(res.Violations, *p.viol)
		} else if traceOut != nil {
			*traceOut = append(*traceOut, `{"ev":"reset"}`)
			*traceOut = append(*traceOut, p.trace...)
			res.PipeTraces++
			res.PipeTraceEv += len(p.trace) + 1
		}
		ecPipePatterns[strings.Join(p.pattern, ",")] = true
		// never leave a goroutine parked on the scheduler
		if p.thBusy && p.th != nil && !p.th.done {
			atomic.StoreUint32(&p.w.isClose, 1)
			if p.blocked {
				close(p.w.onWriteReadyCh)
			} else {
				vsCur = p.th
				p.th.resume <- struct{}{}
			}
			for !p.th.done {
				select {
				case <-p.th.parked:
					if !p.th.done {
						p.th.resume <- struct{}{}
					}
				case <-time.After(2 * time.Second):
					return
				}
			}
		}
	}()
	for _, op := range sc.Ops {
		if p.viol != nil {
			return
		}
		switch op[0] {
		case 0, 4:
			p.pending = append(p.pending, op)
			p.startNext()
		case 1:
			if p.thBusy && !p.blocked {
				p.step()
			}
			p.startNext()
		case 2:
			p.ready()
		case 3:
			var cons []int
			if op[1] >= 0 && op[1] < len(sc.Cons) {
				cons = sc.Cons[op[1]]
			}
			p.readReady(cons, false)
		}
	}
	// epilogue: run everything to completion with a draining consumer
	for guard := 0; p.viol == nil && (p.thBusy || len(p.pending) > 0); guard++ {
		if guard > 200000 {
			p.fail("stuck", "epilogue does not terminate")
			return
		}
		p.startNext()
		if p.thBusy && !p.blocked {
			p.step()
			continue
		}
		if p.blocked {
			p.readReady(nil, true)
			p.ready()
		}
	}
	if p.viol != nil {
		return
	}
	if len(p.werr) > 0 {
		p.fail("write-error", "write returned "+strings.Join(p.werr, ";"))
		return
	}
	p.readReady(nil, true)
	if p.viol == nil && p.consumed != len(p.sent) {
		p.fail("lost", fmt.Sprintf("all writes returned nil: %d bytes written, the peer's callback consumed %d in total (socket empty)", len(p.sent), p.consumed))
	}
}

var ecPipePatterns = map[string]bool{}

// zero-length slices inside writev are generated only on a tree where the writev-empty-slice probe passes
var ecWritevEmptyOK bool

// ------------------------------------------------------------------------------------------------ e2e (free running)

type ecE2ECfg struct {
	Name    string `json:"name"`
	Seed    int64  `json:"seed"`
	TCP     bool   `json:"tcp"`
	Sndbuf  int    `json:"sndbuf"`
	Rcvbuf  int    `json:"rcvbuf"`
	HotW    int    `json:"hotw"`  // goroutines calling Session.hotRestart (fast path / slow path)
	BodyW   int    `json:"bodyw"` // goroutines calling Session.waitForSend(header, body)
	PollW   int    `json:"pollw"` // goroutines calling Session.wakeUpPeer
	PerW    int    `json:"perw"`
	MaxBody int    `json:"maxbody"`
	Consume int    `json:"consume"` // 0 all complete events, 1 one event, 2 random byte count, 3 mostly nothing
}

type ecRecConn struct {
	inner   eventConn
	mu      sync.Mutex
	log     []byte
	calls   int
	inWrite int32
	overlap int32
	errs    []string
}

func (r *ecRecConn) commitRead(n int)                       { r.inner.commitRead(n) }
func (r *ecRecConn) setCallback(cb eventConnCallback) error { return r.inner.setCallback(cb) }
func (r *ecRecConn) close() error                           { return r.inner.close() }
func (r *ecRecConn) write(d []byte) error {
	if atomic.AddInt32(&r.inWrite, 1) != 1 {
		atomic.AddInt32(&r.overlap, 1)
	}
	r.mu.Lock()
	r.log = append(r.log, d...)
	r.calls++
	r.mu.Unlock()
	err := r.inner.write(d)
	atomic.AddInt32(&r.inWrite, -1)
	if err != nil {
		r.mu.Lock()
		r.errs = append(r.errs, err.Error())
		r.mu.Unlock()
	}
	return err
}
func (r *ecRecConn) writev(d ...[]byte) error {
	if atomic.AddInt32(&r.inWrite, 1) != 1 {
		atomic.AddInt32(&r.overlap, 1)
	}
	r.mu.Lock()
	for _, s := range d {
		r.log = append(r.log, s...)
	}
	r.calls++
	r.mu.Unlock()
	err := r.inner.writev(d...)
	atomic.AddInt32(&r.inWrite, -1)
	return err
}

type ecNullCb struct{ remoteClosed int32 }

func (c *ecNullCb) onEventData(buf []byte, conn eventConn) error {
	conn.commitRead(len(buf))
	return nil
}
func (c *ecNullCb) onRemoteClose() { atomic.StoreInt32(&c.remoteClosed, 1) }
func (c *ecNullCb) onLocalClose()  {}

type ecRecv struct {
	mu        sync.Mutex
	got       []byte // every byte ever shown, in order
	consumed  int
	rng       *rand.Rand
	mode      int
	bad       string
	callbacks int
	partial   int
	closed    int32
	maxLen    int
	shrinks   int
	lastLen   int
	thr       int
	hold      int // burst mode: consume nothing until this many bytes are unconsumed, then everything
	h         *connEventHandler
}

func (r *ecRecv) onRemoteClose() { atomic.StoreInt32(&r.closed, 1) }
func (r *ecRecv) onLocalClose()  {}
func (r *ecRecv) onEventData(buf []byte, conn eventConn) error {
	r.mu.Lock()
	defer r.mu.Unlock()
	r.callbacks++
	prev := r.got[r.consumed:]
	if r.bad == "" && !ecHasPrefixSampled(buf, prev, r.callbacks) {
		d := ecFirstDiff(buf, prev)
		r.bad = fmt.Sprintf("callback #%d: argument (%d bytes) does not start with the %d unconsumed bytes shown before (first difference at +%d, stream offset %d)",
			r.callbacks, len(buf), len(prev), d, r.consumed+d)
	}
	if len(buf) >= len(prev) {
		r.got = append(r.got, buf[len(prev):]...)
	}
	if len(buf) >= 1<<20 {
		r.thr++
	}
	if r.h != nil {
		l := len(r.h.readBuffer)
		if l > r.maxLen {
			r.maxLen = l
		}
		r.lastLen = l
	}
	k := 0
	switch {
	case r.hold > 0:
		if len(buf) >= r.hold {
			k = len(buf)
		}
	case r.mode == 0:
		k = ecCompleteEvents(buf, -1)
	case r.mode == 1:
		k = ecCompleteEvents(buf, 1)
	case r.mode == 2:
		k = r.rng.Intn(len(buf) + 1)
	default:
		if r.rng.Intn(4) == 0 {
			k = r.rng.Intn(len(buf) + 1)
		}
	}
	if k < len(buf) {
		r.partial++
	}
	conn.commitRead(k)
	r.consumed += k
	if r.h != nil && len(r.h.readBuffer) < r.lastLen {
		r.shrinks++
	}
	return nil
}

// does buf start with prev? Complete comparison up to 256 KiB and on every 16th call; otherwise head, tail and a moving
// 16 KiB window (keeps the callback O(new bytes) when megabytes stay unconsumed; the whole stream is compared at the end)
func ecHasPrefixSampled(buf, prev []byte, call int) bool {
	if len(buf) < len(prev) {
		return false
	}
	if len(prev) <= 256<<10 || call%16 == 0 {
		return bytes.Equal(buf[:len(prev)], prev)
	}
	const w = 16 << 10
	if !bytes.Equal(buf[:w], prev[:w]) || !bytes.Equal(buf[len(prev)-w:len(prev)], prev[len(prev)-w:]) {
		return false
	}
	off := (call * 7919 * w) % (len(prev) - w)
	return bytes.Equal(buf[off:off+w], prev[off:off+w])
}

// bytes of the first max (or all, max<0) complete events at the start of buf
func ecCompleteEvents(buf []byte, max int) int {
	off, n := 0, 0
	for len(buf)-off >= headerSize && (max < 0 || n < max) {
		l := int(header(buf[off:]).Length())
		if l < headerSize || off+l > len(buf) {
			break
		}
		off += l
		n++
	}
	return off
}

func ecBodyEvent(wid, seq, size int) (hdr, body []byte) {
	if size < 12 {
		size = 12
	}
	body = make([]byte, size)
	binary.BigEndian.PutUint32(body[0:4], uint32(wid))
	binary.BigEndian.PutUint32(body[4:8], uint32(seq))
	binary.BigEndian.PutUint32(body[8:12], uint32(size))
	for i := 12; i < size; i++ {
		body[i] = byte(wid*57 + seq*13 + i*7 + 3)
	}
	hdr = make([]byte, headerSize)
	header(hdr).encode(uint32(headerSize+size), 3, typeFallbackData)
	return
}

type ecConnPair struct {
	wconn, rconn *connEventHandler
	closeFn      func()
}

func ecRealPair(tcp bool, sndbuf, rcvbuf int, wcb, rcb eventConnCallback) (*ecConnPair, error) {
	ensureDefaultDispatcherInit()
	var wf, rf *os.File
	if tcp {
		ln, err := net.Listen("tcp", "127.0.0.1:0")
		if err != nil {
			return nil, err
		}
		defer ln.Close()
		ch := make(chan net.Conn, 1)
		go func() { c, _ := ln.Accept(); ch <- c }()
		c1, err := net.Dial("tcp", ln.Addr().String())
		if err != nil {
			return nil, err
		}
		c2 := <-ch
		if c2 == nil {
			return nil, fmt.Errorf("accept failed")
		}
		c1.(*net.TCPConn).SetNoDelay(true)
		wf, _ = c1.(*net.TCPConn).File()
		rf, _ = c2.(*net.TCPConn).File()
		c1.Close()
		c2.Close()
	} else {
		a, b, err := ecSocketpair(unix.SOCK_STREAM)
		if err != nil {
			return nil, err
		}
		wf = os.NewFile(uintptr(a), "ec-w")
		rf = os.NewFile(uintptr(b), "ec-r")
	}
	wc := defaultDispatcher.newConnection(wf).(*connEventHandler)
	rc := defaultDispatcher.newConnection(rf).(*connEventHandler)
	ecSetBuf(wc.fd, unix.SO_SNDBUF, sndbuf)
	ecSetBuf(rc.fd, unix.SO_RCVBUF, rcvbuf)
	if r, ok := rcb.(*ecRecv); ok {
		r.h = rc
	}
	if err := rc.setCallback(rcb); err != nil {
		return nil, err
	}
	if err := wc.setCallback(wcb); err != nil {
		return nil, err
	}
	return &ecConnPair{wconn: wc, rconn: rc, closeFn: func() { wc.close(); rc.close() }}, nil
}

func ecRunE2E(cfg *ecE2ECfg, res *ecResult) {
	var viol *ecViolation
	fail := func(kind, detail string) {
		if viol == nil {
			viol = &ecViolation{Kind: kind, Part: "e2e", Name: cfg.Name, Detail: detail, Replay: map[string]interface{}{"part": "e2e", "cfg": cfg}}
		}
	}
	defer func() {
		res.E2ERun++
		if viol != nil {
			res.Violations = append(res.Violations, *viol)
		}
	}()
	recv := &ecRecv{rng: rand.New(rand.NewSource(cfg.Seed*7 + 1)), mode: cfg.Consume}
	wcb := &ecNullCb{}
	pair, err := ecRealPair(cfg.TCP, cfg.Sndbuf, cfg.Rcvbuf, wcb, recv)
	if err != nil {
		res.Notes = append(res.Notes, "e2e setup: "+err.Error())
		return
	}
	defer pair.closeFn()
	rec := &ecRecConn{inner: pair.wconn}
	qbytes := make([]byte, queueHeaderLength+4*queueElementLen)
	q := createQueueFromBytes(qbytes, 4)
	s := &Session{queueManager: &queueManager{sendQueue: q}, eventConn: rec, logger: newLogger("ec", nil),
		sendCh: make(chan sendReady, 4096), notifyContinueWriteCh: make(chan struct{}, 1), shutdownCh: make(chan struct{}),
		communicationVersion: 3, isClient: true, streams: map[uint32]*Stream{}, config: &Config{ConnectionWriteTimeout: 30 * time.Second}}
	var panics int32
	var panicMsg atomic.Value
	guard := func(f func()) {
		defer func() {
			if x := recover(); x != nil {
				atomic.AddInt32(&panics, 1)
				panicMsg.Store(fmt.Sprintf("%v | %s", x, ecTrimStack(debug.Stack())))
			}
		}()
		f()
	}
	go guard(s.send)
	defer close(s.shutdownCh)

	type sentEv struct{ typ, wid, seq, size int }
	var sentMu sync.Mutex
	var sentList []sentEv
	var wg sync.WaitGroup
	var sendErrs int32
	start := make(chan struct{})
	for w := 0; w < cfg.HotW; w++ {
		wg.Add(1)
		wid := 100 + w
		go guard(func() {
			defer wg.Done()
			<-start
			for i := 0; i < cfg.PerW; i++ {
				if err := s.hotRestart(uint64(wid)<<32|uint64(i), typeHotRestart); err != nil {
					atomic.AddInt32(&sendErrs, 1)
				}
				sentMu.Lock()
				sentList = append(sentList, sentEv{8, wid, i, 16})
				sentMu.Unlock()
			}
		})
	}
	for w := 0; w < cfg.BodyW; w++ {
		wg.Add(1)
		wid := 200 + w
		rng := rand.New(rand.NewSource(cfg.Seed*131 + int64(wid)))
		go guard(func() {
			defer wg.Done()
			<-start
			for i := 0; i < cfg.PerW; i++ {
				size := 12 + rng.Intn(cfg.MaxBody)
				if rng.Intn(3) == 0 {
					size = 12 + rng.Intn(40)
				}
				hdr, body := ecBodyEvent(wid, i, size)
				if err := s.waitForSend(hdr, body); err != nil {
					atomic.AddInt32(&sendErrs, 1)
				}
				sentMu.Lock()
				sentList = append(sentList, sentEv{3, wid, i, headerSize + size})
				sentMu.Unlock()
			}
		})
	}
	var pollSent int64
	for w := 0; w < cfg.PollW; w++ {
		wg.Add(1)
		go guard(func() {
			defer wg.Done()
			<-start
			for i := 0; i < cfg.PerW; i++ {
				q.markNotWorking()
				before := atomic.LoadUint64(&s.stats.sendPollingEventCount)
				s.wakeUpPeer()
				_ = before
			}
		})
	}
	close(start)
	done := make(chan struct{})
	go func() { wg.Wait(); close(done) }()
	// "stuck" = no byte moved for 20 s (a slow machine is not a stuck connection)
	lastHave, idleSince := -1, time.Now()
waitSenders:
	for {
		select {
		case <-done:
			break waitSenders
		case <-time.After(50 * time.Millisecond):
			recv.mu.Lock()
			have := len(recv.got)
			recv.mu.Unlock()
			if have != lastHave {
				lastHave, idleSince = have, time.Now()
			} else if time.Since(idleSince) > 20*time.Second {
				fail("stuck", fmt.Sprintf("senders blocked and no byte reached the peer's callback for 20s (sendCh len %d, writing=%d, receiver has %d bytes)", len(s.sendCh), atomic.LoadUint32(&s.writing), have))
				return
			}
		}
	}
	pollSent = int64(atomic.LoadUint64(&s.stats.sendPollingEventCount))
	// quiescence: send loop idle, everything written has been shown to the peer's callback
	lastHave, idleSince = -1, time.Now()
	for {
		rec.mu.Lock()
		want := len(rec.log)
		rec.mu.Unlock()
		recv.mu.Lock()
		have := len(recv.got)
		recv.mu.Unlock()
		if have != lastHave {
			lastHave, idleSince = have, time.Now()
		}
		if len(s.sendCh) == 0 && atomic.LoadUint32(&s.writing) == 0 && have >= want {
			// the slow-path entries are written after being taken from sendCh: wait until the byte count is stable
			time.Sleep(3 * time.Millisecond)
			rec.mu.Lock()
			w2 := len(rec.log)
			rec.mu.Unlock()
			if w2 == want && atomic.LoadUint32(&s.writing) == 0 && len(s.sendCh) == 0 {
				expectedEvents := len(sentList) + int(pollSent)
				if ecCountEvents(rec.log) >= expectedEvents {
					break
				}
			}
		}
		if time.Since(idleSince) > 20*time.Second {
			fail("not-delivered", fmt.Sprintf("every send has returned and nothing moved for 20s: %d bytes were written to the event connection, the peer's callback has seen %d (sendCh %d, writing %d)",
				want, have, len(s.sendCh), atomic.LoadUint32(&s.writing)))
			break
		}
		time.Sleep(time.Millisecond)
	}
	if n := atomic.LoadInt32(&panics); n > 0 {
		fail("panic", fmt.Sprintf("%d goroutine(s) panicked: %v", n, panicMsg.Load()))
	}
	if len(rec.errs) > 0 {
		fail("write-error", "eventConn.write returned "+rec.errs[0])
	}
	if atomic.LoadInt32(&wcb.remoteClosed) != 0 || atomic.LoadInt32(&recv.closed) != 0 {
		fail("remote-close", "a side saw onRemoteClose although nobody closed")
	}
	if viol != nil {
		return
	}
	recv.mu.Lock()
	defer recv.mu.Unlock()
	res.E2ECallbacks += recv.callbacks
	res.E2EPartialCb += recv.partial
	res.E2EBytes += int64(len(recv.got))
	if o := atomic.LoadInt32(&rec.overlap); o > 0 {
		fail("interleave", fmt.Sprintf("%d times a sender entered eventConn.write while another one was inside (the `writing` flag did not exclude them)", o))
		return
	}
	if recv.bad != "" {
		fail("callback-argument", recv.bad)
		return
	}
	// connection level: exactly once, in order
	if !bytes.Equal(recv.got, rec.log) {
		d := ecFirstDiff(recv.got, rec.log)
		fail("stream", fmt.Sprintf("bytes shown to the peer's callback differ from the bytes written (in write-call order): %d vs %d bytes, first difference at offset %d", len(recv.got), len(rec.log), d))
		return
	}
	// event level: every event intact (no other sender's bytes inside), every sent event exactly once, per-sender order on the slow path
	seen := map[[3]int]int{}
	lastSeq := map[int]int{}
	polls := 0
	off := 0
	nEv := 0
	for off < len(recv.got) {
		if len(recv.got)-off < headerSize {
			fail("event", fmt.Sprintf("trailing %d bytes are not an event", len(recv.got)-off))
			return
		}
		h := header(recv.got[off:])
		l := int(h.Length())
		if h.Magic() != magicNumber || l < headerSize || off+l > len(recv.got) {
			fail("event", fmt.Sprintf("event boundary broken at stream offset %d (event #%d): header %x", off, nEv, recv.got[off:off+headerSize]))
			return
		}
		ev := recv.got[off : off+l]
		switch h.MsgType() {
		case typePolling:
			if l != headerSize {
				fail("event", fmt.Sprintf("polling event of length %d at %d", l, off))
				return
			}
			polls++
		case typeHotRestart:
			if l != headerSize+8 {
				fail("event", fmt.Sprintf("hot restart event of length %d at %d", l, off))
				return
			}
			e := binary.BigEndian.Uint64(ev[headerSize:])
			seen[[3]int{8, int(e >> 32), int(e & 0xffffffff)}]++
		case typeFallbackData:
			b := ev[headerSize:]
			if len(b) < 12 {
				fail("event", fmt.Sprintf("body event too short at %d", off))
				return
			}
			wid, seq, size := int(binary.BigEndian.Uint32(b[0:4])), int(binary.BigEndian.Uint32(b[4:8])), int(binary.BigEndian.Uint32(b[8:12]))
			if size != len(b) {
				fail("event", fmt.Sprintf("event at offset %d: header says %d body bytes, body says %d (another sender's bytes inside the event?)", off, len(b), size))
				return
			}
			for i := 12; i < size; i++ {
				if b[i] != byte(wid*57+seq*13+i*7+3) {
					fail("event", fmt.Sprintf("event of sender %d seq %d at stream offset %d: body byte %d is foreign (writes of concurrent senders interleaved inside an event)", wid, seq, off, i))
					return
				}
			}
			if last, ok := lastSeq[wid]; ok && seq != last+1 {
				fail("order", fmt.Sprintf("sender %d: event seq %d arrived after seq %d", wid, seq, last))
				return
			}
			lastSeq[wid] = seq
			seen[[3]int{3, wid, seq}]++
		default:
			fail("event", fmt.Sprintf("unexpected event type %d at %d", h.MsgType(), off))
			return
		}
		off += l
		nEv++
	}
	for _, e := range sentList {
		if seen[[3]int{e.typ, e.wid, e.seq}] != 1 {
			fail("exactly-once", fmt.Sprintf("event type %d of sender %d seq %d arrived %d times", e.typ, e.wid, e.seq, seen[[3]int{e.typ, e.wid, e.seq}]))
			return
		}
	}
	if len(seen) != len(sentList) {
		fail("exactly-once", fmt.Sprintf("%d distinct events arrived, %d were sent", len(seen), len(sentList)))
		return
	}
	if int64(polls) != pollSent {
		fail("exactly-once", fmt.Sprintf("%d polling events arrived, sendPollingEventCount=%d", polls, pollSent))
		return
	}
	res.E2EEvents += nEv
	if atomic.LoadInt32(&sendErrs) > 0 {
		fail("send-error", fmt.Sprintf("%d sends returned an error", sendErrs))
	}
}

func ecCountEvents(b []byte) int {
	off, n := 0, 0
	for len(b)-off >= headerSize {
		l := int(header(b[off:]).Length())
		if l < headerSize || off+l > len(b) {
			break
		}
		off += l
		n++
	}
	return n
}

// ------------------------------------------------------------------------------------------------ bursts (threshold / shrink with the real literals)

type ecBurstCfg struct {
	Name   string `json:"name"`
	Seed   int64  `json:"seed"`
	TCP    bool   `json:"tcp"`
	Sndbuf int    `json:"sndbuf"`
	Writes []int  `json:"writes"` // sizes of consecutive write calls
	Hold   []int  `json:"hold"`   // phase i: the consumer takes nothing until hold[i] bytes are unconsumed, then everything
}

func ecRunBurst(cfg *ecBurstCfg, res *ecResult) {
	var viol *ecViolation
	fail := func(kind, detail string) {
		if viol == nil {
			viol = &ecViolation{Kind: kind, Part: "burst", Name: cfg.Name, Detail: detail, Replay: map[string]interface{}{"part": "burst", "cfg": cfg}}
		}
	}
	defer func() {
		res.BurstRun++
		if viol != nil {
			res.Violations = append(res.Violations, *viol)
		}
	}()
	recv := &ecRecv{rng: rand.New(rand.NewSource(cfg.Seed)), mode: 0}
	wcb := &ecNullCb{}
	if len(cfg.Hold) > 0 {
		recv.hold = cfg.Hold[0]
	}
	pair, err := ecRealPair(cfg.TCP, cfg.Sndbuf, 0, wcb, recv)
	if err != nil {
		res.Notes = append(res.Notes, "burst setup: "+err.Error())
		return
	}
	defer pair.closeFn()
	total := 0
	for _, w := range cfg.Writes {
		total += w
	}
	stream := ecWinStream(total)
	// phases: bytes are written until the hold level of the phase is reached and consumed, then the next phase
	phase := 0
	off := 0
	werr := make(chan error, 1)
	go func() {
		defer func() {
			if x := recover(); x != nil {
				werr <- fmt.Errorf("panic in write: %v", x)
			}
		}()
		for _, w := range cfg.Writes {
			if err := pair.wconn.write(stream[off : off+w]); err != nil {
				werr <- err
				return
			}
			off += w
		}
		werr <- nil
	}()
	select {
	case err := <-werr:
		if err != nil {
			fail("write-error", err.Error())
			return
		}
	case <-time.After(120 * time.Second):
		fail("stuck", fmt.Sprintf("write of %d bytes did not return within 120s (receiver has seen %d)", total, len(recv.got)))
		return
	}
	lastHave, idleSince := -1, time.Now()
	for {
		recv.mu.Lock()
		have := len(recv.got)
		cons := recv.consumed
		// next phase when everything so far was consumed
		if cons == have && phase+1 < len(cfg.Hold) && have > 0 {
			phase++
			recv.hold = cfg.Hold[phase]
		}
		recv.mu.Unlock()
		if have >= total {
			break
		}
		if have != lastHave {
			lastHave, idleSince = have, time.Now()
		}
		if time.Since(idleSince) > 20*time.Second {
			fail("not-delivered", fmt.Sprintf("%d bytes written, all writes returned; nothing moved for 20s and the peer's callback has seen %d", total, have))
			return
		}
		time.Sleep(time.Millisecond)
	}
	recv.mu.Lock()
	defer recv.mu.Unlock()
	if recv.bad != "" {
		fail("callback-argument", recv.bad)
		return
	}
	if !bytes.Equal(recv.got, stream) {
		d := ecFirstDiff(recv.got, stream)
		fail("stream", fmt.Sprintf("%d bytes written, callback saw %d, first difference at offset %d", total, len(recv.got), d))
		return
	}
	if recv.maxLen > res.BurstMaxLen {
		res.BurstMaxLen = recv.maxLen
	}
	res.BurstShrinks += recv.shrinks
	res.BurstThr += recv.thr
	res.E2ECallbacks += recv.callbacks
}

// ------------------------------------------------------------------------------------------------ probes

// writev with an empty slice among the data ("for any message sizes")
func ecProbeWritevEmpty() (outcome string) {
	wfd, rfd, err := ecSocketpair(unix.SOCK_STREAM)
	if err != nil {
		return "setup: " + err.Error()
	}
	defer unix.Close(wfd)
	defer unix.Close(rfd)
	h := ecNewHandler(wfd, 16, &ecNullCb{})
	done := make(chan string, 1)
	go func() {
		defer func() {
			if x := recover(); x != nil {
				done <- fmt.Sprintf("panic: %v", x)
			}
		}()
		err := h.writev([]byte("ab"), []byte{}, []byte("cd"))
		if err != nil {
			done <- "error: " + err.Error()
			return
		}
		buf := make([]byte, 16)
		n, _ := unix.Read(rfd, buf)
		if string(buf[:n]) == "abcd" {
			done <- "ok"
		} else {
			done <- fmt.Sprintf("wrong bytes %q", buf[:n])
		}
	}()
	select {
	case s := <-done:
		return s
	case <-time.After(3 * time.Second):
		atomic.StoreUint32(&h.isClose, 1)
		return "hang: writev did not return within 3s"
	}
}

// data written immediately before the peer closes its end
func ecProbeDataThenClose() string {
	recv := &ecRecv{rng: rand.New(rand.NewSource(1)), mode: 2}
	recv.mode = 0
	a, b, err := ecSocketpair(unix.SOCK_STREAM)
	if err != nil {
		return "setup"
	}
	ensureDefaultDispatcherInit()
	rc := defaultDispatcher.newConnection(os.NewFile(uintptr(b), "ec-r")).(*connEventHandler)
	recv.h = rc
	// data and close are both in the socket before the fd is registered: one epoll event carries IN|RDHUP
	unix.Write(a, []byte("0123456789abcdef"))
	unix.Close(a)
	if err := rc.setCallback(&ecAllCb{r: recv}); err != nil {
		return "setup: " + err.Error()
	}
	deadline := time.Now().Add(1500 * time.Millisecond)
	for time.Now().Before(deadline) && atomic.LoadInt32(&recv.closed) == 0 {
		time.Sleep(time.Millisecond)
	}
	time.Sleep(5 * time.Millisecond)
	recv.mu.Lock()
	defer recv.mu.Unlock()
	return fmt.Sprintf("remoteClose=%d bytes_offered=%d of 16", atomic.LoadInt32(&recv.closed), len(recv.got))
}

type ecAllCb struct{ r *ecRecv }

func (c *ecAllCb) onEventData(buf []byte, conn eventConn) error {
	c.r.mu.Lock()
	c.r.got = append(c.r.got, buf...)
	c.r.mu.Unlock()
	conn.commitRead(len(buf))
	return nil
}
func (c *ecAllCb) onRemoteClose() { atomic.StoreInt32(&c.r.closed, 1) }
func (c *ecAllCb) onLocalClose()  {}

// ------------------------------------------------------------------------------------------------ writer protocol replay (gates)

const (
	ecWrFast1  = 1 // thread 1: Session.wakeUpPeer
	ecWrFast2  = 2 // thread 2: Session.hotRestart
	ecWrLoop   = 3 // Session.send
	ecWrSubmit = 4 // a waitForSend caller puts an entry into sendCh (not instrumented: one atomic step)
)

type ecWrSched struct {
	Name  string  `json:"name"`
	Calls []int   `json:"calls"` // calls per fast-path thread [n1, n2], submits
	Init  int     `json:"init"`
	Steps [][]int `json:"steps"` // [thread, kind, stateIndex]; kind: 1 begin call, 0 step (one atomic access), 2 silent (recv / token consumption: the real goroutine does it eagerly)
}

type ecWrWorld struct {
	s        *Session
	rec      *ecWrConn
	q        *queue
	gates    map[int]*vsGateT
	running  map[int]bool // goroutine exists and has not returned
	retCh    map[int]chan struct{}
	prefixes map[int]string
	frames   map[int]string
}

// fake transport that records who is inside write and what the wire looks like
type ecWrConn struct {
	mu      sync.Mutex
	wire    [][]byte
	inside  int32
	overlap int32
}

func (c *ecWrConn) commitRead(n int)                       {}
func (c *ecWrConn) setCallback(cb eventConnCallback) error { return nil }
func (c *ecWrConn) close() error                           { return nil }
func (c *ecWrConn) writev(d ...[]byte) error               { return nil }
func (c *ecWrConn) write(d []byte) error {
	if atomic.AddInt32(&c.inside, 1) != 1 {
		atomic.AddInt32(&c.overlap, 1)
	}
	c.mu.Lock()
	c.wire = append(c.wire, append([]byte(nil), d...))
	c.mu.Unlock()
	atomic.AddInt32(&c.inside, -1)
	return nil
}

func ecNewWrWorld() *ecWrWorld {
	w := &ecWrWorld{gates: map[int]*vsGateT{}, running: map[int]bool{}, retCh: map[int]chan struct{}{}}
	w.prefixes = map[int]string{ecWrFast1: "Session.wakeUpPeer:", ecWrFast2: "Session.hotRestart:", ecWrLoop: "Session.send:"}
	w.frames = map[int]string{ecWrFast1: "(*Session).wakeUpPeer(", ecWrFast2: "(*Session).hotRestart(", ecWrLoop: "(*Session).send("}
	w.retCh[ecWrLoop] = make(chan struct{})
	w.rec = &ecWrConn{}
	qbytes := make([]byte, queueHeaderLength+4*queueElementLen)
	w.q = createQueueFromBytes(qbytes, 4)
	w.s = &Session{queueManager: &queueManager{sendQueue: w.q}, eventConn: w.rec, logger: newLogger("ecw", nil),
		sendCh: make(chan sendReady, 4096), notifyContinueWriteCh: make(chan struct{}, 1), shutdownCh: make(chan struct{}),
		communicationVersion: 3, isClient: true, streams: map[uint32]*Stream{}, config: &Config{ConnectionWriteTimeout: 30 * time.Second}}
	return w
}

func (c *ecWrConn) count() int {
	c.mu.Lock()
	defer c.mu.Unlock()
	return len(c.wire)
}

// number of events whose write has started (a body written by the send loop is the second call of its event)
func (c *ecWrConn) started() int {
	c.mu.Lock()
	defer c.mu.Unlock()
	n := 0
	for _, d := range c.wire {
		if len(d) >= headerSize && header(d).Magic() == magicNumber {
			n++
		}
	}
	return n
}

// is the goroutine running Session.send blocked in a channel operation (not in a gate)?
func ecSendLoopAsleep() bool {
	return ecAsleepIn("(*Session).send(")
}

func ecWrBody(k int) []byte {
	return []byte{0, 0, 0, byte(k), 0xEE, 0xEE, 0xEE, 0xEE, 0xEE, 0xEE, 0xEE, 0xEE}
}

type ecWrRun struct {
	w       *ecWrWorld
	sc      *ecWrSched
	job     *ecJob
	res     *ecResult
	viol    *ecViolation
	drift   string
	inside  int // thread that won the CAS and has not yet executed its store (0 none)
	begun   [3]int
	submits int
	pos     int
}

func (r *ecWrRun) fail(kind, detail string) {
	if r.viol == nil {
		r.viol = &ecViolation{Kind: kind, Part: "writers", Name: r.sc.Name, Detail: detail,
			Replay: map[string]interface{}{"part": "writers", "sched": r.sc, "wstates": r.job.WStates}}
	}
}

// conformance lost: keep going in schedule-only mode (the schedule is still a valid interleaving of the real threads,
// the property oracles stay on), no more state comparison
func (r *ecWrRun) noteDrift(d string) {
	if r.drift == "" {
		r.drift = d
	}
}

func (r *ecWrRun) real() []int {
	s := r.w.s
	return []int{int(atomic.LoadUint32(&s.writing)), len(s.sendCh), len(s.notifyContinueWriteCh), r.w.rec.started()}
}

// the state is compared when the spec state has no pending channel receive of the send loop (the real goroutine performs
// those as soon as it can); polling because a goroutine that goes to sleep on a channel gives no signal
func (r *ecWrRun) compare(st []int) {
	if r.drift != "" {
		return
	}
	silent := (st[4] == 0 && st[1] > 0) || (st[4] == 2 && st[2] == 1)
	if silent {
		return
	}
	deadline := time.Now().Add(300 * time.Millisecond)
	for {
		re := r.real()
		if re[0] == st[0] && re[1] == st[1] && re[2] == st[2] && re[3] == st[3] {
			return
		}
		if time.Now().After(deadline) {
			r.noteDrift(fmt.Sprintf("%s step %d: real writing/len(sendCh)/token/events started = %v, spec %v", r.sc.Name, r.pos, re, st[:4]))
			return
		}
		time.Sleep(200 * time.Microsecond)
	}
}

// let thread th execute the access it is parked at; returns after it parked at its next access, returned, or (send loop
// only) went to sleep on a channel
func (r *ecWrRun) stepThread(th int, expectPark bool) {
	w := r.w
	before := w.rec.count()
	g := vsGateArm(w.prefixes[th], 1)
	old := w.gates[th]
	w.gates[th] = g
	if old != nil {
		old.releaseGate()
	}
	// wait until the thread has executed the access and is parked at its next one, has returned, or sleeps on a channel
	deadline := time.Now().Add(5 * time.Second)
wait:
	for {
		select {
		case <-g.hit:
			break wait
		case <-w.retCh[th]:
			w.running[th] = false
			g.releaseGate()
			w.gates[th] = nil
			break wait
		case <-time.After(100 * time.Microsecond):
			if ecAsleepIn(w.frames[th]) {
				break wait
			}
			if time.Now().After(deadline) {
				r.noteDrift(fmt.Sprintf("%s step %d: thread %d neither parked, returned nor asleep on a channel", r.sc.Name, r.pos, th))
				break wait
			}
		}
	}
	_ = expectPark
	// mutual exclusion, observed on the real flag protocol: who wrote during this step, who was inside
	wrote := w.rec.count() > before
	if r.inside == th {
		// this step was th's store (or, for the loop, its release)
		if wrote {
			r.fail("mutex", fmt.Sprintf("thread %d wrote again while releasing", th))
		}
		r.inside = 0
	} else if wrote {
		if r.inside != 0 {
			r.fail("mutex", fmt.Sprintf("sender %d entered eventConn.write while sender %d had won the `writing` CAS and not yet released it: their bytes can interleave inside an event (step %d)", th, r.inside, r.pos))
		}
		r.inside = th
	}
}

func ecRunWriters(job *ecJob, sc *ecWrSched, res *ecResult) {
	w := ecNewWrWorld()
	r := &ecWrRun{w: w, sc: sc, job: job, res: res}
	vsReset(vsGate)
	loopDone := make(chan struct{})
	w.gates[ecWrLoop] = vsGateArm(w.prefixes[ecWrLoop], 1)
	go func() {
		defer close(loopDone)
		defer func() {
			if x := recover(); x != nil {
				r.fail("panic", fmt.Sprintf("send loop: %v", x))
			}
		}()
		w.s.send()
	}()
	defer func() {
		// let everything run to completion, then stop the loop
		for th, g := range w.gates {
			if g != nil {
				g.releaseGate()
				w.gates[th] = nil
			}
		}
		atomic.StoreUint32(&vsMode, vsOff)
		for th, ch := range w.retCh {
			if w.running[th] {
				select {
				case <-ch:
				case <-time.After(2 * time.Second):
					r.fail("stuck", fmt.Sprintf("call of thread %d did not return", th))
				}
			}
		}
		want := r.begun[1] + r.begun[2] + r.submits
		deadline := time.Now().Add(3 * time.Second)
		for w.rec.started() < want || atomic.LoadUint32(&w.s.writing) != 0 || len(w.s.sendCh) != 0 {
			if time.Now().After(deadline) {
				r.fail("not-written", fmt.Sprintf("%d events were handed to the session, %d reached the connection 3s after every sender returned (sendCh %d, writing %d, token %d): the send loop is stuck",
					want, w.rec.started(), len(w.s.sendCh), atomic.LoadUint32(&w.s.writing), len(w.s.notifyContinueWriteCh)))
				break
			}
			time.Sleep(200 * time.Microsecond)
		}
		close(w.s.shutdownCh)
		select {
		case <-loopDone:
		case <-time.After(2 * time.Second):
		}
		vsReset(vsOff)
		if r.viol == nil {
			r.checkWire(want)
		}
		res.WrReplayed++
		res.WrSteps += len(sc.Steps)
		if r.viol != nil {
			res.Violations = append(res.Violations, *r.viol)
		} else if r.drift != "" {
			if len(res.Drift) < 10 {
				res.Drift = append(res.Drift, r.drift)
			}
		} else {
			res.WrConforming++
		}
	}()
	for r.pos = 0; r.pos < len(sc.Steps) && r.viol == nil; r.pos++ {
		st := sc.Steps[r.pos]
		th, kind := st[0], st[1]
		var dst []int
		if st[2] >= 0 && st[2] < len(job.WStates) {
			dst = job.WStates[st[2]]
		}
		switch kind {
		case 9:
			continue
		case 1: // begin a call: the goroutine runs to its first atomic access
			for i := 0; w.running[th] && i < 8; i++ {
				// (only after drift) the previous call of this thread has more accesses than the specification: finish it
				r.stepThread(th, true)
			}
			if w.running[th] {
				continue
			}
			r.begun[th]++
			k := r.begun[th]
			w.retCh[th] = make(chan struct{})
			w.running[th] = true
			g := vsGateArm(w.prefixes[th], 1)
			w.gates[th] = g
			ch := w.retCh[th]
			go func() {
				defer close(ch)
				defer func() {
					if x := recover(); x != nil {
						r.fail("panic", fmt.Sprintf("sender %d: %v", th, x))
					}
				}()
				if th == ecWrFast1 {
					w.q.markNotWorking()
					w.s.wakeUpPeer()
				} else {
					w.s.hotRestart(uint64(k), typeHotRestart)
				}
			}()
			select {
			case <-g.hit:
			case <-ch:
				w.running[th] = false
				g.releaseGate()
				w.gates[th] = nil
				r.noteDrift(fmt.Sprintf("%s step %d: call of thread %d returned without an atomic access", sc.Name, r.pos, th))
			case <-time.After(5 * time.Second):
				r.noteDrift(fmt.Sprintf("%s step %d: call of thread %d did not reach an atomic access", sc.Name, r.pos, th))
			}
		case 3: // submit
			r.submits++
			hdr := make([]byte, headerSize)
			body := ecWrBody(r.submits)
			header(hdr).encode(uint32(headerSize+len(body)), 3, typeFallbackData)
			w.s.sendCh <- sendReady{Hdr: hdr, Body: body}
		case 2: // the send loop's channel receive: the real goroutine has done it by itself and parks at the CAS
			d := 5 * time.Second
			if r.drift != "" {
				d = 20 * time.Millisecond
			}
			if g := w.gates[ecWrLoop]; g == nil || !g.waitHit(d) {
				r.noteDrift(fmt.Sprintf("%s step %d: the send loop did not wake up from its channel receive", sc.Name, r.pos))
			}
		case 0:
			if !w.running[th] && th != ecWrLoop {
				r.noteDrift(fmt.Sprintf("%s step %d: thread %d has already returned", sc.Name, r.pos, th))
				break
			}
			if th == ecWrLoop && ecAsleepIn(w.frames[th]) {
				r.noteDrift(fmt.Sprintf("%s step %d: the send loop sleeps on a channel, the specification has it at an access", sc.Name, r.pos))
				break
			}
			expectPark := dst == nil || dst[4] == 1 || dst[4] == 3
			r.stepThread(th, expectPark)
		}
		if dst != nil && r.drift == "" {
			r.compare(dst)
		}
	}
}

// property oracle on the real wire after everything has run to completion
func (r *ecWrRun) checkWire(want int) {
	c := r.w.rec
	c.mu.Lock()
	defer c.mu.Unlock()
	polls, hot, sub := 0, map[uint64]int{}, map[int]int{}
	for i := 0; i < len(c.wire); i++ {
		d := c.wire[i]
		if len(d) < headerSize || header(d).Magic() != magicNumber {
			r.fail("event", fmt.Sprintf("write #%d on the connection is not the start of an event: %x", i, d))
			return
		}
		switch header(d).MsgType() {
		case typePolling:
			polls++
		case typeHotRestart:
			hot[binary.BigEndian.Uint64(d[headerSize:])]++
		case typeFallbackData:
			if i+1 >= len(c.wire) || len(c.wire[i+1]) != 12 || c.wire[i+1][4] != 0xEE {
				r.fail("interleave", fmt.Sprintf("the header of a queued event (write #%d) is not followed by its body: another sender wrote inside the event", i))
				return
			}
			sub[int(c.wire[i+1][3])]++
			i++
		}
	}
	if polls != r.begun[1] {
		r.fail("exactly-once", fmt.Sprintf("%d wakeUpPeer calls, %d polling events on the connection", r.begun[1], polls))
	}
	for k := 1; k <= r.begun[2]; k++ {
		if hot[uint64(k)] != 1 {
			r.fail("exactly-once", fmt.Sprintf("hotRestart event %d is on the connection %d times", k, hot[uint64(k)]))
		}
	}
	last := 0
	for k := 1; k <= r.submits; k++ {
		if sub[k] != 1 {
			r.fail("exactly-once", fmt.Sprintf("queued event %d is on the connection %d times", k, sub[k]))
		}
	}
	_ = last
	if atomic.LoadInt32(&c.overlap) > 0 {
		r.fail("interleave", "two senders were inside eventConn.write at the same time")
	}
}

// ------------------------------------------------------------------------------------------------ dispatch replay
// TLC behaviours of EventConnDispatch.tla staged on the REAL epoll dispatcher. The dispatcher goroutine is held in a task
// posted with dispatcher.post(); every Harvest action of the behaviour lets it make exactly ONE epoll round (the next
// holding task is posted before the current one is released), so what the kernel reports in that round is the coalesced
// mask of everything the peer did meanwhile: IN+OUT while the writer is parked after EAGAIN, RDHUP+IN, ...

const (
	ecDOpBegin = 1
	ecDOpWake  = 2
	ecDOpDrain = 3
	ecDOpSend  = 4
	ecDOpClose = 5
	ecDOpHarv  = 6
)

type ecDispSched struct {
	Name  string  `json:"name"`
	Fills int     `json:"fills"`
	Init  int     `json:"init"`
	Steps [][]int `json:"steps"` // [op, stateIndex]; state = [wpc(0 idle,1 wait,2 done), tok, delivered, closedSeen, drained, wakeEnabled, mask bits(IN 1, OUT 2, RDHUP 4)]
}

type ecGate struct {
	entered chan struct{}
	release chan struct{}
}

type ecKickCb struct{}

func (k *ecKickCb) onEventData(buf []byte, conn eventConn) error {
	conn.commitRead(len(buf))
	return nil
}
func (k *ecKickCb) onRemoteClose() {}
func (k *ecKickCb) onLocalClose()  {}

var (
	ecKickFd   = -1
	ecHeld     *ecGate
	ecSockCap  int
	ecDispUnit = 64
)

// the kicker: a registered connection whose only purpose is to make epoll_wait return at once
func ecKickInit() error {
	if ecKickFd >= 0 {
		return nil
	}
	ensureDefaultDispatcherInit()
	a, b, err := ecSocketpair(unix.SOCK_STREAM)
	if err != nil {
		return err
	}
	kc := defaultDispatcher.newConnection(os.NewFile(uintptr(a), "ec-kick"))
	if err := kc.setCallback(&ecKickCb{}); err != nil {
		return err
	}
	ecKickFd = b
	return nil
}

func ecKick() { unix.Write(ecKickFd, []byte{1}) }

func ecPostGate() *ecGate {
	g := &ecGate{entered: make(chan struct{}), release: make(chan struct{})}
	defaultDispatcher.post(func() { close(g.entered); <-g.release })
	return g
}

// hold the dispatcher goroutine (idempotent)
func ecHold() bool {
	if ecHeld != nil {
		return true
	}
	g := ecPostGate()
	ecKick()
	select {
	case <-g.entered:
		ecHeld = g
		return true
	case <-time.After(5 * time.Second):
		close(g.release)
		return false
	}
}

// exactly one epoll round: the next holding task is queued before the current one is released
func ecRound() bool {
	if ecHeld == nil {
		return false
	}
	g := ecPostGate()
	ecKick()
	close(ecHeld.release)
	select {
	case <-g.entered:
		ecHeld = g
		return true
	case <-time.After(5 * time.Second):
		ecHeld = nil
		close(g.release)
		return false
	}
}

func ecUnhold() {
	if ecHeld != nil {
		close(ecHeld.release)
		ecHeld = nil
	}
}

// bytes a fresh socket with the minimal send buffer accepts before EAGAIN
func ecMeasureCap() int {
	a, b, err := ecSocketpair(unix.SOCK_STREAM)
	if err != nil {
		return 0
	}
	defer unix.Close(a)
	defer unix.Close(b)
	ecSetBuf(a, unix.SO_SNDBUF, 1)
	big := make([]byte, 1<<20)
	n, _ := unix.Write(a, big)
	if n < 0 {
		n = 0
	}
	return n
}

type ecDispCb struct {
	mu     sync.Mutex
	got    []byte
	calls  int
	closed int
}

func (c *ecDispCb) onEventData(buf []byte, conn eventConn) error {
	c.mu.Lock()
	c.got = append(c.got, buf...)
	c.calls++
	c.mu.Unlock()
	conn.commitRead(len(buf))
	return nil
}
func (c *ecDispCb) onRemoteClose() { c.mu.Lock(); c.closed++; c.mu.Unlock() }
func (c *ecDispCb) onLocalClose()  {}

type ecDispRun struct {
	sc       *ecDispSched
	job      *ecJob
	res      *ecResult
	h        *connEventHandler
	cb       *ecDispCb
	peer     int
	peerOpen bool
	msg      []byte
	inbound  []byte
	drained  []byte
	ndrains  int
	began    bool
	wdone    chan struct{}
	werr     error
	viol     *ecViolation
	drift    string
	pos      int
}

func (r *ecDispRun) fail(kind, detail string) {
	if r.viol == nil {
		r.viol = &ecViolation{Kind: kind, Part: "dispatch", Name: r.sc.Name, Detail: detail,
			Replay: map[string]interface{}{"part": "dispatch", "sched": r.sc, "dstates": r.job.DStates}}
	}
}

func (r *ecDispRun) writerDone() bool {
	if r.wdone == nil {
		return false
	}
	select {
	case <-r.wdone:
		return true
	default:
		return false
	}
}

// 0 idle, 1 parked in `<-onWriteReadyCh`, 2 returned; -1 running
func (r *ecDispRun) wstate() int {
	if !r.began {
		return 0
	}
	if r.writerDone() {
		return 2
	}
	if ecAsleepIn("connEventHandler).write(") {
		return 1
	}
	return -1
}

// wait until the writer has consumed a pending token (if it is parked) and is parked again or has returned
func (r *ecDispRun) settle() int {
	deadline := time.Now().Add(10 * time.Second)
	for {
		st := r.wstate()
		if st == 0 || st == 2 {
			return st
		}
		if st == 1 && len(r.h.onWriteReadyCh) == 0 {
			return 1
		}
		if time.Now().After(deadline) {
			return st
		}
		time.Sleep(50 * time.Microsecond)
	}
}

func (r *ecDispRun) begin() {
	r.began = true
	r.wdone = make(chan struct{})
	go func() {
		defer close(r.wdone)
		defer func() {
			if x := recover(); x != nil {
				r.werr = fmt.Errorf("panic: %v", x)
			}
		}()
		r.werr = r.h.write(r.msg)
	}()
}

func (r *ecDispRun) drainPeer() int {
	buf := make([]byte, 1<<16)
	total := 0
	for {
		n, err := unix.Read(r.peer, buf)
		if n > 0 {
			r.drained = append(r.drained, buf[:n]...)
			total += n
			continue
		}
		_ = err
		return total
	}
}

func (r *ecDispRun) realState() []int {
	r.cb.mu.Lock()
	del, cl := len(r.cb.got)/ecDispUnit, r.cb.closed
	r.cb.mu.Unlock()
	if cl > 1 {
		cl = 1
	}
	return []int{r.wstate(), len(r.h.onWriteReadyCh), del, cl, r.ndrains}
}

func (r *ecDispRun) compare(st []int) {
	if r.drift != "" || st == nil || st[5] == 1 {
		return
	}
	re := r.realState()
	ok := re[2] == st[2] && re[3] == st[3] && re[4] == st[4]
	if st[3] == 0 { // after the close the writer returns EPIPE and the token channel is closed: not compared
		ok = ok && re[0] == st[0] && re[1] == st[1]
	}
	if !ok {
		r.drift = fmt.Sprintf("%s step %d: real writer/token/delivered/closed/drains = %v, spec %v", r.sc.Name, r.pos, re, st[:5])
	}
}

func ecRunDispatch(job *ecJob, sc *ecDispSched, res *ecResult) {
	r := &ecDispRun{sc: sc, job: job, res: res, cb: &ecDispCb{}}
	defer func() {
		res.DispReplayed++
		res.DispSteps += len(sc.Steps)
		if r.viol != nil {
			res.Violations = append(res.Violations, *r.viol)
		} else if r.drift != "" {
			if len(res.Drift) < 10 {
				res.Drift = append(res.Drift, r.drift)
			}
		} else {
			res.DispConform++
		}
	}()
	if err := ecKickInit(); err != nil {
		res.Notes = append(res.Notes, "dispatch: kicker: "+err.Error())
		r.drift = "harness: no kicker"
		return
	}
	if ecSockCap == 0 {
		ecSockCap = ecMeasureCap()
	}
	if ecSockCap <= 0 || !ecHold() {
		res.Notes = append(res.Notes, "dispatch: cannot hold the dispatcher goroutine / measure the socket capacity")
		r.drift = "harness: dispatcher not held"
		return
	}
	a, b, err := ecSocketpair(unix.SOCK_STREAM)
	if err != nil {
		r.drift = "harness: socketpair"
		return
	}
	ecSetBuf(a, unix.SO_SNDBUF, 1)
	r.peer, r.peerOpen = b, true
	// the message fills the send buffer sc.Fills times, then a tail that fits
	r.msg = ecStream(sc.Fills*ecSockCap + ecSockCap/2)
	r.h = defaultDispatcher.newConnection(os.NewFile(uintptr(a), "ec-disp")).(*connEventHandler)
	if err := r.h.setCallback(r.cb); err != nil { // registered while the dispatcher is held: the initial OUT edge is pending
		r.drift = "harness: setCallback " + err.Error()
		return
	}
	defer func() {
		// end of the run: close our end (wakes a parked writer with EPIPE), wait for the writer
		if r.peerOpen {
			unix.Close(r.peer)
			r.peerOpen = false
		}
		r.h.close()
		if r.began {
			select {
			case <-r.wdone:
			case <-time.After(5 * time.Second):
				r.fail("stuck", "writer did not return after close()")
			}
		}
	}()

	for r.pos = 0; r.pos < len(sc.Steps) && r.viol == nil; r.pos++ {
		op := sc.Steps[r.pos][0]
		var dst []int
		if i := sc.Steps[r.pos][1]; i >= 0 && i < len(job.DStates) {
			dst = job.DStates[i]
		}
		switch op {
		case ecDOpBegin:
			if r.began {
				continue
			}
			r.begin()
			r.settle()
		case ecDOpWake:
			// the real writer has taken the token by itself; wait until it is parked again or has returned
			res.DispWakes++
			r.settle()
		case ecDOpDrain:
			if r.peerOpen {
				r.drainPeer()
				r.ndrains++
			}
		case ecDOpSend:
			if r.peerOpen {
				off := len(r.inbound)
				unit := make([]byte, ecDispUnit)
				for i := range unit {
					unit[i] = byte((off+i)*29 + 5)
				}
				unix.Write(r.peer, unit)
				r.inbound = append(r.inbound, unit...)
			}
		case ecDOpClose:
			if r.peerOpen {
				unix.Close(r.peer)
				r.peerOpen = false
			}
		case ecDOpHarv:
			parked := r.wstate() == 1
			if !ecRound() {
				r.fail("stuck", "the dispatcher goroutine did not complete an epoll round within 5s")
				return
			}
			res.DispRounds++
			if dst != nil {
				if dst[6]&3 == 3 && dst[6]&4 == 0 && parked {
					res.DispInOut++
				}
				if dst[6]&5 == 5 {
					res.DispRdhupIn++
				}
			}
			r.settle()
		default:
			continue
		}
		r.compare(dst)
	}
	if r.viol != nil {
		return
	}
	r.cb.mu.Lock()
	closed := r.cb.closed > 0
	r.cb.mu.Unlock()
	if closed || !r.peerOpen {
		// the connection was closed by the peer: what was still in the socket is not offered (observation, not C18)
		r.cb.mu.Lock()
		res.DispLost += len(r.inbound) - len(r.cb.got)
		if !bytes.Equal(r.cb.got, r.inbound[:len(r.cb.got)]) {
			r.fail("callback-argument", "bytes offered before the close differ from what the peer sent")
		}
		r.cb.mu.Unlock()
		return
	}
	// ---- epilogue + oracle: the peer keeps reading; the blocked write must complete and every byte must arrive
	if !r.began {
		r.begin()
		r.settle()
	}
	for i := 0; i < sc.Fills+4 && !r.writerDone(); i++ {
		r.drainPeer()
		if !ecRound() {
			r.fail("stuck", "the dispatcher goroutine did not complete an epoll round within 5s")
			return
		}
		res.DispRounds++
		r.settle()
	}
	if !r.writerDone() {
		// generous bound: let the dispatcher run freely (its idle epoll timeout is 1 s), the peer keeps draining
		ecUnhold()
		deadline := time.Now().Add(4 * time.Second)
		for !r.writerDone() && time.Now().Before(deadline) {
			r.drainPeer()
			time.Sleep(2 * time.Millisecond)
		}
		still := r.wstate()
		ecHold()
		if !r.writerDone() {
			if still == 1 && ecInq(r.peer) == 0 {
				r.fail("stranded-writer", fmt.Sprintf("write of %d bytes ran into EAGAIN and parked on onWriteReadyCh; the peer has read everything (%d bytes, socket empty), the dispatcher made %d more epoll rounds and then ran freely for 4s: the writer is still parked (token channel empty=%v) - the write-ready notification of an epoll event was dropped, %d bytes never reach the peer",
					len(r.msg), len(r.drained), sc.Fills+4, len(r.h.onWriteReadyCh) == 0, len(r.msg)-len(r.drained)))
			} else {
				r.fail("stuck", fmt.Sprintf("write did not return (writer state %d, peer has %d of %d bytes)", still, len(r.drained), len(r.msg)))
			}
			return
		}
	}
	if r.werr != nil {
		r.fail("write-error", "write returned "+r.werr.Error())
		return
	}
	r.drainPeer()
	if !bytes.Equal(r.drained, r.msg) {
		d := ecFirstDiff(r.drained, r.msg)
		r.fail("stream", fmt.Sprintf("write returned nil: %d bytes written, the peer read %d, first difference at %d", len(r.msg), len(r.drained), d))
		return
	}
	// inbound: one more round so that anything sent last is read
	ecRound()
	res.DispRounds++
	r.cb.mu.Lock()
	defer r.cb.mu.Unlock()
	if !bytes.Equal(r.cb.got, r.inbound) {
		r.fail("not-offered", fmt.Sprintf("the peer sent %d bytes, the callback was offered %d", len(r.inbound), len(r.cb.got)))
	}
}

// ------------------------------------------------------------------------------------------------ test entry

func TestVS_EventConn(t *testing.T) {
	in := os.Getenv("VS_IN_JOB")
	if in == "" {
		t.Skip("VS_IN_JOB not set")
	}
	raw, err := os.ReadFile(in)
	if err != nil {
		t.Fatal(err)
	}
	var job ecJob
	if err := json.Unmarshal(raw, &job); err != nil {
		t.Fatal(err)
	}
	level = levelNoPrint
	res := &ecResult{Violations: []ecViolation{}, Drift: []string{}, Probes: map[string]string{}, Samples: []string{}, Notes: []string{}, TimesMs: map[string]int64{}}
	t0 := time.Now()
	// the result file is rewritten after every part: if the library crashes the process in one of its own goroutines
	// (free-running parts), what the deterministic parts found is not lost
	save := func() {
		out, _ := json.Marshal(res)
		if err := os.WriteFile(os.Getenv("VS_OUT"), out, 0o644); err != nil {
			t.Fatal(err)
		}
	}
	lap := func(name string) { res.TimesMs[name] = time.Since(t0).Milliseconds(); save(); t0 = time.Now() }
	stop := func() bool { return job.StopAtViol && len(res.Violations) > 0 }
	// probes first: a class of inputs listed as a known finding is explored only when the probe says it works on this tree
	for _, pr := range job.Probes {
		switch pr {
		case "writev-empty-slice":
			res.Probes[pr] = ecProbeWritevEmpty()
		case "data-then-close":
			res.Probes[pr] = ecProbeDataThenClose()
		}
	}
	ecWritevEmptyOK = res.Probes["writev-empty-slice"] == "ok"
	lap("probes")

	for i := range job.Window {
		if stop() || len(res.Violations) >= 5 {
			break
		}
		if i%200 == 0 || job.Window[i].Unit > 1 {
			ecProgress("window", i, job.Window[i].Name)
		}
		ecRunWindow(&job, &job.Window[i], res)
	}
	lap("window")
	var trace []string
	if job.Instr {
		for i := range job.Pipe {
			if stop() || len(res.Violations) >= 5 {
				break
			}
			ecProgress("pipe", i, job.Pipe[i].Name)
			ecRunPipe(&job.Pipe[i], res, &trace)
			if i < 2 && len(res.Samples) < 4 {
				res.Samples = append(res.Samples, fmt.Sprintf("pipe %s: sndbuf %d, ops %d", job.Pipe[i].Name, job.Pipe[i].Sndbuf, len(job.Pipe[i].Ops)))
			}
		}
		res.PipeDistinct = len(ecPipePatterns)
		pats := make([]string, 0, len(ecPipePatterns))
		for k := range ecPipePatterns {
			pats = append(pats, k)
		}
		sort.Strings(pats)
		for _, k := range pats {
			if len(k) > 20 && len(k) < 160 && len(res.Samples) < 6 {
				res.Samples = append(res.Samples, "kernel answers to the write syscalls of one scenario: "+k)
			}
		}
	}
	if job.TraceFile != "" && len(trace) > 0 {
		os.WriteFile(job.TraceFile, []byte(strings.Join(trace, "\n")+"\n"), 0o644)
	}
	lap("pipe")
	for i := range job.Writers {
		if stop() || len(res.Violations) >= 5 {
			break
		}
		if i%50 == 0 {
			ecProgress("writers", i, job.Writers[i].Name)
		}
		ecRunWriters(&job, &job.Writers[i], res)
	}
	lap("writers")
	for i := range job.Dispatch {
		if stop() || len(res.Violations) >= 5 {
			break
		}
		if i%20 == 0 {
			ecProgress("dispatch", i, job.Dispatch[i].Name)
		}
		ecRunDispatch(&job, &job.Dispatch[i], res)
	}
	ecUnhold()
	lap("dispatch")
	for i := range job.E2E {
		if stop() || len(res.Violations) >= 5 {
			break
		}
		ecProgress("e2e", i, job.E2E[i].Name)
		ecRunE2E(&job.E2E[i], res)
	}
	lap("e2e")
	for i := range job.Burst {
		if stop() || len(res.Violations) >= 5 {
			break
		}
		ecProgress("burst", i, job.Burst[i].Name)
		ecRunBurst(&job.Burst[i], res)
	}
	lap("burst")
	res.Complete = true
	save()
}
