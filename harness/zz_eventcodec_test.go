package shmipc

// C13 harness (module EventCodec). Executes behaviours of specs/EventCodec.tla - a byte string cut into reads - on the REAL
// receive side and compares the real session with the state the specification predicts after every read.
//   executor "run"   : a real client/server pair (real newSession handshake); the session under test sits on a real
//                      connEventHandler whose dispatcher is not looping: the harness writes each chunk into the peer's
//                      end of the socket, calls the real onReadReady (-> Session.onEventData -> handleEvents -> handlers ->
//                      exitErr/Close) and then runs the dispatcher's posted lambdas, all under recover.
//   executor "hs"/"hc": the real handshake functions (getProtocolInitializer + Init, i.e. the body of initProtocol's
//                      goroutine) on a session wired to a socketpair, fed chunk by chunk (the next chunk is written only
//                      when the previous one has been read), under recover.
//   executor "child" : the complete real path in a child process: Server()/newSession, the real epoll loop, a bystander
//                      session pair; oracle = the process survives, the session ends (or not) as predicted, the
//                      bystander still moves data.
// Nothing of the library is re-implemented here: the harness only wires objects, feeds bytes and reads state.

import (
	"bytes"
	"context"
	"encoding/binary"
	"encoding/json"
	"fmt"
	"io"
	"net"
	"os"
	"os/exec"
	"regexp"
	"runtime/debug"
	"sort"
	"strings"
	"sync"
	"sync/atomic"
	"testing"
	"time"

	"golang.org/x/sys/unix"
)

type ecStream struct {
	ID     []int  `json:"id"`
	St     string `json:"st"`
	Data   []int  `json:"data"`
	Chunks int    `json:"chunks"`
}

type ecState struct {
	Pos      int        `json:"pos"`
	Win      int        `json:"win"`
	Closed   bool       `json:"closed"`
	Err      string     `json:"err"`
	Hit      string     `json:"hit"`
	Phase    string     `json:"phase"`
	Streams  []ecStream `json:"streams"`
	Acc      [][]int    `json:"acc"`
	Poll     int        `json:"poll"`
	Fb       int        `json:"fb"`
	Ack      int        `json:"ack"`
	Hrdone   bool       `json:"hrdone"`
	Posted   [][]int    `json:"posted"`
	Queue    int        `json:"queue"`
	Recycled int        `json:"recycled"`
	Sent     []int      `json:"sent"`
	Hsdone   bool       `json:"hsdone"`
	Ver      int        `json:"ver"`
}

type ecStep struct {
	N     int     `json:"n"`
	Want  ecState `json:"want"`
	Extra bool    `json:"extra"`
}

type ecQElem struct {
	ID   []int `json:"id"`
	St   int   `json:"st"`
	Data []int `json:"data"`
}

type ecCase struct {
	Case       int        `json:"case"`
	Name       string     `json:"name"`
	Exec       string     `json:"exec"`
	Role       string     `json:"role"`
	Lst        bool       `json:"lst"`
	Mgr        bool       `json:"mgr"`
	Memfd      bool       `json:"memfd"`
	Danger     bool       `json:"danger"`
	Child      bool       `json:"child"`
	Bytes      []int      `json:"bytes"`
	Known      [][]int    `json:"known"`
	Queue      []ecQElem  `json:"queue"`
	Epoch      []int      `json:"epoch"`
	Goodq      []int      `json:"goodq"`
	Goodb      []int      `json:"goodb"`
	Init       ecState    `json:"init"`
	Behaviours [][]ecStep `json:"behaviours"`
}

type ecJob struct {
	Token    string   `json:"token"`
	Listed   []string `json:"listed"`
	Jobs     []ecCase `json:"jobs"`
	Children int      `json:"children"`
	Seed     int64    `json:"seed"`
	Replay   bool     `json:"replay"`
}

type ecViol struct {
	Kind     string `json:"kind"`
	Name     string `json:"name"`
	Case     int    `json:"case"`
	Beh      int    `json:"beh"`
	Cuts     string `json:"cuts"`
	Step     int    `json:"step"`
	Detail   string `json:"detail"`
	Executor string `json:"executor"`
}

type ecKnownHit struct {
	Count int    `json:"count"`
	First string `json:"first"`
}

type ecResult struct {
	Executed    int                    `json:"executed"`
	Reads       int                    `json:"reads"`
	Conforming  int                    `json:"conforming"`
	KnownPruned int                    `json:"known_pruned"`
	ByExec      map[string]int         `json:"by_exec"`
	TimeMs      map[string]int64       `json:"time_ms"`
	Children    int                    `json:"children"`
	CutGroups   int                    `json:"cut_groups"`
	Drift       []string               `json:"drift"`
	Samples     []interface{}          `json:"samples"`
	KnownHits   map[string]*ecKnownHit `json:"known_hits"`
	Violations  []ecViol               `json:"violations"`
	Errors      []string               `json:"errors"`
	mu          sync.Mutex
}

// outcome of one behaviour
type ecOutcome struct {
	reads     int
	viol      []ecViol
	known     string // slug of the listed known class this behaviour entered (nothing is compared from there on)
	repro     bool   // ... and the listed panic was observed
	knownInfo string
	drift     []string
	final     string // digest of the final observable effects (for the direct cut-independence comparison)
	complete  bool
	err       string // harness problem
	hung      bool
}

// ------------------------------------------------------------------------------------------------ small helpers

type ecLogBuf struct {
	mu    sync.Mutex
	kinds map[string][]string // session key -> what handleSessionManagerHotRestart logged for it, in order
	alias map[string]string   // "ptr:0x.." / "sid:n" of a registered session -> its key
}

func (l *ecLogBuf) register(t *Session) {
	l.mu.Lock()
	defer l.mu.Unlock()
	if l.alias == nil {
		l.alias = map[string]string{}
		l.kinds = map[string][]string{}
	}
	key := fmt.Sprintf("sid:%d", t.sessionID)
	l.alias[fmt.Sprintf("ptr:%p", t)] = key
	l.alias[key] = key
}

var (
	ecRePtr = regexp.MustCompile(`session:(0x[0-9a-f]+)`)
	ecReSid = regexp.MustCompile(`repeat sessionID:(\d+)`)
)

// the library's internal logger writes here; only the two lines by which handleSessionManagerHotRestart tells whether the
// epoch of a hot-restart event matched the manager's are kept, filed under the session they belong to
func (l *ecLogBuf) Write(p []byte) (int, error) {
	line := string(p)
	if f := os.Getenv("VS_EC_DEBUGLOG"); f != "" {
		if fh, err := os.OpenFile(f, os.O_APPEND|os.O_CREATE|os.O_WRONLY, 0644); err == nil {
			fmt.Fprintf(fh, "[%d] %s", os.Getpid(), line)
			fh.Close()
		}
	}
	if !strings.Contains(line, "handleSessionManagerHotRestart") {
		return len(p), nil
	}
	l.mu.Lock()
	defer l.mu.Unlock()
	if strings.Contains(line, "get invalid params") {
		if m := ecRePtr.FindStringSubmatch(line); m != nil {
			if k, ok := l.alias["ptr:"+m[1]]; ok {
				l.kinds[k] = append(l.kinds[k], "mismatch")
			}
		}
	} else if m := ecReSid.FindStringSubmatch(line); m != nil {
		if k, ok := l.alias["sid:"+m[1]]; ok {
			l.kinds[k] = append(l.kinds[k], "match")
		}
	}
	return len(p), nil
}

// lines of one session (a session has a unique sessionID in this harness); order between the two kinds is kept by
// draining after every read
func (l *ecLogBuf) take(t *Session) []string {
	l.mu.Lock()
	defer l.mu.Unlock()
	k := fmt.Sprintf("sid:%d", t.sessionID)
	out := append([]string{}, l.kinds[k]...)
	delete(l.kinds, k)
	return out
}

var (
	ecLog     = &ecLogBuf{}
	ecCounter int64
	ecLn      *net.UnixListener
	ecLnName  string
)

func ecBytes(v []int) []byte {
	out := make([]byte, len(v))
	for i, x := range v {
		out[i] = byte(x)
	}
	return out
}

func ecInts(b []byte) []int {
	out := make([]int, len(b))
	for i, x := range b {
		out[i] = int(x)
	}
	return out
}

func ecID(v []int) uint32 { return binary.BigEndian.Uint32(ecBytes(v)) }

func ecIDBytes(id uint32) []int {
	var b [4]byte
	binary.BigEndian.PutUint32(b[:], id)
	return ecInts(b[:])
}

func ecCuts(steps []ecStep) string {
	p := make([]string, len(steps))
	for i, s := range steps {
		p[i] = fmt.Sprint(s.N)
	}
	return "[" + strings.Join(p, ",") + "]"
}

func ecTail(s string, n int) string {
	if len(s) > n {
		return s[len(s)-n:]
	}
	return s
}

func ecInq(fd int) int {
	n, err := unix.IoctlGetInt(fd, unix.SIOCINQ)
	if err != nil {
		return -1
	}
	return n
}

type ecPump struct{ *epollDispatcher }

func (p *ecPump) runLoop() error { return nil }

func ecNewPump() *ecPump {
	d := newEpollDispatcher()
	fd, err := unix.EpollCreate1(0)
	if err != nil {
		panic(err)
	}
	d.epollFd = fd
	return &ecPump{d}
}

func (p *ecPump) destroy() { unix.Close(p.epollFd) }

func (p *ecPump) pending() int {
	p.lambdaLock.Lock()
	defer p.lambdaLock.Unlock()
	return len(p.pendingLambda)
}

// run posted lambdas the way the loop does after a batch of events; returns a panic message if one of them panics
func (p *ecPump) runLambdas() (msg string) {
	defer func() {
		if r := recover(); r != nil {
			msg = fmt.Sprintf("%v\n%s", r, ecShortStack())
		}
	}()
	for i := 0; i < 4 && p.pending() > 0; i++ {
		p.runLambda()
	}
	return ""
}

func ecShortStack() string {
	st := string(debug.Stack())
	lines := strings.Split(st, "\n")
	keep := []string{}
	for _, l := range lines {
		if strings.Contains(l, "shmipc") && !strings.Contains(l, "zz_eventcodec") && strings.HasPrefix(l, "github.com") {
			keep = append(keep, strings.TrimSpace(l))
		}
		if len(keep) >= 4 {
			break
		}
	}
	return strings.Join(keep, " <- ")
}

func ecConf() *Config {
	n := atomic.AddInt64(&ecCounter, 1)
	conf := DefaultConfig()
	conf.MemMapType = MemMapTypeMemFd
	conf.ShareMemoryBufferCap = 1 << 20
	conf.QueueCap = 64
	conf.ShareMemoryPathPrefix = fmt.Sprintf("/dev/shm/vsec_%d_%d", os.Getpid(), n)
	conf.QueuePath = conf.ShareMemoryPathPrefix + "_queue"
	conf.LogOutput = io.Discard
	conf.InitializeTimeout = 20 * time.Second // the machine may be busy; a slow handshake is not what is examined here
	return conf
}

func ecListen() error {
	if ecLn != nil {
		return nil
	}
	ecLnName = fmt.Sprintf("@vsec-%d-%d", os.Getpid(), time.Now().UnixNano())
	ln, err := net.ListenUnix("unix", &net.UnixAddr{Name: ecLnName, Net: "unix"})
	if err != nil {
		return err
	}
	ecLn = ln
	return nil
}

var ecPairMu sync.Mutex
var ecTimePair, ecTimeRest, ecTimeClean int64
var ecAbort int32 // set when a behaviour left a spinning goroutine behind: the shard stops taking new behaviours

func ecConnPair() (c, s *net.UnixConn, err error) {
	ecPairMu.Lock() // one dial/accept at a time, so that the two ends belong together
	defer ecPairMu.Unlock()
	if err = ecListen(); err != nil {
		return
	}
	ch := make(chan error, 1)
	go func() {
		var e error
		s, e = ecLn.AcceptUnix()
		ch <- e
	}()
	c, err = net.DialUnix("unix", nil, &net.UnixAddr{Name: ecLnName, Net: "unix"})
	if err != nil {
		return
	}
	err = <-ch
	return
}

// a real client/server pair made by the real newSession on whatever defaultDispatcher currently is
func ecNewPair() (client, server *Session, err error) {
	cc, sc, err := ecConnPair()
	if err != nil {
		return nil, nil, err
	}
	conf := ecConf()
	sconf := *conf
	cconf := *conf
	ch := make(chan error, 1)
	go func() {
		var e error
		server, e = newSession(&sconf, sc, false)
		ch <- e
	}()
	client, err = newSession(&cconf, cc, true)
	e2 := <-ch
	if err == nil {
		err = e2
	}
	if err != nil {
		if client != nil {
			client.Close()
		}
		if server != nil {
			server.Close()
		}
	}
	return
}

// ------------------------------------------------------------------------------------------------ wiring + observation

type ecTarget struct {
	t, peer *Session
	conn    *connEventHandler
	pump    *ecPump
	acc     [][]int
	posted  [][]int
	nposted int
	jc      *ecCase
	epoch   uint64
}

func ecWire(jc *ecCase, client, server *Session) (*ecTarget, error) {
	tg := &ecTarget{jc: jc}
	if jc.Role == "server" {
		tg.t, tg.peer = server, client
	} else {
		tg.t, tg.peer = client, server
	}
	if c, ok := tg.t.eventConn.(*connEventHandler); ok {
		tg.conn = c
	}
	ep := uint64(0)
	if len(jc.Epoch) == 8 {
		ep = binary.BigEndian.Uint64(ecBytes(jc.Epoch))
	}
	tg.epoch = ep
	if jc.Lst {
		// a listener in the middle of a hot restart of this epoch which has notified this session (only then an ack counts)
		tg.t.listener = &Listener{epoch: ep, state: hotRestartState}
		tg.t.state = hotRestartState
	}
	if jc.Mgr {
		// a manager in which a hot restart of this epoch is already in progress and this session id has already been
		// handled: handleSessionManagerHotRestart then returns after its epoch / session-id checks (logged), without dialing
		tg.t.sessionID = int(atomic.AddInt64(&ecCounter, 1)) + 1000
		tg.t.manager = &SessionManager{ctx: context.Background(), state: hotRestartState, epoch: ep, reservePools: map[int]*streamPool{tg.t.sessionID: {}}}
		ecLog.register(tg.t)
	}
	tg.t.streamLock.Lock()
	for _, k := range jc.Known {
		id := ecID(k)
		tg.t.streams[id] = newStream(tg.t, id)
	}
	tg.t.streamLock.Unlock()
	for _, q := range jc.Queue {
		sl, err := tg.peer.bufferManager.allocShmBuffer(uint32(len(q.Data)))
		if err != nil {
			return nil, fmt.Errorf("allocShmBuffer: %v", err)
		}
		sl.append(ecBytes(q.Data)...)
		sl.update()
		if err := tg.peer.queueManager.sendQueue.put(queueElement{seqID: ecID(q.ID), offsetInShmBuf: sl.offsetInShm, status: uint32(q.St)}); err != nil {
			return nil, fmt.Errorf("queue put: %v", err)
		}
	}
	return tg, nil
}

func ecErrClass(s *Session) string {
	s.shutdownLock.Lock()
	e := s.shutdownErr
	s.shutdownLock.Unlock()
	if e == nil {
		return "none"
	}
	if e == ErrInvalidMsgType {
		return "invalid-msg-type"
	}
	return "other:" + e.Error()
}

// observe the effects (before the posted lambdas run: the teardown lambda of Close drops the stream table)
func (tg *ecTarget) observe() ecState {
	t := tg.t
	o := ecState{Streams: []ecStream{}, Acc: [][]int{}, Posted: [][]int{}, Sent: []int{}}
	o.Closed = t.IsClosed()
	o.Err = ecErrClass(t)
	if tg.conn != nil {
		o.Win = tg.conn.readEndOff - tg.conn.readStartOff
	}
	for {
		select {
		case st := <-t.acceptCh:
			tg.acc = append(tg.acc, ecIDBytes(st.id))
			continue
		default:
		}
		break
	}
	o.Acc = append(o.Acc, tg.acc...)
	t.streamLock.Lock()
	for id, st := range t.streams {
		es := ecStream{ID: ecIDBytes(id), Data: []int{}}
		switch streamState(atomic.LoadUint32(&st.state)) {
		case streamOpened:
			es.St = "open"
		case streamHalfClosed:
			es.St = "half"
		default:
			es.St = "closed"
		}
		st.pendingData.Lock()
		es.Chunks = len(st.pendingData.unread)
		for _, w := range st.pendingData.unread {
			if w.fallbackSlice != nil {
				es.Data = append(es.Data, ecInts(w.fallbackSlice.data[w.fallbackSlice.readIndex:w.fallbackSlice.writeIndex])...)
			} else if sl, err := t.bufferManager.readBufferSlice(w.offset); err == nil {
				es.Data = append(es.Data, ecInts(sl.data[sl.readIndex:sl.writeIndex])...)
				putBackBufferSlice(sl)
			} else {
				es.Data = append(es.Data, -1)
			}
		}
		st.pendingData.Unlock()
		o.Streams = append(o.Streams, es)
	}
	t.streamLock.Unlock()
	sort.Slice(o.Streams, func(i, j int) bool { return ecID(o.Streams[i].ID) < ecID(o.Streams[j].ID) })
	o.Poll = int(atomic.LoadUint64(&t.stats.recvPollingEventCount))
	o.Fb = int(atomic.LoadUint64(&t.stats.fallbackReadCount))
	if t.listener != nil {
		t.listener.mu.Lock()
		o.Ack = -t.listener.hotRestartAckCount
		t.listener.mu.Unlock()
	}
	o.Hrdone = t.state == hotRestartDoneState
	if t.queueManager != nil && !o.Closed {
		o.Queue = int(t.queueManager.recvQueue.size())
	}
	return o
}

func ecEqInts(a, b []int) bool {
	if len(a) != len(b) {
		return false
	}
	for i := range a {
		if a[i] != b[i] {
			return false
		}
	}
	return true
}

// property observables: differences here are violations ("well-formed events take effect, anything else ends the session
// with an error, nothing depends on the cuts"); the second list is structural (spec drift)
func ecCompareRun(want, got ecState, nposted int, postedKinds []string, epochMatch []bool) (prop []string, structural []string) {
	if want.Closed != got.Closed {
		prop = append(prop, fmt.Sprintf("session closed=%v, specification requires closed=%v (shutdownErr=%s)", got.Closed, want.Closed, got.Err))
	}
	if want.Closed && got.Closed {
		switch {
		case want.Err == "invalid-msg-type" && got.Err != "invalid-msg-type":
			prop = append(prop, fmt.Sprintf("session ended with %q, specification requires ErrInvalidMsgType", got.Err))
		case got.Err == "none":
			prop = append(prop, "session closed without an error")
		}
		return
	}
	if !want.Closed && !got.Closed && got.Err != "none" {
		prop = append(prop, "shutdownErr set on an open session: "+got.Err)
	}
	if want.Win != got.Win {
		prop = append(prop, fmt.Sprintf("unconsumed window is %d bytes, specification says %d (bytes consumed differ)", got.Win, want.Win))
	}
	if len(want.Streams) != len(got.Streams) {
		prop = append(prop, fmt.Sprintf("stream table has %d streams, specification says %d", len(got.Streams), len(want.Streams)))
	} else {
		for i := range want.Streams {
			w, g := want.Streams[i], got.Streams[i]
			if !ecEqInts(w.ID, g.ID) || w.St != g.St || !ecEqInts(w.Data, g.Data) {
				prop = append(prop, fmt.Sprintf("stream %v: state %s data %v, specification says stream %v: state %s data %v", g.ID, g.St, g.Data, w.ID, w.St, w.Data))
			} else if w.Chunks != g.Chunks {
				structural = append(structural, fmt.Sprintf("stream %v pending slices %d vs %d", g.ID, g.Chunks, w.Chunks))
			}
		}
	}
	if len(want.Acc) != len(got.Acc) {
		prop = append(prop, fmt.Sprintf("accepted streams %v, specification says %v", got.Acc, want.Acc))
	} else {
		for i := range want.Acc {
			if !ecEqInts(want.Acc[i], got.Acc[i]) {
				prop = append(prop, fmt.Sprintf("accepted streams %v, specification says %v", got.Acc, want.Acc))
				break
			}
		}
	}
	if want.Poll != got.Poll {
		prop = append(prop, fmt.Sprintf("polling events handled %d, specification says %d", got.Poll, want.Poll))
	}
	if want.Fb != got.Fb {
		prop = append(prop, fmt.Sprintf("fallback events handled %d, specification says %d", got.Fb, want.Fb))
	}
	if want.Ack != got.Ack || want.Hrdone != got.Hrdone {
		prop = append(prop, fmt.Sprintf("hot-restart acks counted %d done=%v, specification says %d done=%v", got.Ack, got.Hrdone, want.Ack, want.Hrdone))
	}
	if len(want.Posted) != nposted {
		prop = append(prop, fmt.Sprintf("hot-restart events handed to the manager %d, specification says %d", nposted, len(want.Posted)))
	} else {
		if len(postedKinds) != len(want.Posted) {
			prop = append(prop, fmt.Sprintf("the manager handled %d hot-restart events (%v), specification says %d", len(postedKinds), postedKinds, len(want.Posted)))
		}
		for i := range want.Posted {
			if i < len(postedKinds) && i < len(epochMatch) {
				wk := "mismatch"
				if epochMatch[i] {
					wk = "match"
				}
				if postedKinds[i] != wk {
					prop = append(prop, fmt.Sprintf("hot-restart event %d reached the manager with an epoch that is a %s of the manager's, specification says %s", i, postedKinds[i], wk))
				}
			}
		}
	}
	if want.Queue != got.Queue {
		structural = append(structural, fmt.Sprintf("receive queue holds %d, specification says %d", got.Queue, want.Queue))
	}
	return
}

func ecDigest(o ecState, nposted int) string {
	o.Win, o.Pos, o.Queue = 0, 0, 0
	if o.Closed {
		o = ecState{Closed: true, Err: o.Err}
		if o.Err != "invalid-msg-type" {
			o.Err = "error"
		}
	}
	b, _ := json.Marshal(o)
	return fmt.Sprintf("%s|%d", b, nposted)
}

// ------------------------------------------------------------------------------------------------ executor "run" (pumped)

func ecExecRun(jc *ecCase, bi int, steps []ecStep, listed map[string]bool) (out ecOutcome) {
	viol := func(kind string, step int, detail string) {
		out.viol = append(out.viol, ecViol{Kind: kind, Name: jc.Name, Case: jc.Case, Beh: bi, Cuts: ecCuts(steps), Step: step, Detail: detail, Executor: "run"})
	}
	// defaultDispatcher is the harness's non-looping dispatcher (set once by the driver); the pair is created on it by the
	// real newSession and then moved to a dispatcher of its own, so that behaviours can run in parallel
	pump := ecNewPump()
	defer pump.destroy()
	tA := time.Now()
	client, server, err := ecNewPair()
	atomic.AddInt64(&ecTimePair, int64(time.Since(tA)))
	if err != nil {
		out.err = "cannot make a session pair: " + err.Error()
		return
	}
	tB := time.Now()
	defer func() { atomic.AddInt64(&ecTimeRest, int64(time.Since(tB))) }()
	for _, x := range []*Session{client, server} {
		x.dispatcher = pump
		if c, ok := x.eventConn.(*connEventHandler); ok {
			if g, ok := defaultDispatcher.(*ecPump); ok {
				g.lock.Lock()
				delete(g.conns, c.fd)
				g.lock.Unlock()
			}
			c.dispatcher = pump.epollDispatcher
		}
	}
	tg, err := ecWire(jc, client, server)
	defer func() {
		if out.hung {
			return // the spinning goroutine is still inside the session: leave everything as it is
		}
		func() {
			tC := time.Now()
			defer func() { recover() }()
			client.Close()
			server.Close()
			pump.runLambdas()
			atomic.AddInt64(&ecTimeClean, int64(time.Since(tC)))
		}()
	}()
	if err != nil || tg.conn == nil {
		out.err = fmt.Sprintf("wiring failed: %v", err)
		return
	}
	tg.pump = pump
	data := ecBytes(jc.Bytes)
	off := 0
	postedKinds := []string{}
	var last ecState
	inKnown := ""
	for si, st := range steps {
		if st.Extra && inKnown == "" {
			break
		}
		chunk := data[off : off+st.N]
		off += st.N
		if n, err := unix.Write(tg.peer.connFd, chunk); err != nil || n != len(chunk) {
			out.err = fmt.Sprintf("raw write failed: %v %d", err, n)
			return
		}
		for w := 0; ecInq(tg.t.connFd) < len(chunk) && w < 1000; w++ {
			time.Sleep(20 * time.Microsecond)
		}
		out.reads++
		wasClosed := tg.t.IsClosed()
		// the read runs on a goroutine of its own so that an event loop that never returns is seen (and reported) instead of
		// hanging the harness
		pch := make(chan string, 1)
		go func() {
			msg := ""
			defer func() {
				if r := recover(); r != nil {
					msg = fmt.Sprintf("%v [%s]", r, ecShortStack())
				}
				pch <- msg
			}()
			tg.conn.onReadReady()
		}()
		var pmsg string
		select {
		case pmsg = <-pch:
		case <-time.After(15 * time.Second):
			atomic.StoreInt32(&ecAbort, 1)
			viol("hang", si+1, "onReadReady/handleEvents did not return within 15 s: the event-loop goroutine spins (the whole process stops serving)")
			out.hung = true
			return
		}
		var got ecState
		if pmsg == "" {
			got = tg.observe()
			np := pump.pending()
			if got.Closed && !wasClosed {
				np--
			}
			if np < 0 {
				np = 0
			}
			tg.nposted += np
			pmsg = pump.runLambdas()
			if pmsg != "" {
				pmsg = "in a lambda posted to the event loop: " + pmsg
			}
			postedKinds = append(postedKinds, ecLog.take(tg.t)...)
		}
		if pmsg != "" {
			if st.Want.Hit != "none" && listed[st.Want.Hit] {
				out.known = st.Want.Hit
				out.repro = true
				out.knownInfo = fmt.Sprintf("%s cuts %s read %d: panic: %s", jc.Name, ecCuts(steps), si+1, pmsg)
				return
			}
			viol("panic", si+1, "the receive side panicked (on the event-loop goroutine this kills the process): "+pmsg)
			return
		}
		if st.Want.Hit != "none" && listed[st.Want.Hit] {
			// listed known class entered, the panic needs more bytes (or is gone): nothing is compared from here on
			inKnown = st.Want.Hit
			out.known = inKnown
			if out.knownInfo == "" {
				out.knownInfo = fmt.Sprintf("%s cuts %s read %d: in the class, no panic observed", jc.Name, ecCuts(steps), si+1)
			}
			if got.Closed {
				return
			}
			continue
		}
		match := make([]bool, len(st.Want.Posted))
		for i, e := range st.Want.Posted {
			match[i] = ecEqInts(e, jc.Epoch)
		}
		prop, structural := ecCompareRun(st.Want, got, tg.nposted, postedKinds, match)
		if len(prop) > 0 {
			viol("mismatch", si+1, strings.Join(prop, "; "))
			return
		}
		for _, s := range structural {
			out.drift = append(out.drift, fmt.Sprintf("%s cuts %s read %d: %s", jc.Name, ecCuts(steps), si+1, s))
		}
		last = got
		if got.Closed {
			break
		}
	}
	out.complete = off == len(data) || last.Closed
	out.final = ecDigest(last, tg.nposted)
	return
}

// ------------------------------------------------------------------------------------------------ executor "hs"/"hc"

type ecHsResult struct {
	err   error
	panic string
}

func ecParseSent(buf []byte) (types []int, rest []byte) {
	types = []int{}
	for len(buf) > 0 {
		if len(buf) >= headerSize && header(buf).Magic() == magicNumber {
			l := int(header(buf).Length())
			if l < headerSize {
				l = headerSize
			}
			if len(buf) < l {
				return types, buf
			}
			types = append(types, int(header(buf).MsgType()))
			buf = buf[l:]
			continue
		}
		if len(buf) < headerSize && len(buf) >= 6 && binary.BigEndian.Uint16(buf[4:6]) == magicNumber {
			return types, buf
		}
		if len(buf) < 6 && len(buf) > 1 {
			return types, buf
		}
		// not a header: the byte that carries the descriptors
		types = append(types, 99)
		buf = buf[1:]
	}
	return types, buf
}

func ecExecHs(jc *ecCase, bi int, steps []ecStep, listed map[string]bool, token string) (out ecOutcome) {
	viol := func(kind string, step int, detail string) {
		out.viol = append(out.viol, ecViol{Kind: kind, Name: jc.Name, Case: jc.Case, Beh: bi, Cuts: ecCuts(steps), Step: step, Detail: detail, Executor: jc.Exec})
	}
	fds, err := unix.Socketpair(unix.AF_UNIX, unix.SOCK_STREAM, 0)
	if err != nil {
		out.err = err.Error()
		return
	}
	tfd, pfd := fds[0], fds[1]
	defer unix.Close(tfd)
	defer unix.Close(pfd)
	unix.SetNonblock(pfd, true)
	isClient := jc.Role == "client"
	conf := ecConf()
	if isClient && !jc.Memfd {
		conf.MemMapType = MemMapTypeDevShmFile
	}
	s := &Session{config: conf, connFd: tfd, logger: newSessionLogger(isClient, io.Discard), isClient: isClient,
		communicationVersion: protoVersion, streams: map[uint32]*Stream{}, shutdownCh: make(chan struct{})}
	var goodQ *queueManager
	var goodB *bufferManager
	_ = goodB
	gq, gb := string(ecBytes(jc.Goodq)), string(ecBytes(jc.Goodb))
	if isClient {
		if err := s.initMemManager(); err != nil {
			out.err = "initMemManager: " + err.Error()
			return
		}
	} else {
		os.Remove(gq)
		os.Remove(gb)
		if goodQ, err = createQueueManager(gq, 8); err != nil {
			out.err = "createQueueManager: " + err.Error()
			return
		}
		if goodB, err = getGlobalBufferManager(gb, 1<<20, true, conf.BufferSliceSizes); err != nil {
			goodQ.unmap()
			out.err = "getGlobalBufferManager: " + err.Error()
			return
		}
	}
	defer func() {
		defer func() { recover() }()
		if isClient {
			if s.queueManager != nil {
				s.queueManager.unmap()
			}
			if s.bufferManager != nil {
				addGlobalBufferManagerRefCount(s.bufferManager.path, -1)
			}
			os.Remove(conf.QueuePath)
			os.Remove(conf.ShareMemoryPathPrefix + bufferPathSuffix)
			return
		}
		if s.queueManager != nil {
			unix.Munmap(s.queueManager.mem)
		}
		if s.bufferManager != nil {
			addGlobalBufferManagerRefCount(gb, -1)
		}
		goodQ.unmap()
		addGlobalBufferManagerRefCount(gb, -1)
		os.Remove(gq)
		os.Remove(gb)
	}()
	resCh := make(chan ecHsResult, 1)
	go func() {
		var r ecHsResult
		defer func() {
			if p := recover(); p != nil {
				r.panic = fmt.Sprintf("%v [%s]", p, ecShortStack())
			}
			resCh <- r
		}()
		// the body of the goroutine in Session.initProtocol
		pa := newProtocolAdaptor(s)
		ini, err := pa.getProtocolInitializer()
		if err != nil {
			r.err = err
			return
		}
		s.communicationVersion = ini.Version()
		r.err = ini.Init()
	}()
	var res *ecHsResult
	poll := func(d time.Duration) {
		if res != nil {
			return
		}
		select {
		case r := <-resCh:
			res = &r
		case <-time.After(d):
		}
	}
	sentRaw := []byte{}
	readSent := func() {
		buf := make([]byte, 4096)
		for {
			n, err := unix.Read(pfd, buf)
			if n > 0 {
				sentRaw = append(sentRaw, buf[:n]...)
			}
			if err != nil || n <= 0 {
				return
			}
		}
	}
	data := ecBytes(jc.Bytes)
	off := 0
	finishedAt := -1
	check := func(si int, want ecState, final bool) bool {
		readSent()
		types, _ := ecParseSent(sentRaw)
		if isClient && len(types) > 0 && types[0] == 4 {
			types = types[1:] // the client's own version event, sent before it reads anything
		}
		if res != nil && res.panic != "" {
			if want.Hit != "none" && listed[want.Hit] {
				out.known = want.Hit
				out.repro = true
				out.knownInfo = fmt.Sprintf("%s cuts %s read %d: panic: %s", jc.Name, ecCuts(steps), si, res.panic)
				return false
			}
			viol("panic", si, "the handshake goroutine panicked (kills the process): "+res.panic)
			return false
		}
		if want.Hit != "none" && listed[want.Hit] {
			out.known = want.Hit
			out.knownInfo = fmt.Sprintf("%s cuts %s read %d: in the class, no panic observed", jc.Name, ecCuts(steps), si)
			return true
		}
		var prop []string
		gotClosed := res != nil && res.err != nil
		gotDone := res != nil && res.err == nil
		if want.Closed != gotClosed {
			e := ""
			if gotClosed {
				e = res.err.Error()
			}
			prop = append(prop, fmt.Sprintf("handshake failed=%v (%s), specification requires failed=%v", gotClosed, e, want.Closed))
		}
		if want.Hsdone != gotDone {
			prop = append(prop, fmt.Sprintf("handshake succeeded=%v, specification says %v", gotDone, want.Hsdone))
		}
		if gotDone && !s.handshakeDone && !isClient {
			prop = append(prop, "handshake returned success without handshakeDone")
		}
		if !ecEqInts(want.Sent, types) && !(want.Closed && gotClosed) {
			prop = append(prop, fmt.Sprintf("events written back %v, specification says %v", types, want.Sent))
		}
		if res != nil && !want.Closed {
			if inq := ecInq(tfd); inq != want.Win {
				prop = append(prop, fmt.Sprintf("%d bytes left unread in the socket after the handshake, specification says %d", inq, want.Win))
			}
		}
		if gotDone && want.Ver != 0 && int(s.communicationVersion) != want.Ver {
			prop = append(prop, fmt.Sprintf("negotiated version %d, specification says %d", s.communicationVersion, want.Ver))
		}
		if len(prop) > 0 {
			viol("mismatch", si, strings.Join(prop, "; "))
			return false
		}
		return true
	}
	sentNow := func() []int {
		readSent()
		types, _ := ecParseSent(sentRaw)
		if isClient && len(types) > 0 && types[0] == 4 {
			types = types[1:]
		}
		return types
	}
	for si, st := range steps {
		if res != nil || (st.Extra && out.known == "") {
			break
		}
		chunk := data[off : off+st.N]
		off += st.N
		if _, err := unix.Write(pfd, chunk); err != nil {
			out.err = "raw write: " + err.Error()
			return
		}
		out.reads++
		wantFinish := (st.Want.Closed || st.Want.Hsdone) && out.known == ""
		deadline := time.Now().Add(3 * time.Second)
		for res == nil && time.Now().Before(deadline) {
			if ecInq(tfd) == 0 && !wantFinish {
				// everything read; give the code the time to answer what the specification says it answers
				d2 := time.Now().Add(300 * time.Millisecond)
				for res == nil && time.Now().Before(d2) && !ecEqInts(sentNow(), st.Want.Sent) {
					poll(100 * time.Microsecond)
				}
				poll(300 * time.Microsecond)
				break
			}
			poll(100 * time.Microsecond)
		}
		if res != nil {
			finishedAt = si
		}
		if st.Extra {
			continue
		}
		if !check(si+1, st.Want, false) {
			return
		}
	}
	_ = finishedAt
	lastWant := steps[len(steps)-1].Want
	if out.known != "" {
		// listed known class: only look whether the listed panic shows up by the end of the stream
		if res == nil {
			unix.Shutdown(pfd, unix.SHUT_WR)
			poll(3 * time.Second)
		}
		if res != nil && res.panic != "" {
			out.repro = true
			out.knownInfo = fmt.Sprintf("%s cuts %s: panic: %s", jc.Name, ecCuts(steps), res.panic)
		}
		return
	}
	if res == nil {
		// the specification says the handshake still waits for bytes: end of stream must end it with an error, not a panic
		unix.Shutdown(pfd, unix.SHUT_WR)
		poll(3 * time.Second)
		if res == nil {
			viol("mismatch", len(steps), "handshake still blocked 3 s after the peer closed the connection")
			return
		}
		if res.panic != "" {
			viol("panic", len(steps), "the handshake goroutine panicked at end of stream: "+res.panic)
			return
		}
		if res.err == nil {
			viol("mismatch", len(steps), "handshake reported success on a truncated exchange")
			return
		}
		out.final = "eof-error"
	} else {
		out.final = fmt.Sprintf("closed=%v done=%v", lastWant.Closed, lastWant.Hsdone)
	}
	out.complete = true
	return
}

// ------------------------------------------------------------------------------------------------ executor "child"

type ecChildJob struct {
	Case   ecCase   `json:"case"`
	Token  string   `json:"token"`
	Listed []string `json:"listed"`
}

type ecChildOut struct {
	Done      bool     `json:"done"`
	Err       string   `json:"err"`
	Obs       ecState  `json:"obs"`
	NPosted   int      `json:"nposted"`
	HsErr     string   `json:"hs_err"`
	HsOK      bool     `json:"hs_ok"`
	Bystander string   `json:"bystander"`
	Kinds     []string `json:"kinds"`
	Viol      []ecViol `json:"viol"`
	Known     string   `json:"known"`
	Repro     bool     `json:"repro"`
	KnownInfo string   `json:"known_info"`
}

func ecChildKind(jc *ecCase) string {
	if jc.Exec == "hs" {
		return "real handshake functions in a process limited to 3 GiB of address space"
	}
	return "complete real path: Server()/epoll loop"
}

func ecListed(l []string, slug string) bool {
	for _, x := range l {
		if x == slug {
			return true
		}
	}
	return false
}

func ecBystanderCheck(c, s *Session) string {
	if c.IsClosed() || s.IsClosed() {
		return "bystander session was closed"
	}
	st, err := c.OpenStream()
	if err != nil {
		return "bystander OpenStream: " + err.Error()
	}
	msg := []byte("bystander-ping")
	st.BufferWriter().WriteBytes(msg)
	if err := st.Flush(false); err != nil {
		return "bystander Flush: " + err.Error()
	}
	done := make(chan string, 1)
	go func() {
		ss, err := s.AcceptStream()
		if err != nil {
			done <- "bystander AcceptStream: " + err.Error()
			return
		}
		ss.SetReadDeadline(time.Now().Add(3 * time.Second))
		b, err := ss.BufferReader().ReadBytes(len(msg))
		if err != nil || string(b) != string(msg) {
			done <- fmt.Sprintf("bystander read %q err %v", b, err)
			return
		}
		done <- ""
	}()
	select {
	case r := <-done:
		return r
	case <-time.After(5 * time.Second):
		return "bystander round trip timed out"
	}
}

func ecChildMain(path, outPath string) {
	var cj ecChildJob
	raw, _ := os.ReadFile(path)
	if err := json.Unmarshal(raw, &cj); err != nil {
		fmt.Println("child: bad job", err)
		os.Exit(3)
	}
	internalLogger.out = ecLog
	SetLogLevel(levelWarn) // bench_test.go switches logging off in its init; the manager's log lines are an observable here
	jc := &cj.Case
	steps := jc.Behaviours[0]
	var out ecChildOut
	write := func() {
		b, _ := json.Marshal(out)
		os.WriteFile(outPath, b, 0644)
	}
	if jc.Exec == "hs" {
		// a metadata event whose Length underflows: the unrepaired code allocates ~4 GiB for the body. Executed here, in a
		// process of its own whose address space is limited, so that such an allocation kills this process (and is reported)
		// instead of eating the machine's memory
		lim := unix.Rlimit{Cur: 3 << 30, Max: 3 << 30}
		unix.Setrlimit(unix.RLIMIT_AS, &lim)
		listed := map[string]bool{}
		for _, x := range cj.Listed {
			listed[x] = true
		}
		o := ecExecHs(jc, 0, steps, listed, cj.Token)
		out.Err = o.err
		out.Viol = o.viol
		out.Known = o.known
		out.Repro = o.repro
		out.KnownInfo = o.knownInfo
		out.Done = true
		write()
		return
	}
	bc, bs, err := ecNewPair()
	if err != nil {
		out.Err = "bystander pair: " + err.Error()
		write()
		return
	}
	data := ecBytes(jc.Bytes)
	settle := func(tg *ecTarget, tfd int) ecState {
		deadline := time.Now().Add(2 * time.Second)
		for time.Now().Before(deadline) && ecInq(tfd) > 0 && !tg.t.IsClosed() {
			time.Sleep(200 * time.Microsecond)
		}
		prev := ""
		var o ecState
		for i := 0; i < 400; i++ {
			time.Sleep(500 * time.Microsecond)
			o = tg.observe()
			b, _ := json.Marshal(o)
			if string(b) == prev {
				return o
			}
			prev = string(b)
		}
		return o
	}
	lastWant := steps[0].Want
	inClass := false
	for _, st := range steps {
		if !st.Extra {
			lastWant = st.Want
		}
		if st.Want.Hit != "none" && ecListed(cj.Listed, st.Want.Hit) {
			inClass = true
		}
	}
	epochMatch := make([]bool, len(lastWant.Posted))
	for i, e := range lastWant.Posted {
		epochMatch[i] = ecEqInts(e, jc.Epoch)
	}
	// the real loop is asynchronous: wait (bounded) until the session shows what the specification predicts
	eventually := func(tg *ecTarget, keep []ecStream) {
		deadline := time.Now().Add(3 * time.Second)
		if inClass {
			deadline = time.Now().Add(30 * time.Millisecond)
		}
		for {
			o := tg.observe()
			if o.Closed && len(o.Streams) == 0 {
				o.Streams = keep
			}
			if !o.Closed {
				keep = o.Streams
			}
			out.Kinds = append(out.Kinds, ecLog.take(tg.t)...)
			out.NPosted = len(out.Kinds)
			out.Obs = o
			prop, _ := ecCompareRun(lastWant, o, out.NPosted, out.Kinds, epochMatch)
			n := 0
			for _, x := range prop {
				if !strings.HasPrefix(x, "unconsumed window") {
					n++
				}
			}
			if (n == 0 && !inClass) || time.Now().After(deadline) {
				return
			}
			time.Sleep(time.Millisecond)
		}
	}
	if jc.Exec == "run" {
		client, server, err := ecNewPair()
		if err != nil {
			out.Err = "pair: " + err.Error()
			write()
			return
		}
		tg, err := ecWire(jc, client, server)
		if err != nil {
			out.Err = "wire: " + err.Error()
			write()
			return
		}
		tg.conn = nil // the window belongs to the loop goroutine here
		off := 0
		for _, st := range steps {
			if st.Extra && !ecListed(cj.Listed, st.Want.Hit) {
				break
			}
			chunk := data[off : off+st.N]
			off += st.N
			if tg.t.IsClosed() {
				break
			}
			if _, err := unix.Write(tg.peer.connFd, chunk); err != nil {
				break
			}
			out.Obs = settle(tg, tg.t.connFd)
		}
		// the loop runs posted lambdas only when epoll_wait returns: traffic on the bystander makes it return
		keep := out.Obs.Streams
		eventually(tg, keep)
		out.Bystander = ecBystanderCheck(bc, bs)
		out.Done = true
		write()
		return
	} else {
		// the whole path from the first byte: Server() on a raw connection
		gq, gb := string(ecBytes(jc.Goodq)), string(ecBytes(jc.Goodb))
		os.Remove(gq)
		os.Remove(gb)
		conf := ecConf()
		conf.InitializeTimeout = 400 * time.Millisecond
		goodQ, err := createQueueManager(gq, 8)
		if err == nil {
			_, err = getGlobalBufferManager(gb, 1<<20, true, conf.BufferSliceSizes)
		}
		if err != nil {
			out.Err = "good share memory: " + err.Error()
			write()
			return
		}
		defer func() {
			goodQ.unmap()
			os.Remove(gq)
			os.Remove(gb)
		}()
		cc, sc, err := ecConnPair()
		if err != nil {
			out.Err = err.Error()
			write()
			return
		}
		scf, _ := sc.File()
		tfd := int(scf.Fd())
		ccf, _ := cc.File()
		pfd := int(ccf.Fd())
		type sres struct {
			s   *Session
			err error
		}
		ch := make(chan sres, 1)
		go func() {
			s, err := Server(sc, conf)
			ch <- sres{s, err}
		}()
		var sr *sres
		off := 0
		for _, st := range steps {
			if st.Extra && !ecListed(cj.Listed, st.Want.Hit) {
				break
			}
			chunk := data[off : off+st.N]
			off += st.N
			if _, err := unix.Write(pfd, chunk); err != nil {
				break
			}
			deadline := time.Now().Add(time.Second)
			for time.Now().Before(deadline) && ecInq(tfd) > 0 {
				if sr == nil {
					select {
					case r := <-ch:
						sr = &r
					default:
					}
				}
				if sr != nil && (sr.err != nil || sr.s.IsClosed()) {
					break
				}
				time.Sleep(200 * time.Microsecond)
			}
		}
		if sr == nil {
			select {
			case r := <-ch:
				sr = &r
			case <-time.After(2 * time.Second):
			}
		}
		if sr == nil {
			out.HsErr = "Server() did not return within 2 s (InitializeTimeout 400 ms)"
		} else if sr.err != nil {
			out.HsErr = sr.err.Error()
		} else {
			out.HsOK = true
			tg := &ecTarget{t: sr.s, jc: jc}
			out.Obs = settle(tg, tfd)
			eventually(tg, out.Obs.Streams)
		}
		unix.Close(pfd)
		cc.Close()
	}
	out.Bystander = ecBystanderCheck(bc, bs)
	out.Done = true
	write()
}

func ecExecChild(jc *ecCase, bi int, steps []ecStep, listed map[string]bool, token, dir string, idx int) (out ecOutcome) {
	viol := func(kind string, detail string) {
		out.viol = append(out.viol, ecViol{Kind: kind, Name: jc.Name, Case: jc.Case, Beh: bi, Cuts: ecCuts(steps), Step: len(steps), Detail: detail, Executor: "child"})
	}
	one := *jc
	one.Behaviours = [][]ecStep{steps}
	cj := ecChildJob{Case: one, Token: token}
	for slug := range listed {
		cj.Listed = append(cj.Listed, slug)
	}
	b, _ := json.Marshal(cj)
	in := fmt.Sprintf("%s/ec_child_%d.json", dir, idx)
	outp := fmt.Sprintf("%s/ec_child_%d.out", dir, idx)
	os.WriteFile(in, b, 0644)
	defer os.Remove(in)
	defer os.Remove(outp)
	if jc.Exec != "run" { // a child that dies cannot remove the share-memory files it created
		defer os.Remove(string(ecBytes(jc.Goodq)))
		defer os.Remove(string(ecBytes(jc.Goodb)))
	}
	cmd := exec.Command(os.Args[0], "-test.run", "^TestVS_EventCodec$", "-test.timeout", "60s")
	cmd.Env = append(os.Environ(), "VS_EC_CHILD="+in, "VS_EC_CHILD_OUT="+outp)
	cmd.SysProcAttr = &unix.SysProcAttr{Pdeathsig: unix.SIGKILL}
	var buf bytes.Buffer
	cmd.Stdout = &buf
	cmd.Stderr = &buf
	err := cmd.Run()
	out.reads = len(steps)
	last := steps[len(steps)-1].Want
	hit := "none"
	for _, s := range steps {
		if s.Want.Hit != "none" {
			hit = s.Want.Hit
		}
	}
	raw, rerr := os.ReadFile(outp)
	var co ecChildOut
	if rerr == nil {
		json.Unmarshal(raw, &co)
	}
	if err != nil || !co.Done {
		txt := buf.String()
		msg := ""
		if i := strings.Index(txt, "panic:"); i >= 0 {
			msg = txt[i:]
		} else if i := strings.Index(txt, "fatal error:"); i >= 0 {
			msg = txt[i:]
		}
		if len(msg) > 400 {
			msg = msg[:400]
		}
		if msg == "" {
			if co.Err != "" {
				out.err = "child harness problem: " + co.Err
				return
			}
			out.err = fmt.Sprintf("child ended without result: %v %s", err, ecTail(txt, 300))
			return
		}
		if hit != "none" && listed[hit] {
			out.known = hit
			out.repro = true
			out.knownInfo = fmt.Sprintf("%s cuts %s (real epoll loop, child process): process died: %s", jc.Name, ecCuts(steps), strings.SplitN(msg, "\n", 2)[0])
			return
		}
		viol("panic", "the process died ("+ecChildKind(jc)+"): "+strings.ReplaceAll(msg, "\n", " | "))
		return
	}
	if jc.Exec == "hs" {
		for _, v := range co.Viol {
			v.Beh = bi
			v.Executor = "child"
			out.viol = append(out.viol, v)
		}
		out.known, out.repro, out.knownInfo, out.err = co.Known, co.Repro, co.KnownInfo, co.Err
		out.complete = len(out.viol) == 0
		return
	}
	if hit != "none" && listed[hit] {
		out.known = hit
		out.knownInfo = fmt.Sprintf("%s cuts %s (child process): in the class, the process survived", jc.Name, ecCuts(steps))
		if co.Bystander != "" {
			viol("mismatch", "another session of the process was affected: "+co.Bystander)
			out.known = ""
		}
		return
	}
	for len(steps) > 1 && steps[len(steps)-1].Extra {
		steps = steps[:len(steps)-1]
		last = steps[len(steps)-1].Want
	}
	var prop []string
	if jc.Exec == "run" {
		p, _ := ecCompareRun(last, co.Obs, co.NPosted, co.Kinds, func() []bool {
			m := make([]bool, len(last.Posted))
			for i, e := range last.Posted {
				m[i] = ecEqInts(e, jc.Epoch)
			}
			return m
		}())
		for _, x := range p {
			if strings.HasPrefix(x, "unconsumed window") {
				continue
			}
			prop = append(prop, x)
		}
	} else {
		wantOK := last.Hsdone
		if wantOK != co.HsOK {
			prop = append(prop, fmt.Sprintf("Server() succeeded=%v (%s), specification says %v", co.HsOK, co.HsErr, wantOK))
		} else if co.HsOK {
			w := last
			p, _ := ecCompareRun(w, co.Obs, 0, nil, nil)
			for _, x := range p {
				if strings.HasPrefix(x, "unconsumed window") {
					continue
				}
				prop = append(prop, x)
			}
		}
	}
	if co.Bystander != "" {
		prop = append(prop, "another session of the process was affected: "+co.Bystander)
	}
	if len(prop) > 0 {
		viol("mismatch", strings.Join(prop, "; "))
		return
	}
	out.complete = true
	out.final = "child-ok"
	return
}

// ------------------------------------------------------------------------------------------------ driver

func TestVS_EventCodec(t *testing.T) {
	if p := os.Getenv("VS_EC_CHILD"); p != "" {
		ecChildMain(p, os.Getenv("VS_EC_CHILD_OUT"))
		return
	}
	in := os.Getenv("VS_IN_JOB")
	if in == "" {
		t.Skip("VS_IN_JOB not set")
	}
	var job ecJob
	raw, err := os.ReadFile(in)
	if err != nil {
		t.Fatal(err)
	}
	if err := json.Unmarshal(raw, &job); err != nil {
		t.Fatal(err)
	}
	internalLogger.out = ecLog
	SetLogLevel(levelWarn) // bench_test.go switches logging off in its init; the manager's log lines are an observable here
	listed := map[string]bool{}
	for _, s := range job.Listed {
		listed[s] = true
	}
	res := &ecResult{TimeMs: map[string]int64{}, ByExec: map[string]int{}, Drift: []string{}, Samples: []interface{}{}, KnownHits: map[string]*ecKnownHit{},
		Violations: []ecViol{}, Errors: []string{}}
	record := func(o ecOutcome, executor string) {
		res.mu.Lock()
		defer res.mu.Unlock()
		res.Executed++
		res.Reads += o.reads
		res.ByExec[executor]++
		if o.err != "" {
			if len(res.Errors) < 20 {
				res.Errors = append(res.Errors, executor+": "+o.err)
			}
			return
		}
		if o.known != "" {
			res.KnownPruned++
			if o.repro {
				h := res.KnownHits[o.known]
				if h == nil {
					h = &ecKnownHit{First: o.knownInfo}
					res.KnownHits[o.known] = h
				}
				h.Count++
			}
			return
		}
		if len(o.viol) > 0 {
			if len(res.Violations) < 40 {
				res.Violations = append(res.Violations, o.viol...)
			}
			return
		}
		if len(o.drift) > 0 && len(res.Drift) < 20 {
			res.Drift = append(res.Drift, o.drift...)
		}
		res.Conforming++
	}
	dir := os.Getenv("VS_DIR")
	if dir == "" {
		dir = os.TempDir()
	}
	type childTask struct {
		jc    *ecCase
		bi    int
		steps []ecStep
	}
	var children []childTask
	for ji := range job.Jobs {
		jc := &job.Jobs[ji]
		for bi, steps := range jc.Behaviours {
			if len(steps) == 0 {
				continue
			}
			if jc.Exec == "hsfull" || (jc.Child && bi < 2) || (jc.Danger && jc.Exec == "hs" && bi < 3) {
				children = append(children, childTask{jc, bi, steps})
			}
		}
	}
	inProcess := func() {
		// the in-process executors never use a looping dispatcher: sessions are created on this one and then moved to one
		// dispatcher per behaviour (child processes keep the library's own epoll loop)
		creation := ecNewPump()
		defaultDispatcher = creation
		nw := 8
		if job.Replay {
			nw = 1
		}
		if v := os.Getenv("VS_EC_WORKERS"); v != "" {
			fmt.Sscan(v, &nw)
		}
		jobCh := make(chan int, len(job.Jobs))
		for ji := range job.Jobs {
			jobCh <- ji
		}
		close(jobCh)
		var wwg sync.WaitGroup
		for w := 0; w < nw; w++ {
			wwg.Add(1)
			go func() {
				defer wwg.Done()
				for ji := range jobCh {
					jc := &job.Jobs[ji]
					finals := map[string]int{}
					for bi, steps := range jc.Behaviours {
						if len(steps) == 0 || atomic.LoadInt32(&ecAbort) == 1 {
							continue
						}
						var o ecOutcome
						t0 := time.Now()
						switch jc.Exec {
						case "run":
							o = ecExecRun(jc, bi, steps, listed)
						case "hs", "hc":
							if jc.Danger {
								continue // executed in a child process with an address-space limit (see the children below)
							}
							o = ecExecHs(jc, bi, steps, listed, job.Token)
						default:
							continue
						}
						record(o, jc.Exec)
						res.mu.Lock()
						res.TimeMs[jc.Exec] += time.Since(t0).Microseconds()
						if len(res.Samples) < 3 && len(o.viol) == 0 && o.err == "" && o.known == "" && bi == 3 {
							res.Samples = append(res.Samples, map[string]interface{}{"case": jc.Name, "bytes": jc.Bytes, "reads": ecCuts(steps),
								"executor": jc.Exec, "final_state_predicted_and_observed": steps[len(steps)-1].Want})
						}
						res.mu.Unlock()
						if o.complete && o.final != "" && len(o.viol) == 0 && o.known == "" {
							finals[o.final]++
						}
					}
					res.mu.Lock()
					if len(finals) > 0 {
						res.CutGroups++
					}
					if len(finals) > 1 && jc.Exec == "run" {
						keys := []string{}
						for k := range finals {
							keys = append(keys, k)
						}
						res.Violations = append(res.Violations, ecViol{Kind: "cut-dependence", Name: jc.Name, Case: jc.Case, Beh: -1, Cuts: "all", Step: 0,
							Detail: "the final effect of the same byte string differs between cuts: " + strings.Join(keys, "  VS  "), Executor: "run"})
					}
					res.mu.Unlock()
				}
			}()
		}
		wwg.Wait()
		res.TimeMs["run_pair"] = ecTimePair / 1000
		res.TimeMs["run_rest"] = ecTimeRest / 1000
		res.TimeMs["run_clean"] = ecTimeClean / 1000
	}
	shardMode := os.Getenv("VS_EC_SHARD") != ""
	var shardWg sync.WaitGroup
	if shardMode || job.Replay || len(job.Jobs) <= 6 {
		inProcess()
	} else {
		// the in-process executors are spread over a few processes with few threads each: creating and tearing down share
		// memory mappings is what costs here, and that does not scale with threads of one address space
		nsh := 6
		order := make([]int, len(job.Jobs))
		for i := range order {
			order[i] = i
		}
		cost := func(i int) int {
			c := 0
			for _, b := range job.Jobs[i].Behaviours {
				c += 4 + len(b)
			}
			return c
		}
		sort.Slice(order, func(a, b int) bool { return cost(order[a]) > cost(order[b]) })
		shards := make([][]ecCase, nsh)
		load := make([]int, nsh)
		for _, i := range order {
			k := 0
			for x := range load {
				if load[x] < load[k] {
					k = x
				}
			}
			shards[k] = append(shards[k], job.Jobs[i])
			load[k] += cost(i)
		}
		for k := range shards {
			if len(shards[k]) == 0 {
				continue
			}
			shardWg.Add(1)
			go func(k int) {
				defer shardWg.Done()
				sj := job
				sj.Jobs = shards[k]
				sj.Children = 0
				in := fmt.Sprintf("%s/ec_shard_%d.json", dir, k)
				outp := fmt.Sprintf("%s/ec_shard_%d.out", dir, k)
				b, _ := json.Marshal(sj)
				os.WriteFile(in, b, 0644)
				defer os.Remove(in)
				defer os.Remove(outp)
				cmd := exec.Command(os.Args[0], "-test.run", "^TestVS_EventCodec$", "-test.timeout", "1500s")
				cmd.Env = append(os.Environ(), "VS_EC_SHARD=1", "VS_IN_JOB="+in, "VS_OUT="+outp, "GOMAXPROCS=4", "VS_EC_WORKERS=1")
				cmd.SysProcAttr = &unix.SysProcAttr{Pdeathsig: unix.SIGKILL}
				var buf bytes.Buffer
				cmd.Stdout = &buf
				cmd.Stderr = &buf
				err := cmd.Run()
				var sr ecResult
				raw, rerr := os.ReadFile(outp)
				if rerr == nil {
					rerr = json.Unmarshal(raw, &sr)
				}
				res.mu.Lock()
				defer res.mu.Unlock()
				if err != nil || rerr != nil {
					res.Errors = append(res.Errors, fmt.Sprintf("shard %d failed: %v %v: %s", k, err, rerr, ecTail(buf.String(), 600)))
					return
				}
				res.Executed += sr.Executed
				res.Reads += sr.Reads
				res.Conforming += sr.Conforming
				res.KnownPruned += sr.KnownPruned
				res.CutGroups += sr.CutGroups
				for e, n := range sr.ByExec {
					res.ByExec[e] += n
				}
				for e, n := range sr.TimeMs {
					res.TimeMs[e] += n
				}
				res.Drift = append(res.Drift, sr.Drift...)
				if len(res.Samples) < 3 {
					res.Samples = append(res.Samples, sr.Samples...)
				}
				for slug, h := range sr.KnownHits {
					if res.KnownHits[slug] == nil {
						res.KnownHits[slug] = &ecKnownHit{First: h.First}
					}
					res.KnownHits[slug].Count += h.Count
				}
				res.Violations = append(res.Violations, sr.Violations...)
				res.Errors = append(res.Errors, sr.Errors...)
			}(k)
		}
	}
	// children, a few at a time
	if job.Children > 0 && len(children) > 0 {
		sort.SliceStable(children, func(a, b int) bool { return children[a].jc.Danger && !children[b].jc.Danger })
		if len(children) > job.Children {
			children = children[:job.Children]
		}
		sem := make(chan struct{}, 8)
		caseMu := map[int]*sync.Mutex{}
		for _, c := range children {
			if caseMu[c.jc.Case] == nil {
				caseMu[c.jc.Case] = &sync.Mutex{}
			}
		}
		var wg sync.WaitGroup
		for i, c := range children {
			wg.Add(1)
			sem <- struct{}{}
			go func(i int, c childTask) {
				defer wg.Done()
				defer func() { <-sem }()
				if c.jc.Exec != "run" { // the share-memory files named in the byte string are per case
					caseMu[c.jc.Case].Lock()
					defer caseMu[c.jc.Case].Unlock()
				}
				o := ecExecChild(c.jc, c.bi, c.steps, listed, job.Token, dir, i)
				record(o, "child")
				res.mu.Lock()
				res.Children++
				res.mu.Unlock()
			}(i, c)
		}
		wg.Wait()
	}
	shardWg.Wait()
	if ecLn != nil {
		ecLn.Close()
	}
	b, _ := json.Marshal(res)
	if err := os.WriteFile(os.Getenv("VS_OUT"), b, 0644); err != nil {
		t.Fatal(err)
	}
	if shardMode && atomic.LoadInt32(&ecAbort) == 1 {
		os.Exit(0) // a goroutine of the library is spinning in this process; do not wait for anything
	}
}
