package shmipc

// Binding for the Session module (C07, C09, C10): TLC behaviours of Session.tla are replayed on a vpPair of REAL
// sessions. API calls (Flush, Close) run as threads of the serialising scheduler so that a writer can be parked between
// "element is on the queue" / "working flag won" / "polling event written" exactly as in the spec; the event loops are
// driven by the harness one socket event at a time. After every step the real queues, recorded socket events, flags,
// stream states, unread byte counts and the number of allocated buffers are compared with the spec state; property
// oracles are evaluated on the real observations independently of the spec.

import (
	"encoding/binary"
	"encoding/json"
	"fmt"
	"math/rand"
	"os"
	"strings"
	"testing"
	"time"
	"unsafe"
)

type ssStep struct {
	Act  string `json:"a"`
	Side string `json:"e"`
	S    int    `json:"s"`
	Exp  *ssExp `json:"x"`
}

// expected projection of the spec state after the step
type ssExp struct {
	Sst   map[string][]string `json:"sst"`   // side -> state per stream index
	Queue map[string][][]int  `json:"queue"` // side -> [[stream, kind(0 data,1 close)]]
	Sock  map[string][][]int  `json:"sock"`  // side -> [[type(1 poll,2 fb,3 sc), stream]]
	Flag  map[string]int      `json:"flag"`
	Pend  map[string][]int    `json:"pend"`
	Inuse int                 `json:"inuse"`
	Err   string              `json:"err"`
	Kf    string              `json:"kf"`
}

type ssSchedule struct {
	Name     string   `json:"name"`
	Steps    []ssStep `json:"steps"`
	NStreams int      `json:"nstreams"` // 0: the job's
	Raw      bool     `json:"raw"`      // witness: report every violation, ignore the known list
}

type ssJob struct {
	NStreams  int          `json:"nstreams"`
	QCap      int          `json:"qcap"`
	Schedules []ssSchedule `json:"schedules"`
	Known     []string     `json:"known"` // listed known-finding slugs
	Staged    bool         `json:"staged"`
	MsgLen    int          `json:"msglen"` // bytes per message (default 3 = one 4-byte buffer; 9 = a chain of three buffers)
	Random    struct {
		N       int   `json:"n"`
		Seed    int64 `json:"seed"`
		Steps   int   `json:"steps"`
		Streams int   `json:"streams"`
	} `json:"random"`
}

type ssViolation struct {
	Property string   `json:"property"`
	Kind     string   `json:"kind"`
	Detail   string   `json:"detail"`
	Schedule string   `json:"schedule"`
	Steps    []ssStep `json:"steps"`
	Kf       string   `json:"kf"`
	NStreams int      `json:"nstreams"`
	QCap     int      `json:"qcap"`
}

type ssResult struct {
	Replayed    int            `json:"replayed"`
	Steps       int            `json:"steps"`
	Conforming  int            `json:"conforming"`
	DriftCount  int            `json:"drift_count"`
	Drift       []string       `json:"drift"`
	Violations  []ssViolation  `json:"violations"`
	KnownHits   map[string]int `json:"known_hits"`
	KnownWit    map[string]string `json:"known_witness"`
	RandomRuns  int            `json:"random_runs"`
	RandomSteps int            `json:"random_steps"`
	EndChecks   int            `json:"end_checks"`
	EosChecks   int            `json:"eos_checks"`
	Samples     []string       `json:"samples"`
	Skipped     int            `json:"skipped_steps"`
	DriftFirst  []ssStep       `json:"drift_first_steps"`
	Staged      []string       `json:"staged"`
}

type ssStream struct {
	obj     [2]*Stream // A, B
	thr     [2]*ssThr
	nmsg    [2]int
	ok      [2][]int // successfully flushed message numbers per side
	got     [2][]int
	eos     [2]bool
	closedL [2]bool // closed locally
	realID  uint32
}

type ssThr struct {
	th   *vsThread
	next func()
	err  error
	busy bool
}

type ssWorld struct {
	pair     *vpPair
	nstreams int
	qcap     int
	streams  []*ssStream
	held     []*bufferSlice
	exh      bool
	viol     *ssViolation
	kf       string
	known    map[string]bool
	res      *ssResult
	lastErr  string
	apiDrift string
	seenB    int
}

func ssSideIdx(e string) int {
	if e == "A" {
		return 0
	}
	return 1
}

func (w *ssWorld) sess(i int) *Session {
	if i == 0 {
		return w.pair.A
	}
	return w.pair.B
}
func (w *ssWorld) conn(i int) *vpConn {
	if i == 0 {
		return w.pair.connA
	}
	return w.pair.connB
}

func (w *ssWorld) fail(prop, kind, detail string) {
	if w.viol == nil {
		w.viol = &ssViolation{Property: prop, Kind: kind, Detail: detail, Kf: w.kf, NStreams: w.nstreams, QCap: w.qcap}
	}
}

func ssNewWorld(pair *vpPair, nstreams, qcap int, known []string, res *ssResult) *ssWorld {
	w := &ssWorld{pair: pair, nstreams: nstreams, qcap: qcap, res: res, known: map[string]bool{}}
	for _, k := range known {
		w.known[k] = true
	}
	pair.newStreamsB = nil
	w.seenB = 0
	vsReset(vsSched)
	for i := 0; i < nstreams; i++ {
		st := &ssStream{}
		for side := 0; side < 2; side++ {
			t := &ssThr{}
			t.th = vsSpawn(10*(i+1)+side, func(th *vsThread) {
				for {
					vsYield("idle")
					if t.next == nil {
						return
					}
					f := t.next
					t.next = nil
					f()
				}
			})
			vsStep(t.th)
			st.thr[side] = t
		}
		w.streams = append(w.streams, st)
	}
	return w
}

func (w *ssWorld) closeWorld() {
	for _, st := range w.streams {
		for _, t := range st.thr {
			if !t.th.done && t.th.pos == "idle" {
				t.next = nil
				vsStep(t.th)
			}
		}
	}
	vsReset(vsOff)
	if w.exh {
		w.pair.unhog(w.held)
		w.held = nil
		w.exh = false
	}
}

// refreshB binds server-side stream objects to spec streams. The server surfaces a stream when the first message for an
// id arrives - and again (a new object under the same id) when data arrives for an id it has already closed.
func (w *ssWorld) refreshB() {
	for ; w.seenB < len(w.pair.newStreamsB); w.seenB++ {
		ns := w.pair.newStreamsB[w.seenB]
		for _, st := range w.streams {
			if st.obj[0] == nil || st.realID != ns.id {
				continue
			}
			if st.obj[1] != nil && st.obj[1] != ns {
				if w.kf == "" {
					w.kf = "server-recreates-closed-stream"
				}
				st.closedL[1] = false
				st.eos[1] = false
			}
			st.obj[1] = ns
		}
	}
}

// syncDropped: messages that reached an end whose stream object is closed are disposed of (dropped) there.
func (w *ssWorld) syncDropped(x *ssExp) {
	for i, st := range w.streams {
		for side := 0; side < 2; side++ {
			o := st.obj[side]
			if o == nil || ssState(o) != "closed" {
				continue
			}
			peer := []string{"A", "B"}[1-side]
			inflight := 0
			for _, el := range x.Queue[peer] {
				if el[0] == i+1 && el[1] == 0 {
					inflight++
				}
			}
			for _, ev := range x.Sock[peer] {
				if ev[0] == 2 && ev[1] == i+1 {
					inflight++
				}
			}
			ok := st.ok[1-side]
			for len(st.got[side]) < len(ok)-inflight {
				st.got[side] = append(st.got[side], ok[len(st.got[side])])
			}
		}
	}
}

func ssState(s *Stream) string {
	if s == nil {
		return "none"
	}
	switch streamState(s.getStreamState()) {
	case streamOpened:
		return "open"
	case streamHalfClosed:
		return "half"
	}
	return "closed"
}

func (w *ssWorld) idxOf(id uint32) int {
	for i, st := range w.streams {
		if st.obj[0] != nil && st.realID == id {
			return i + 1
		}
	}
	return -1
}

// projection of the real state in the spec's vocabulary
func (w *ssWorld) project() *ssExp {
	x := &ssExp{Sst: map[string][]string{}, Queue: map[string][][]int{}, Sock: map[string][][]int{}, Flag: map[string]int{}, Pend: map[string][]int{}}
	for side, name := range []string{"A", "B"} {
		s := w.sess(side)
		for _, st := range w.streams {
			x.Sst[name] = append(x.Sst[name], ssState(st.obj[side]))
			unread := 0
			if o := st.obj[side]; o != nil && streamState(o.getStreamState()) != streamClosed {
				unread = o.recvBuf.len + ssPendingBytes(o)
			}
			x.Pend[name] = append(x.Pend[name], (unread+ssMsgLen-1)/ssMsgLen)
		}
		q := s.queueManager.sendQueue
		x.Queue[name] = [][]int{}
		for i := *q.head; i < *q.tail; i++ {
			off := (i % q.cap) * queueElementLen
			id := *(*uint32)(unsafe.Pointer(&q.queueBytesOnMemory[off]))
			status := *(*uint32)(unsafe.Pointer(&q.queueBytesOnMemory[off+8]))
			kind := 0
			if streamState(status&0xff) == streamClosed {
				kind = 1
			}
			x.Queue[name] = append(x.Queue[name], []int{w.idxOf(id), kind})
		}
		x.Flag[name] = int(*q.workingFlag)
		x.Sock[name] = [][]int{}
		c := w.conn(side)
		c.mu.Lock()
		for _, ch := range c.chunks {
			if len(ch) < headerSize {
				x.Sock[name] = append(x.Sock[name], []int{0, 0})
				continue
			}
			switch header(ch).MsgType() {
			case typePolling:
				x.Sock[name] = append(x.Sock[name], []int{1, 0})
			case typeFallbackData:
				x.Sock[name] = append(x.Sock[name], []int{2, w.idxOf(binary.BigEndian.Uint32(ch[8:12]))})
			case typeStreamClose:
				x.Sock[name] = append(x.Sock[name], []int{3, w.idxOf(binary.BigEndian.Uint32(ch[8:12]))})
			default:
				x.Sock[name] = append(x.Sock[name], []int{int(header(ch).MsgType()) + 10, 0})
			}
		}
		c.mu.Unlock()
	}
	x.Inuse = (w.pair.inUse(w.pair.A) - len(w.held) + ssSlicesPerMsg() - 1) / ssSlicesPerMsg()
	x.Err = w.lastErr
	return x
}

func ssPendingBytes(s *Stream) int {
	n := 0
	s.pendingData.Lock()
	for _, wr := range s.pendingData.unread {
		if wr.fallbackSlice != nil {
			n += wr.fallbackSlice.size()
			continue
		}
		for off := wr.offset; ; {
			sl, err := s.session.bufferManager.readBufferSlice(off)
			if err != nil {
				break
			}
			n += sl.size()
			hn, next := sl.hasNext(), sl.nextBufferOffset()
			putBackBufferSlice(sl)
			if !hn {
				break
			}
			off = next
		}
	}
	s.pendingData.Unlock()
	return n
}

func ssDiff(a, b *ssExp) string {
	// lastErr is not part of the VIEW of the model: API results are checked per action in do()
	ja, _ := json.Marshal(map[string]interface{}{"sst": a.Sst, "queue": a.Queue, "sock": a.Sock, "flag": a.Flag, "pend": a.Pend, "inuse": a.Inuse})
	jb, _ := json.Marshal(map[string]interface{}{"sst": b.Sst, "queue": b.Queue, "sock": b.Sock, "flag": b.Flag, "pend": b.Pend, "inuse": b.Inuse})
	if string(ja) == string(jb) {
		return ""
	}
	return fmt.Sprintf("real %s spec %s", ja, jb)
}

func ssErrName(err error) string {
	switch err {
	case nil:
		return "ok"
	case ErrStreamClosed:
		return "ErrStreamClosed"
	case ErrQueueFull:
		return "ErrQueueFull"
	case ErrEndOfStream:
		return "ErrEndOfStream"
	case ErrTimeout:
		return "ErrTimeout"
	}
	return err.Error()
}

// classify replicates the spec's KfStep on the real observations (before/after one step)
func (w *ssWorld) classify(before, after *ssExp) {
	if w.kf != "" {
		return
	}
	for _, e := range []string{"A", "B"} {
		qb, qa := before.Queue[e], after.Queue[e]
		if len(qa) == len(qb)+1 && qa[len(qa)-1][1] == 1 {
			for _, ev := range before.Sock[e] {
				if ev[0] == 2 && ev[1] == qa[len(qa)-1][0] {
					w.kf = "close-via-queue-after-fallback"
					return
				}
			}
		}
		sb, sa := before.Sock[e], after.Sock[e]
		if len(sa) == len(sb)+1 && (sa[len(sa)-1][0] == 2 || sa[len(sa)-1][0] == 3) {
			hasData, hasPoll := false, false
			for _, el := range qb {
				if el[0] == sa[len(sa)-1][1] && el[1] == 0 {
					hasData = true
				}
			}
			for _, ev := range sb {
				if ev[0] == 1 {
					hasPoll = true
				}
			}
			if hasData && !hasPoll {
				w.kf = "socket-before-poll"
				return
			}
		}
	}
}

// runs thread t until it parks at the next spec-visible point (the flag CAS = "cas", the event write = "send") or ends
func (w *ssWorld) advance(t *ssThr) {
	for {
		_, now := vsStep(t.th)
		if now == "idle" || now == "done" {
			t.busy = false
			return
		}
		if strings.HasPrefix(now, "queue.markWorking:CompareAndSwapUint32") || strings.HasPrefix(now, "Session.wakeUpPeer:CompareAndSwapUint32") {
			return
		}
		// other scheduling points of wakeUpPeer (clearing `writing`) are passed through: never park holding `writing`
	}
}

func (w *ssWorld) pcOf(t *ssThr) string {
	switch {
	case t.th.pos == "idle":
		return "idle"
	case strings.HasPrefix(t.th.pos, "queue.markWorking"):
		return "cas"
	case strings.HasPrefix(t.th.pos, "Session.wakeUpPeer"):
		return "send"
	}
	return t.th.pos
}

// ssMsgLen: bytes per message. 3 fits one 4-byte buffer; 9 makes every message a chain of three buffers.
var ssMsgLen = 3

func ssSlicesPerMsg() int { return (ssMsgLen + 3) / 4 }

func ssFill(m, i int) byte { return byte(m*7 + i*13 + 1) }

func ssPayload(streamIdx, side, m int) []byte {
	b := []byte{byte(streamIdx), byte(0xA0 + side), byte(m)}
	for i := 3; i < ssMsgLen; i++ {
		b = append(b, ssFill(m, i))
	}
	return b
}

// do executes one spec action on the real pair. Returns false if the action was not applicable (structural drift).
func (w *ssWorld) do(st ssStep) bool {
	w.lastErr = "none"
	side := ssSideIdx(st.Side)
	var s *ssStream
	if st.S >= 1 && st.S <= len(w.streams) {
		s = w.streams[st.S-1]
	}
	switch st.Act {
	case "Exhaust":
		if !w.exh {
			w.held = w.pair.hog(0)
			w.exh = true
		} else {
			w.pair.unhog(w.held)
			w.held = nil
			w.exh = false
		}
		return true
	case "Open":
		o, err := w.pair.A.OpenStream()
		if err != nil {
			w.fail("C10", "open", err.Error())
			return true
		}
		s.obj[0] = o
		s.realID = o.id
		w.lastErr = "ok"
		return true
	case "FlushClosed", "FlushFallback", "FlushPut", "FlushFull":
		o := s.obj[side]
		t := s.thr[side]
		if o == nil || t.th.pos != "idle" {
			return false
		}
		if w.exh {
			// "exhausted" is a state of the environment: buffers freed meanwhile are taken away again
			w.held = append(w.held, w.pair.hog(0)...)
		}
		s.nmsg[side]++
		m := s.nmsg[side]
		t.busy = true
		t.err = nil
		t.next = func() {
			if _, err := o.BufferWriter().WriteBytes(ssPayload(st.S, side, m)); err != nil {
				t.err = err
				return
			}
			t.err = o.Flush(false)
		}
		w.advance(t)
		if t.busy {
			// parked inside wakeUpPeer: the element is on the queue, Flush can only return nil from here
			w.lastErr = "ok"
			s.ok[side] = append(s.ok[side], m)
		} else {
			w.lastErr = ssErrName(t.err)
			if t.err == nil {
				s.ok[side] = append(s.ok[side], m)
			}
		}
		switch st.Act {
		case "FlushClosed":
			// C10: after a close (local, or learnt from the peer) a flush fails with the closed-stream error
			if w.lastErr != "ErrStreamClosed" {
				w.fail("C10", "flush-after-close", fmt.Sprintf("Flush on stream %d at end %s in state %s returned %s", st.S, st.Side, ssState(o), w.lastErr))
			}
		case "FlushFull":
			if w.lastErr != "ErrQueueFull" {
				w.apiDrift = fmt.Sprintf("Flush with a full queue returned %s", w.lastErr)
			}
		default:
			if w.lastErr != "ok" {
				w.apiDrift = fmt.Sprintf("%s returned %s", st.Act, w.lastErr)
			}
		}
		return true
	case "WCas", "WSend":
		t := s.thr[side]
		if t.th.pos == "idle" {
			return false
		}
		w.advance(t)
		return true
	case "Close", "CloseAgain":
		o := s.obj[side]
		t := s.thr[side]
		if o == nil || t.th.pos != "idle" {
			return false
		}
		t.busy = true
		t.next = func() { t.err = o.Close() }
		w.advance(t)
		s.closedL[side] = true
		w.lastErr = "ok"
		if !t.busy && t.err != nil {
			w.lastErr = ssErrName(t.err)
		}
		return true
	case "Deliver":
		to := w.sess(side)
		from := w.conn(1 - side)
		from.mu.Lock()
		if len(from.chunks) == 0 {
			from.mu.Unlock()
			return false
		}
		ch := from.chunks[0]
		from.chunks = from.chunks[1:]
		from.mu.Unlock()
		if !to.IsClosed() {
			consumed, err := w.pair.feed(to, ch)
			if err != nil || consumed != len(ch) {
				w.fail("C07", "event", fmt.Sprintf("handleEvents consumed %d of %d: %v", consumed, len(ch), err))
			}
		}
		w.refreshB()
		return true
	case "Read":
		o := s.obj[side]
		if o == nil {
			return false
		}
		n := o.BufferReader().Len()
		if n == 0 {
			// trees without the Len() repair: move what is pending
			o.pendingData.moveTo(o.recvBuf)
			n = o.BufferReader().Len()
		}
		if n == 0 {
			return false
		}
		b, err := o.BufferReader().ReadBytes(n)
		if err != nil || len(b) != n || n%ssMsgLen != 0 {
			w.fail("C07", "read", fmt.Sprintf("ReadBytes(%d) on stream %d side %s: len %d err %v", n, st.S, st.Side, len(b), err))
			return true
		}
		for i := 0; i+ssMsgLen <= n; i += ssMsgLen {
			for k := 3; k < ssMsgLen; k++ {
				if b[i+k] != ssFill(int(b[i+2]), k) && int(b[i]) == st.S && int(b[i+1]) == 0xA0+(1-side) {
					w.fail("C07", "content", fmt.Sprintf("reader of stream %d at end %s: byte %d of message %d is %#x, the writer put %#x", st.S, st.Side, k, b[i+2], b[i+k], ssFill(int(b[i+2]), k)))
					return true
				}
			}
			if int(b[i]) != st.S || int(b[i+1]) != 0xA0+(1-side) {
				w.fail("C07", "isolation", fmt.Sprintf("reader of stream %d at end %s received bytes %v written to stream %d by end-code %x", st.S, st.Side, b[i:i+3], b[i], b[i+1]))
				return true
			}
			s.got[side] = append(s.got[side], int(b[i+2]))
		}
		o.BufferReader().ReleasePreviousRead()
		w.checkOrder(s, side, st.S)
		w.lastErr = "ok"
		return true
	case "ReadEnd":
		o := s.obj[side]
		if o == nil {
			return false
		}
		if o.recvBuf.len+ssPendingBytes(o) > 0 || ssState(o) == "open" {
			// the spec has nothing pending here and the stream ended; the real stream differs (structural drift)
			return false
		}
		o.SetReadDeadline(time.Now().Add(300 * time.Millisecond))
		_, err := o.BufferReader().ReadBytes(1)
		o.SetReadDeadline(time.Time{})
		w.lastErr = ssErrName(err)
		if err == ErrEndOfStream {
			s.eos[side] = true
			w.res.EosChecks++
			// C07: told about the end only after having been offered everything the peer flushed successfully
			peerOK := s.ok[1-side]
			if len(s.got[side]) != len(peerOK) {
				w.failKf("C07", "close-overtakes-data", fmt.Sprintf("reader of stream %d at end %s got end-of-stream after %d message(s) %v, but the peer had flushed %v successfully before closing", st.S, st.Side, len(s.got[side]), s.got[side], peerOK))
			}
		} else if err == nil {
			w.fail("C07", "read", "ReadBytes(1) returned data although nothing was pending in the spec")
		}
		return true
	}
	return false
}

func (w *ssWorld) failKf(prop, kind, detail string) {
	// executions in a listed known-finding class are not reported (their witnesses are replayed separately)
	if w.kf != "" {
		w.res.KnownHits[w.kf]++
		if w.res.KnownWit[w.kf] == "" {
			w.res.KnownWit[w.kf] = detail
		}
		if w.known[w.kf] {
			return
		}
	}
	w.fail(prop, kind, detail)
}

func (w *ssWorld) checkOrder(s *ssStream, side, idx int) {
	ok := s.ok[1-side]
	g := s.got[side]
	bad := len(g) > len(ok)
	for i := 0; !bad && i < len(g); i++ {
		if g[i] != ok[i] {
			bad = true
		}
	}
	if bad {
		w.failKf("C07", "order", fmt.Sprintf("reader of stream %d at end %d was offered messages %v, the peer flushed %v", idx, side, g, ok))
	}
}

// finish: complete parked writers, deliver everything, close every stream on both ends, check the end-state oracles.
func (w *ssWorld) finish() {
	deliverAll := func() {
		for i := 0; i < 200; i++ {
			moved := false
			for _, st := range w.streams {
				for _, t := range st.thr {
					if t.th.pos != "idle" && !t.th.done {
						w.advance(t)
						moved = true
					}
				}
			}
			for side := 0; side < 2; side++ {
				for w.conn(1-side).pending() > 0 {
					w.do(ssStep{Act: "Deliver", Side: []string{"A", "B"}[side]})
					moved = true
				}
			}
			if !moved {
				return
			}
		}
	}
	deliverAll()
	if w.viol != nil {
		return
	}
	// C10 PeerLearns: an end closed locally and everything in flight handled => the peer's end is not open
	for i, st := range w.streams {
		for side := 0; side < 2; side++ {
			if st.closedL[side] && st.obj[1-side] != nil && ssState(st.obj[1-side]) == "open" {
				w.failKf("C10", "peer-not-told", fmt.Sprintf("stream %d was closed at end %d and the session is settled, but the peer's end is still open", i+1, side))
			}
			// C10: after a local close every call fails with the closed-stream error and the stream is not active
			if st.closedL[side] && st.obj[side] != nil {
				o := st.obj[side]
				if _, err := o.BufferWriter().WriteBytes([]byte{1}); err == nil {
					if err := o.Flush(false); err != ErrStreamClosed {
						w.fail("C10", "closed-not-final", fmt.Sprintf("Flush on locally closed stream %d returned %v", i+1, err))
					}
				}
				o.SetReadDeadline(time.Now().Add(200 * time.Millisecond))
				if _, err := o.BufferReader().ReadBytes(1); err != ErrStreamClosed && err != ErrEndOfStream {
					w.fail("C10", "closed-not-final", fmt.Sprintf("ReadBytes on locally closed stream %d returned %v", i+1, err))
				}
				if w.sess(side).getStreamById(o.id) == o {
					w.fail("C10", "closed-still-active", fmt.Sprintf("locally closed stream %d still counts as active", i+1))
				}
			}
		}
	}
	// close everything that is left, on both ends
	for _, st := range w.streams {
		for side := 0; side < 2; side++ {
			if st.obj[side] != nil && !st.closedL[side] {
				w.do(ssStep{Act: "Close", Side: []string{"A", "B"}[side], S: w.idx(st)})
			}
		}
	}
	// streams the server surfaced that the spec does not know about (re-created under an old id)
	for _, ns := range w.pair.newStreamsB {
		if ssState(ns) != "closed" {
			known := false
			for _, st := range w.streams {
				if st.obj[1] == ns {
					known = true
				}
			}
			if !known {
				ns.Close()
			}
		}
	}
	deliverAll()
	if w.exh {
		w.pair.unhog(w.held)
		w.held = nil
		w.exh = false
	}
	w.res.EndChecks++
	// C09: everything closed on both ends and the session settled => no shared-memory buffer remains allocated
	if used := w.pair.inUse(w.pair.A); used != 0 {
		w.failKf("C09", "leak", fmt.Sprintf("every stream is closed on both ends and the session is settled, but %d buffer(s) are still allocated", used))
	}
	for side := 0; side < 2; side++ {
		if n := w.sess(side).GetActiveStreamCount(); n != 0 {
			w.failKf("C10", "active-count", fmt.Sprintf("every stream is closed but end %d still counts %d active stream(s)", side, n))
		}
	}
}

func (w *ssWorld) idx(s *ssStream) int {
	for i, x := range w.streams {
		if x == s {
			return i + 1
		}
	}
	return 0
}

func TestVS_Session(t *testing.T) {
	var job ssJob
	b, err := os.ReadFile(os.Getenv("VS_IN_JOB"))
	if err != nil {
		t.Skip("no job")
	}
	ssMsgLen = 3
	if err := json.Unmarshal(b, &job); err != nil {
		t.Fatal(err)
	}
	if job.MsgLen > 3 {
		ssMsgLen = job.MsgLen
	}
	res := &ssResult{Violations: []ssViolation{}, Drift: []string{}, Samples: []string{}, KnownHits: map[string]int{}, KnownWit: map[string]string{}}
	defer func() {
		out, _ := json.Marshal(res)
		os.WriteFile(os.Getenv("VS_OUT"), out, 0o644)
	}()
	var pair *vpPair
	mkPair := func() {
		if pair != nil {
			pair.destroy()
		}
		var err error
		pair, err = vpNewPair(vpConfig{Sizes: []uint32{4}, Percents: []uint32{100}, MemSize: 2048, QueueCap: uint32(job.QCap)})
		if err != nil {
			t.Fatal(err)
		}
	}
	mkPair()
	defer func() { pair.destroy() }()

	runOne := func(name string, steps []ssStep, nstreams int) {
		w := ssNewWorld(pair, nstreams, job.QCap, job.Known, res)
		drift := false
		func() {
			defer func() {
				if r := recover(); r != nil {
					w.fail("C07", "panic", fmt.Sprint(r))
				}
			}()
			for i, st := range steps {
				before := w.project()
				applicable := w.do(st)
				res.Steps++
				if !applicable {
					res.Skipped++
					if !drift {
						drift = true
						res.DriftCount++
						if len(res.Drift) < 5 {
							res.Drift = append(res.Drift, fmt.Sprintf("%s step %d %s(%s,%d): not applicable on the real state", name, i, st.Act, st.Side, st.S))
						}
					}
					continue
				}
				after := w.project()
				w.syncDropped(after)
				if os.Getenv("VS_DEBUG") != "" {
					ja, _ := json.Marshal(after)
					fmt.Printf("DBG %d %s(%s,%d) -> %s\n", i, st.Act, st.Side, st.S, ja)
				}
				w.classify(before, after)
				if w.viol != nil {
					break
				}
				if st.Exp != nil && !drift {
					d := ssDiff(after, st.Exp)
					if d == "" && w.apiDrift != "" {
						d = w.apiDrift
					}
					w.apiDrift = ""
					if d != "" {
						drift = true
						res.DriftCount++
						if res.DriftFirst == nil {
							res.DriftFirst = steps[:i+1]
						}
						if len(res.Drift) < 5 {
							res.Drift = append(res.Drift, fmt.Sprintf("%s step %d %s(%s,%d): %s", name, i, st.Act, st.Side, st.S, d))
						}
					}
				}
			}
			if w.viol == nil {
				w.finish()
			}
		}()
		if w.viol != nil {
			w.viol.Schedule = name
			w.viol.Steps = steps
			res.Violations = append(res.Violations, *w.viol)
		}
		res.Replayed++
		if !drift {
			res.Conforming++
		}
		bad := w.viol != nil
		w.closeWorld()
		if bad {
			mkPair()
		}
	}
	for _, sc := range job.Schedules {
		n := job.NStreams
		if sc.NStreams > 0 {
			n = sc.NStreams
		}
		saved := job.Known
		if sc.Raw {
			job.Known = nil
		}
		runOne(sc.Name, sc.Steps, n)
		job.Known = saved
		if len(res.Violations) >= 12 {
			return
		}
	}
	if job.Staged && len(res.Violations) == 0 {
		ssStaged(t, job.QCap, res)
		ssStagedCorrupt(t, job.QCap, res)
		ssStagedBacklog(t, res)
	}
	// seeded random histories: any applicable action, more streams, no spec expectation (oracles only)
	rng := rand.New(rand.NewSource(job.Random.Seed))
	acts := []string{"Open", "FlushPut", "FlushPut", "WCas", "WSend", "Close", "Deliver", "Deliver", "Read", "ReadEnd", "Exhaust"}
	for run := 0; run < job.Random.N; run++ {
		var steps []ssStep
		for i := 0; i < job.Random.Steps; i++ {
			steps = append(steps, ssStep{Act: acts[rng.Intn(len(acts))], Side: []string{"A", "B"}[rng.Intn(2)], S: 1 + rng.Intn(job.Random.Streams)})
		}
		before := len(res.Violations)
		runRandom(pair, &job, res, steps)
		res.RandomRuns++
		res.RandomSteps += len(steps)
		if len(res.Violations) > before {
			res.Violations[len(res.Violations)-1].Schedule = fmt.Sprintf("random seed=%d run=%d", job.Random.Seed, run)
			mkPair()
		}
		if len(res.Violations) >= 4 {
			return
		}
	}
}

// runRandom executes whatever of the random steps is applicable (a step that is not applicable is skipped).
func runRandom(pair *vpPair, job *ssJob, res *ssResult, steps []ssStep) {
	w := ssNewWorld(pair, job.Random.Streams, job.QCap, job.Known, res)
	var done []ssStep
	func() {
		defer func() {
			if r := recover(); r != nil {
				w.fail("C07", "panic", fmt.Sprint(r))
			}
		}()
		for _, st := range steps {
			s := w.streams[st.S-1]
			side := ssSideIdx(st.Side)
			// applicability guards that the replay gets from the spec
			switch st.Act {
			case "Open":
				if st.Side != "A" || s.obj[0] != nil {
					continue
				}
			case "FlushPut":
				if s.obj[side] == nil || s.thr[side].th.pos != "idle" || s.nmsg[side] >= 4 {
					continue
				}
			case "Close":
				if s.obj[side] == nil || s.thr[side].th.pos != "idle" {
					continue
				}
			case "Read":
				if s.obj[side] == nil || ssState(s.obj[side]) == "closed" {
					continue
				}
			case "ReadEnd":
				if s.obj[side] == nil || ssState(s.obj[side]) == "open" || s.obj[side].recvBuf.len+ssPendingBytes(s.obj[side]) > 0 {
					continue
				}
			case "Exhaust":
				if st.S != 1 || st.Side != "A" {
					continue
				}
			}
			before := w.project()
			if !w.do(st) {
				continue
			}
			done = append(done, st)
			after := w.project()
			w.syncDropped(after)
			w.classify(before, after)
			if w.viol != nil {
				break
			}
		}
		if w.viol == nil {
			w.finish()
		}
	}()
	if w.viol != nil {
		w.viol.Steps = done
		res.Violations = append(res.Violations, *w.viol)
	}
	if len(res.Samples) < 3 {
		var sb strings.Builder
		for _, st := range done {
			fmt.Fprintf(&sb, "%s(%s,%d) ", st.Act, st.Side, st.S)
		}
		res.Samples = append(res.Samples, sb.String())
	}
	w.closeWorld()
}


// ssStaged: error exits of Flush that need a second party to act WHILE Flush waits in its queue-full retry loop (real
// goroutines, real timers): every one of them must give the message's buffer back (C09) and return (C11).
func ssStaged(t *testing.T, qcap int, res *ssResult) {
	type scen struct {
		name string
		act  func(p *vpPair, sA, sB *Stream)
		want error
	}
	scens := []scen{
		{"flush-retry/peer-close", func(p *vpPair, sA, sB *Stream) {
			sB.Close()
			time.Sleep(25 * time.Millisecond)
			p.deliver(p.A) // the peer's close reaches the stream whose Flush is waiting
		}, ErrStreamClosed},
		{"flush-retry/write-deadline", nil, ErrTimeout},
		{"flush-retry/queue-stays-full", func(p *vpPair, sA, sB *Stream) {}, ErrQueueFull},
		// the consumer handles the one notification in flight, drains the full queue and goes idle while the Flush is
		// between two attempts: the retried put succeeds and must be followed by a wake-up of its own (C05)
		{"flush-retry/consumer-drains-and-idles", func(p *vpPair, sA, sB *Stream) {
			p.deliver(p.B)
		}, nil},
	}
	for _, sc := range scens {
		pair, err := vpNewPair(vpConfig{Sizes: []uint32{4}, Percents: []uint32{100}, MemSize: 2048, QueueCap: uint32(qcap)})
		if err != nil {
			t.Fatal(err)
		}
		func() {
			defer pair.destroy()
			vsReset(vsOff)
			pair.newStreamsB = nil
			sA, _ := pair.A.OpenStream()
			sA.BufferWriter().WriteBytes([]byte{1, 2, 3})
			sA.Flush(false)
			pair.settle()
			if len(pair.newStreamsB) == 0 {
				res.Staged = append(res.Staged, sc.name+": setup failed")
				return
			}
			sB := pair.newStreamsB[0]
			if b, err := sB.BufferReader().ReadBytes(3); err == nil && len(b) == 3 {
				sB.BufferReader().ReleasePreviousRead()
			}
			// fill A's queue: the peer does not drain
			for i := 0; i < qcap; i++ {
				sA.BufferWriter().WriteBytes([]byte{1, 2, byte(10 + i)})
				if err := sA.Flush(false); err != nil {
					res.Staged = append(res.Staged, fmt.Sprintf("%s: fill %d: %v", sc.name, i, err))
					return
				}
			}
			if sc.want == ErrTimeout {
				sA.SetWriteDeadline(time.Now().Add(30 * time.Millisecond))
			}
			done := make(chan error, 1)
			go func() {
				sA.BufferWriter().WriteBytes([]byte{1, 2, 99})
				done <- sA.Flush(false)
			}()
			time.Sleep(15 * time.Millisecond) // Flush is now inside its retry loop (queue full)
			if sc.act != nil {
				sc.act(pair, sA, sB)
			}
			var ferr error
			select {
			case ferr = <-done:
			case <-time.After(10 * time.Second):
				res.Violations = append(res.Violations, ssViolation{Property: "C11", Kind: "flush-hangs", Detail: sc.name + ": Flush did not return within 10 s", Schedule: "staged " + sc.name, QCap: qcap, NStreams: 1})
				return
			}
			if ferr != sc.want {
				// not a property of C09: the error class may legitimately differ under timing; record only
				res.Staged = append(res.Staged, fmt.Sprintf("%s: Flush returned %v (staging expected %v)", sc.name, ferr, sc.want))
			}
			// finish: everything delivered, both ends closed, then the ledger must be empty
			sA.SetWriteDeadline(time.Time{})
			pair.settle()
			if sc.want == nil && ferr == nil {
				// C05: every notification has been delivered and handled, the producer is done: the queue must be empty
				q := pair.A.queueManager.sendQueue
				if n := q.size(); n != 0 {
					res.Violations = append(res.Violations, ssViolation{Property: "C05", Kind: "stranded", Detail: fmt.Sprintf("%s: the Flush that found the queue full succeeded on a retry after the consumer had drained the queue and gone idle; every notification has been handled and %d element(s) are left in the queue (working flag %d)", sc.name, n, *q.workingFlag), Schedule: "staged " + sc.name, QCap: qcap, NStreams: 1})
					return
				}
			}
			sA.Close()
			sB.Close()
			for _, ns := range pair.newStreamsB {
				ns.Close()
			}
			pair.settle()
			if used := pair.inUse(pair.A); used != 0 {
				res.Violations = append(res.Violations, ssViolation{Property: "C09", Kind: "leak", Detail: fmt.Sprintf("%s: Flush returned %v while waiting in its queue-full retry loop; after both ends closed and the session settled %d buffer(s) are still allocated", sc.name, ferr, used), Schedule: "staged " + sc.name, QCap: qcap, NStreams: 1})
				return
			}
			res.Staged = append(res.Staged, fmt.Sprintf("%s: Flush returned %v, all buffers back", sc.name, ferr))
		}()
	}
}

// ssStagedCorrupt: fault "the peer publishes a queue element whose buffer offset is not a buffer" (a protocol bug or a
// scribbled queue) behind a good message of the same stream. The library logs and skips the element; whatever it does
// with it, it may not recycle a buffer twice (C09: the ledger is exact, free lists intact) nor hand out or alter a buffer
// somebody else holds (C01), and the reader is offered exactly the good messages (C07). Sequence: good message + corrupt
// element delivered together; the reader takes and releases the good message; another holder takes every free buffer
// and fills it; a later message (socket fallback: memory is exhausted) makes the reader drain pending data again; both
// ends close.
func ssStagedCorrupt(t *testing.T, qcap int, res *ssResult) {
	if qcap < 2 {
		return
	}
	name := "corrupt-offset/behind-good-message"
	viol := func(prop, kind, detail string) {
		res.Violations = append(res.Violations, ssViolation{Property: prop, Kind: kind, Detail: name + ": " + detail, Schedule: "staged " + name, QCap: qcap, NStreams: 1})
	}
	pair, err := vpNewPair(vpConfig{Sizes: []uint32{4}, Percents: []uint32{100}, MemSize: 2048, QueueCap: uint32(qcap)})
	if err != nil {
		t.Fatal(err)
	}
	defer pair.destroy()
	vsReset(vsOff)
	pair.newStreamsB = nil
	sA, _ := pair.A.OpenStream()
	sA.BufferWriter().WriteBytes([]byte{1, 2, 3})
	sA.Flush(false)
	pair.settle()
	if len(pair.newStreamsB) == 0 {
		res.Staged = append(res.Staged, name+": setup failed")
		return
	}
	sB := pair.newStreamsB[0]
	read3 := func(step string, want []byte) bool {
		b, err := sB.BufferReader().ReadBytes(3)
		if err != nil || len(b) != 3 || b[0] != want[0] || b[1] != want[1] || b[2] != want[2] {
			viol("C07", "wrong-data", fmt.Sprintf("%s: the reader expected % x and got % x, %v", step, want, b, err))
			return false
		}
		sB.BufferReader().ReleasePreviousRead()
		return true
	}
	if !read3("first message", []byte{1, 2, 3}) {
		return
	}
	base := pair.inUse(pair.A)
	// good message, then the corrupt element of the same stream, one notification for both
	sA.BufferWriter().WriteBytes([]byte{4, 5, 6})
	if err := sA.Flush(false); err != nil {
		res.Staged = append(res.Staged, fmt.Sprintf("%s: flush: %v", name, err))
		return
	}
	if err := pair.A.queueManager.sendQueue.put(queueElement{seqID: sA.id, offsetInShmBuf: 1 << 30, status: uint32(streamOpened)}); err != nil {
		res.Staged = append(res.Staged, fmt.Sprintf("%s: cannot inject: %v", name, err))
		return
	}
	pair.settle()
	if pair.B.IsClosed() || pair.A.IsClosed() {
		// the library may also answer a protocol fault by shutting the session down; then only the ledger is judged
		res.Staged = append(res.Staged, name+": the session was shut down on the corrupt element")
	} else {
		if !read3("good message in front of the corrupt element", []byte{4, 5, 6}) {
			return
		}
		if used := pair.inUse(pair.A); used != base {
			viol("C09", "leak", fmt.Sprintf("the good message was read and released, %d buffer(s) are allocated (before the message: %d)", used, base))
			return
		}
		// another holder takes every allocatable buffer and fills it
		held := pair.hog(0)
		for i, h := range held {
			copy(h.data[:cap(h.data)][:4], []byte{0xA0, byte(i), 0xA1, byte(i)})
		}
		hdr := make([][]byte, len(held))
		for i, h := range held {
			hdr[i] = append([]byte(nil), h.bufferHeader[:bufferHeaderSize]...)
		}
		// next message: memory is exhausted, it travels on the socket; the reader drains pending data once more
		sA.BufferWriter().WriteBytes([]byte{7, 8, 9})
		ferr := sA.Flush(false)
		pair.settle()
		if ferr == nil && !read3("message after the corrupt element", []byte{7, 8, 9}) {
			return
		}
		sA.Close()
		sB.Close()
		for _, ns := range pair.newStreamsB {
			ns.Close()
		}
		pair.settle()
		if d := pair.integrity(); d != "" {
			viol("C09", "free-list-corrupt", "after both ends closed, while another holder keeps "+fmt.Sprint(len(held))+" buffers: "+d)
			return
		}
		if used := pair.inUse(pair.A); used != base+len(held) {
			viol("C09", "ledger", fmt.Sprintf("after both ends closed %d buffer(s) count as allocated, the other holder keeps %d (+%d before the scenario): a buffer was recycled by somebody who did not hold it", used, len(held), base))
			return
		}
		for i, h := range held {
			d := h.data[:cap(h.data)][:4]
			if d[0] != 0xA0 || d[1] != byte(i) || d[2] != 0xA1 || d[3] != byte(i) || string(h.bufferHeader[:bufferHeaderSize]) != string(hdr[i]) {
				viol("C09", "foreign-write", fmt.Sprintf("buffer at offset %d is held by somebody else and its header/payload was altered (payload % x, header % x -> % x)", h.offsetInShm, d, hdr[i], []byte(h.bufferHeader[:bufferHeaderSize])))
				return
			}
		}
		pair.unhog(held)
	}
	if !pair.A.IsClosed() && !pair.B.IsClosed() {
		if used := pair.inUse(pair.A); used != 0 {
			viol("C09", "leak", fmt.Sprintf("everything closed and given back, %d buffer(s) still allocated", used))
			return
		}
		if d := pair.integrity(); d != "" {
			viol("C09", "free-list-corrupt", d)
			return
		}
	}
	res.Staged = append(res.Staged, name+": reader got exactly the good messages, ledger exact, free lists intact, foreign buffers untouched")
}

// ssStagedBacklog: magnitudes the small TLC constants do not reach. One polling round consumes a backlog of N elements
// (N up to 8100 with the default-sized queue of 8192: the consumer was held up while the producer kept flushing), the
// consumer goes idle, the producer enqueues once more: the element must be notified and consumed (C05), every message
// arrives in order (C04/C07), every buffer comes back (C09).
func ssStagedBacklog(t *testing.T, res *ssResult) {
	for _, n := range []int{300, 5000, 8100} {
		name := fmt.Sprintf("backlog/%d-elements-in-one-polling-round", n)
		viol := func(prop, kind, detail string) {
			res.Violations = append(res.Violations, ssViolation{Property: prop, Kind: kind, Detail: name + ": " + detail, Schedule: "staged " + name, QCap: 8192, NStreams: 1})
		}
		pair, err := vpNewPair(vpConfig{Sizes: []uint32{4}, Percents: []uint32{100}, MemSize: 4096 + (n+64)*(4+bufferHeaderSize), QueueCap: 8192})
		if err != nil {
			t.Fatal(err)
		}
		ok := func() bool {
			defer pair.destroy()
			vsReset(vsOff)
			pair.newStreamsB = nil
			sA, _ := pair.A.OpenStream()
			sA.BufferWriter().WriteBytes([]byte{1, 2, 3})
			sA.Flush(false)
			pair.settle()
			if len(pair.newStreamsB) == 0 {
				res.Staged = append(res.Staged, name+": setup failed")
				return true
			}
			sB := pair.newStreamsB[0]
			read3 := func(step string, want []byte) bool {
				b, err := sB.BufferReader().ReadBytes(3)
				if err != nil || len(b) != 3 || b[0] != want[0] || b[1] != want[1] || b[2] != want[2] {
					viol("C07", "wrong-data", fmt.Sprintf("%s: the reader expected % x and got % x, %v", step, want, b, err))
					return false
				}
				sB.BufferReader().ReleasePreviousRead()
				return true
			}
			if !read3("first message", []byte{1, 2, 3}) {
				return false
			}
			for i := 0; i < n; i++ {
				sA.BufferWriter().WriteBytes([]byte{byte(i), byte(i >> 8), 0x5a})
				if err := sA.Flush(false); err != nil {
					res.Staged = append(res.Staged, fmt.Sprintf("%s: flush %d: %v", name, i, err))
					return true
				}
			}
			pair.settle() // one notification was written for the whole backlog: one polling round consumes it
			for i := 0; i < n; i++ {
				if !read3(fmt.Sprintf("message %d of the backlog", i), []byte{byte(i), byte(i >> 8), 0x5a}) {
					return false
				}
			}
			// the consumer is idle now; one more element
			sA.BufferWriter().WriteBytes([]byte{7, 7, 7})
			if err := sA.Flush(false); err != nil {
				res.Staged = append(res.Staged, fmt.Sprintf("%s: last flush: %v", name, err))
				return true
			}
			pair.settle()
			q := pair.A.queueManager.sendQueue
			if sz := q.size(); sz != 0 {
				viol("C05", "stranded", fmt.Sprintf("after a polling round that consumed %d elements the consumer went idle; the next Flush succeeded, every notification written has been handled, and %d element(s) are left in the queue (working flag %d, socket events pending %d)", n, sz, *q.workingFlag, pair.connA.pending()+pair.connB.pending()))
				return false
			}
			if !read3("message after the backlog", []byte{7, 7, 7}) {
				return false
			}
			sA.Close()
			sB.Close()
			pair.settle()
			if used := pair.inUse(pair.A); used != 0 {
				viol("C09", "leak", fmt.Sprintf("both ends closed and settled, %d buffer(s) still allocated", used))
				return false
			}
			return true
		}()
		if !ok {
			return
		}
		res.Staged = append(res.Staged, name+": all delivered in order, the element after the backlog was notified, all buffers back")
	}
}
