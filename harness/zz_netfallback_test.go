package shmipc

// C19 on the socket-fallback path (module NetListener's byte-stream oracle: what Read returns is the concatenation of what
// Write accepted, in order, exactly once): a conn whose stream has left shared memory because one Write was larger than
// the whole shared memory, or because shared memory was exhausted at that moment. Later Writes of that conn travel as
// fallback-data events on the unix socket. Histories: sequences of Writes of several sizes with the reader idle until k
// of them have arrived (k = 1, 2, all), in both directions, over the real Listen / Accept / net.Conn adapter.

import (
	"encoding/json"
	"fmt"
	"io"
	"net"
	"os"
	"testing"
	"time"
)

type nfJob struct {
	WaitMs int `json:"wait_ms"`
	Seed   int `json:"seed"`
}
type nfViolation struct {
	Scenario string `json:"scenario"`
	Kind     string `json:"kind"`
	Detail   string `json:"detail"`
}
type nfResult struct {
	Violations  []nfViolation `json:"violations"`
	Done        []string      `json:"done"`
	NotRealised []string      `json:"not_realised"`
	Bytes       int           `json:"bytes"`
}

func nfFill(w, i int) byte { return byte(w*37 + i*11 + i/251 + 1) }

func nfRun(res *nfResult, dir string, sizes []int, idleUntil int, wait time.Duration, seq int) {
	name := fmt.Sprintf("fallback-conn/%s/sizes=%v/reader-idle-until-%d-writes", dir, sizes, idleUntil)
	viol := func(kind, detail string) {
		res.Violations = append(res.Violations, nfViolation{Scenario: name, Kind: kind, Detail: detail})
	}
	addr := fmt.Sprintf("/tmp/vs_nf_%d_%d_%d.sock", os.Getpid(), time.Now().UnixNano(), seq)
	defer os.Remove(addr)
	ln, err := Listen(addr)
	if err != nil {
		res.NotRealised = append(res.NotRealised, name+": listen: "+err.Error())
		return
	}
	defer ln.Close()
	raw, err := net.Dial("unix", addr)
	if err != nil {
		res.NotRealised = append(res.NotRealised, name+": dial: "+err.Error())
		return
	}
	conf := DefaultConfig()
	conf.MemMapType = MemMapTypeMemFd
	conf.ShareMemoryBufferCap = 1 << 20
	conf.ShareMemoryPathPrefix = fmt.Sprintf("/dev/shm/vs_nf_%d_%d_%d", os.Getpid(), time.Now().UnixNano(), seq)
	conf.QueuePath = conf.ShareMemoryPathPrefix + "_queue"
	conf.LogOutput = io.Discard
	client, err := newSession(conf, raw, true)
	if err != nil {
		res.NotRealised = append(res.NotRealised, name+": session: "+err.Error())
		return
	}
	defer client.Close()
	stream, err := client.OpenStream()
	if err != nil {
		res.NotRealised = append(res.NotRealised, name+": open: "+err.Error())
		return
	}
	defer stream.Close()
	// larger than the whole shared memory: this stream uses the unix socket from now on
	big := make([]byte, 3<<20)
	for i := range big {
		big[i] = nfFill(0, i)
	}
	if n, err := stream.Write(big); err != nil || n != len(big) {
		res.NotRealised = append(res.NotRealised, fmt.Sprintf("%s: big write n=%d err=%v", name, n, err))
		return
	}
	type acc struct {
		c   net.Conn
		err error
	}
	ch := make(chan acc, 1)
	go func() { c, err := ln.Accept(); ch <- acc{c, err} }()
	var conn net.Conn
	select {
	case a := <-ch:
		if a.err != nil {
			res.NotRealised = append(res.NotRealised, name+": accept: "+a.err.Error())
			return
		}
		conn = a.c
	case <-time.After(wait):
		res.NotRealised = append(res.NotRealised, name+": accept timed out")
		return
	}
	defer conn.Close()
	conn.SetReadDeadline(time.Now().Add(wait))
	got := make([]byte, len(big))
	if _, err := io.ReadFull(conn, got); err != nil {
		viol("short", "the first (oversized) Write was accepted and cannot be read completely: "+err.Error())
		return
	}
	for i := range got {
		if got[i] != big[i] {
			viol("bytes", fmt.Sprintf("byte %d of the oversized Write reads %#x, written %#x", i, got[i], big[i]))
			return
		}
	}
	res.Bytes += len(big)
	var w io.Writer = stream
	var r net.Conn = conn
	if dir == "server-to-client" {
		w, r = conn, stream
	}
	r.SetReadDeadline(time.Now().Add(wait))
	var want []byte
	readUpTo := 0
	check := func() bool {
		buf := make([]byte, len(want)-readUpTo)
		if _, err := io.ReadFull(r, buf); err != nil {
			viol("short", fmt.Sprintf("%d bytes were accepted by Write, reading bytes %d..%d failed: %v", len(want), readUpTo, len(want), err))
			return false
		}
		for i := range buf {
			if buf[i] != want[readUpTo+i] {
				viol("bytes", fmt.Sprintf("stream position %d reads %#x, written %#x (Writes so far: %v, the reader was idle until %d of them had been made)", readUpTo+i, buf[i], want[readUpTo+i], sizes, idleUntil))
				return false
			}
		}
		res.Bytes += len(buf)
		readUpTo = len(want)
		return true
	}
	for wi, sz := range sizes {
		p := make([]byte, sz)
		for i := range p {
			p[i] = nfFill(wi+1, i)
		}
		n, err := w.Write(p)
		if err != nil || n != sz {
			res.NotRealised = append(res.NotRealised, fmt.Sprintf("%s: write %d n=%d err=%v", name, wi, n, err))
			return
		}
		want = append(want, p...)
		time.Sleep(60 * time.Millisecond) // the event has reached the other end's event loop
		if wi+1 >= idleUntil {
			if !check() {
				return
			}
		}
	}
	if readUpTo < len(want) && !check() {
		return
	}
	res.Done = append(res.Done, name)
}

func TestVS_NetFallback(t *testing.T) {
	var job nfJob
	b, err := os.ReadFile(os.Getenv("VS_IN_JOB"))
	if err != nil {
		t.Skip("no job")
	}
	if err := json.Unmarshal(b, &job); err != nil {
		t.Fatal(err)
	}
	res := &nfResult{Violations: []nfViolation{}, Done: []string{}, NotRealised: []string{}}
	write := func() {
		out, _ := json.Marshal(res)
		os.WriteFile(os.Getenv("VS_OUT"), out, 0o644)
	}
	defer write()
	wait := time.Duration(job.WaitMs) * time.Millisecond
	seq := 0
	for _, dir := range []string{"client-to-server", "server-to-client"} {
		for _, sizes := range [][]int{{2000, 2000}, {1, 3, 64}, {5000, 100, 9000, 7}} {
			for _, idle := range []int{1, 2, len(sizes)} {
				seq++
				nfRun(res, dir, sizes, idle, wait, seq)
				write()
			}
		}
	}
}
