package shmipc

// Real-mode variants of the Lifecycle step "the peer dies" that differ in what the KERNEL reports to the survivor
// (module Lifecycle / property C14): both ends are real sessions over real unix sockets and the real epoll loop; a
// byte-forwarding relay sits between them so that the "peer" can be made to stop reading its socket and can be severed
// independently of the peer session object (which shares the process and the dispatcher with the survivor).
//   clean          : the relay end is closed with nothing unread -> EPOLLIN|EPOLLRDHUP, read returns 0
//   unread         : the survivor has just written an event the peer never read -> the close is reported as
//                    EPOLLIN|EPOLLRDHUP|EPOLLHUP|EPOLLERR and the first read fails with ECONNRESET
//   half-close     : only the peer's writing direction is shut (SHUT_WR) -> EPOLLIN|EPOLLRDHUP, read returns 0
// Oracles (C14): the survivor session is closed within the bound, a read pending on it returns an error, a call made
// afterwards fails, OnShutdown-style state (IsClosed) is final.

import (
	"encoding/json"
	"fmt"
	"io"
	"net"
	"os"
	"sync/atomic"
	"syscall"
	"testing"
	"time"
	"unsafe"
)

type svJob struct {
	WaitMs int `json:"wait_ms"`
	Rounds int `json:"rounds"`
}

type svViolation struct {
	Scenario string `json:"scenario"`
	Kind     string `json:"kind"`
	Detail   string `json:"detail"`
}

type svResult struct {
	Violations  []svViolation `json:"violations"`
	Done        []string      `json:"done"`
	NotRealised []string      `json:"not_realised"`
	Checks      int           `json:"checks"`
}

func svSocketPair() (net.Conn, net.Conn, error) {
	fds, err := syscall.Socketpair(syscall.AF_UNIX, syscall.SOCK_STREAM, 0)
	if err != nil {
		return nil, nil, err
	}
	mk := func(fd int) (net.Conn, error) {
		f := os.NewFile(uintptr(fd), "vs-severed")
		defer f.Close()
		return net.FileConn(f)
	}
	a, err := mk(fds[0])
	if err != nil {
		return nil, nil, err
	}
	b, err := mk(fds[1])
	if err != nil {
		return nil, nil, err
	}
	return a, b, nil
}

func svUnread(c net.Conn) int {
	raw, err := c.(*net.UnixConn).SyscallConn()
	if err != nil {
		return -1
	}
	n := int32(0)
	_ = raw.Control(func(fd uintptr) {
		_, _, _ = syscall.Syscall(syscall.SYS_IOCTL, fd, 0x541B /* FIONREAD */, uintptr(unsafe.Pointer(&n)))
	})
	return int(n)
}

// relay copies from -> to until told to stop (the stop flag makes the "peer" stop reading its socket)
func svRelay(from, to net.Conn, stop *uint32, done chan struct{}) {
	defer close(done)
	buf := make([]byte, 4096)
	for atomic.LoadUint32(stop) == 0 {
		n, err := from.Read(buf)
		if n > 0 {
			if _, werr := to.Write(buf[:n]); werr != nil {
				return
			}
		}
		if err != nil {
			if ne, ok := err.(net.Error); ok && ne.Timeout() {
				continue
			}
			return
		}
	}
}

// one scenario: survivor "server" or "client", how the peer goes away, whether a read is pending on the survivor
func svRun(res *svResult, survivor, how string, pending bool, wait time.Duration, seq int) {
	name := fmt.Sprintf("severed/%s-survives/%s/%s", survivor, how, map[bool]string{true: "read-pending", false: "idle"}[pending])
	viol := func(kind, detail string) {
		res.Violations = append(res.Violations, svViolation{Scenario: name, Kind: kind, Detail: detail})
	}
	id := fmt.Sprintf("%d_%d_%d", os.Getpid(), time.Now().UnixNano(), seq)
	conf := DefaultConfig()
	conf.MemMapType = MemMapTypeDevShmFile
	conf.ShareMemoryPathPrefix = "/dev/shm/shmipc.vssev_" + id
	conf.QueuePath = "/dev/shm/shmipc.vssev_" + id + "_queue"
	conf.ShareMemoryBufferCap = 1 << 20
	conf.LogOutput = io.Discard
	defer os.Remove(conf.ShareMemoryPathPrefix + bufferPathSuffix)
	defer os.Remove(conf.QueuePath)

	// client <-> pA ~~relay~~ pB <-> server
	clientConn, pA, err := svSocketPair()
	if err != nil {
		res.NotRealised = append(res.NotRealised, name+": socketpair: "+err.Error())
		return
	}
	pB, serverConn, err := svSocketPair()
	if err != nil {
		res.NotRealised = append(res.NotRealised, name+": socketpair: "+err.Error())
		return
	}
	var stopA2B, stopB2A uint32
	a2bDone, b2aDone := make(chan struct{}), make(chan struct{})
	go svRelay(pA, pB, &stopA2B, a2bDone) // client -> server
	go svRelay(pB, pA, &stopB2A, b2aDone) // server -> client

	var server *Session
	srvReady := make(chan error, 1)
	go func() {
		c := *conf
		var e error
		server, e = newSession(&c, serverConn, false)
		srvReady <- e
	}()
	cc := *conf
	client, err := newSession(&cc, clientConn, true)
	if err != nil {
		res.NotRealised = append(res.NotRealised, name+": client session: "+err.Error())
		pA.Close()
		pB.Close()
		return
	}
	if err := <-srvReady; err != nil {
		res.NotRealised = append(res.NotRealised, name+": server session: "+err.Error())
		client.Close()
		pA.Close()
		pB.Close()
		return
	}
	defer func() {
		pA.Close()
		pB.Close()
		client.Close()
		server.Close()
		time.Sleep(300 * time.Millisecond)
	}()

	// one ordinary round trip
	cs, err := client.OpenStream()
	if err != nil {
		res.NotRealised = append(res.NotRealised, name+": OpenStream: "+err.Error())
		return
	}
	cs.BufferWriter().WriteString("ping")
	if err := cs.Flush(false); err != nil {
		res.NotRealised = append(res.NotRealised, name+": first flush: "+err.Error())
		return
	}
	type acc struct {
		s   *Stream
		err error
	}
	ach := make(chan acc, 1)
	go func() { s, e := server.AcceptStream(); ach <- acc{s, e} }()
	var ss *Stream
	select {
	case a := <-ach:
		if a.err != nil {
			res.NotRealised = append(res.NotRealised, name+": accept: "+a.err.Error())
			return
		}
		ss = a.s
	case <-time.After(wait):
		res.NotRealised = append(res.NotRealised, name+": accept did not return")
		return
	}
	ss.SetReadDeadline(time.Now().Add(wait))
	if _, err := ss.BufferReader().ReadBytes(4); err != nil {
		res.NotRealised = append(res.NotRealised, name+": first read: "+err.Error())
		return
	}
	ss.BufferReader().ReleasePreviousRead()
	ss.SetReadDeadline(time.Time{})
	ss.BufferWriter().WriteString("pong")
	if err := ss.Flush(false); err != nil {
		res.NotRealised = append(res.NotRealised, name+": reply flush: "+err.Error())
		return
	}
	cs.SetReadDeadline(time.Now().Add(wait))
	if _, err := cs.BufferReader().ReadBytes(4); err != nil {
		res.NotRealised = append(res.NotRealised, name+": reply read: "+err.Error())
		return
	}
	cs.BufferReader().ReleasePreviousRead()
	cs.SetReadDeadline(time.Time{})

	// roles: the survivor keeps its session; the "peer" is the relay end facing the survivor
	surv, survStream := server, ss
	peerEnd, stop, stopped, peerFar := pB, &stopB2A, b2aDone, pA
	if survivor == "client" {
		surv, survStream = client, cs
		peerEnd, stop, stopped, peerFar = pA, &stopA2B, a2bDone, pB
	}
	_ = peerFar
	if how == "unread" {
		// the peer stops reading; the survivor writes an event (Flush -> polling notification) that stays unread
		atomic.StoreUint32(stop, 1)
		peerEnd.SetReadDeadline(time.Now())
		<-stopped
		survStream.BufferWriter().WriteString("more")
		if err := survStream.Flush(false); err != nil {
			res.NotRealised = append(res.NotRealised, name+": flush towards the stalled peer: "+err.Error())
			return
		}
		dl := time.Now().Add(3 * time.Second)
		for svUnread(peerEnd) <= 0 {
			if time.Now().After(dl) {
				res.NotRealised = append(res.NotRealised, name+": no unread bytes in the peer's socket")
				return
			}
			time.Sleep(5 * time.Millisecond)
		}
	}
	readErr := make(chan error, 1)
	if pending {
		go func() {
			_, err := survStream.BufferReader().ReadBytes(1)
			readErr <- err
		}()
		time.Sleep(50 * time.Millisecond)
	}
	// the peer goes away
	switch how {
	case "half-close":
		peerEnd.(*net.UnixConn).CloseWrite()
	default:
		peerEnd.Close()
	}
	dl := time.Now().Add(wait)
	for !surv.IsClosed() && time.Now().Before(dl) {
		time.Sleep(10 * time.Millisecond)
	}
	res.Checks++
	if !surv.IsClosed() {
		viol("survivor-not-closed", fmt.Sprintf("the peer's end of the connection went away (%s) %v ago and the surviving session is still open: the death of the peer was not noticed", how, wait))
		return
	}
	if pending {
		res.Checks++
		select {
		case err := <-readErr:
			if err == nil {
				viol("pending-read-no-error", "the read pending on the survivor returned without an error after the peer went away")
				return
			}
		case <-time.After(wait):
			viol("pending-read-blocked", fmt.Sprintf("the read pending on the survivor is still blocked %v after the survivor session closed", wait))
			return
		}
	}
	res.Checks++
	if _, err := surv.OpenStream(); err == nil && survivor == "client" {
		viol("later-call-succeeds", "OpenStream on the closed survivor succeeded")
		return
	}
	survStream.BufferWriter().WriteString("late")
	if err := survStream.Flush(false); err == nil {
		viol("later-call-succeeds", "Flush on a stream of the closed survivor reported success")
		return
	}
	res.Done = append(res.Done, name)
}

func TestVS_Severed(t *testing.T) {
	var job svJob
	b, err := os.ReadFile(os.Getenv("VS_IN_JOB"))
	if err != nil {
		t.Skip("no job")
	}
	if err := json.Unmarshal(b, &job); err != nil {
		t.Fatal(err)
	}
	res := &svResult{Violations: []svViolation{}, Done: []string{}, NotRealised: []string{}}
	write := func() {
		out, _ := json.Marshal(res)
		os.WriteFile(os.Getenv("VS_OUT"), out, 0o644)
	}
	defer write()
	wait := time.Duration(job.WaitMs) * time.Millisecond
	seq := 0
	for r := 0; r < job.Rounds; r++ {
		for _, survivor := range []string{"server", "client"} {
			for _, how := range []string{"clean", "unread", "half-close"} {
				for _, pending := range []bool{true, false} {
					seq++
					svRun(res, survivor, how, pending, wait, seq)
					write()
				}
			}
		}
	}
}
