package shmipc

// C12 harness (module Handshake). Every scenario of specs/Handshake.tla is executed with the REAL newSession on every
// end that exists in the tree; the other end (a faulty peer, an emulated old server, the (file, protocol 3) client) is a
// scripted raw-socket peer which keeps its own, independent mappings of the shared memory.
// Observables reported per scenario: result/error/elapsed time/communicationVersion of each end, the messages the
// scripted peer saw on the wire, identity of queue and buffer memory (byte flip through one mapping seen through the
// other, queue direction by put/pop, an echo over a real stream), and a census of /proc/self/maps, /proc/self/fd and
// /dev/shm for everything that belongs to the scenario.

import (
	"encoding/binary"
	"encoding/json"
	"errors"
	"fmt"
	"io"
	"net"
	"os"
	"path/filepath"
	"runtime"
	"runtime/debug"
	"sort"
	"strconv"
	"strings"
	"sync"
	"sync/atomic"
	"testing"
	"time"

	hsunix "golang.org/x/sys/unix"
)

type hsScenario struct {
	ID        int    `json:"id"`
	Map       string `json:"map"`
	CProto    int    `json:"cproto"`
	SGen      string `json:"sgen"`
	Tr        string `json:"tr"`
	FSide     string `json:"fside"`
	FStep     int    `json:"fstep"`
	FKind     string `json:"fkind"`
	RealC     bool   `json:"realc"`
	RealS     bool   `json:"reals"`
	TimeoutMs int    `json:"timeout_ms"`
}

type hsJob struct {
	Scenarios []hsScenario `json:"scenarios"`
	Workers   int          `json:"workers"`
}

type hsEnd struct {
	Real  bool       `json:"real"`
	Res   string     `json:"res"` // ok | err | stalled | closed | none
	Class string     `json:"class"`
	Err   string     `json:"err"`
	Ms    int64      `json:"ms"`
	Ver   int        `json:"ver"`
	Done  bool       `json:"handshake_done"`
	Recv  [][]string `json:"recv"` // scripted end: what it read from the wire: [type, version, length]
	IO    int        `json:"io"`
	// scripted end: it had mapped the shared memory when its program ended
	Mapped bool `json:"mapped"`
}

type hsOut struct {
	ID            int      `json:"id"`
	C             hsEnd    `json:"c"`
	S             hsEnd    `json:"s"`
	QueueSame     string   `json:"queue_same"`  // yes | no | n/a
	BufferSame    string   `json:"buffer_same"` // yes | no | n/a
	QueueDir      string   `json:"queue_dir"`
	BufSameObject bool     `json:"buffer_same_object"`
	Stream        string   `json:"stream"` // yes | no:<why> | n/a
	MemDetail     string   `json:"mem_detail"`
	LeftFail      []string `json:"left_after_failure"` // census after a real end failed (scripted side released)
	LeftFailValid bool     `json:"left_after_failure_valid"`
	LeftClose     []string `json:"left_after_close"` // census after the successful real ends were closed
	Panic         string   `json:"panic"`
	Note          string   `json:"note"`
}

type hsResult struct {
	Outs       []hsOut `json:"outs"`
	Goroutines int     `json:"goroutines_end"`
}

var hsSeq int64

// ---------------------------------------------------------------------------------------------------------------
// census

func hsInode(c net.Conn) uint64 {
	var ino uint64
	switch cc := c.(type) {
	case *net.UnixConn:
		rc, err := cc.SyscallConn()
		if err == nil {
			rc.Control(func(fd uintptr) {
				var st hsunix.Stat_t
				if hsunix.Fstat(int(fd), &st) == nil {
					ino = st.Ino
				}
			})
		}
	case *net.TCPConn:
		rc, err := cc.SyscallConn()
		if err == nil {
			rc.Control(func(fd uintptr) {
				var st hsunix.Stat_t
				if hsunix.Fstat(int(fd), &st) == nil {
					ino = st.Ino
				}
			})
		}
	}
	return ino
}

func hsCensus(tag string, inodes map[uint64]bool) []string {
	out := []string{}
	if b, err := os.ReadFile("/proc/self/maps"); err == nil {
		for _, ln := range strings.Split(string(b), "\n") {
			if strings.Contains(ln, tag) {
				f := strings.Fields(ln)
				out = append(out, "map:"+strings.Join(f[5:], " "))
			}
		}
	}
	if ents, err := os.ReadDir("/proc/self/fd"); err == nil {
		for _, e := range ents {
			lk, err := os.Readlink("/proc/self/fd/" + e.Name())
			if err != nil {
				continue
			}
			if strings.Contains(lk, tag) {
				out = append(out, "fd:"+lk)
			} else if strings.HasPrefix(lk, "socket:[") {
				n, _ := strconv.ParseUint(strings.TrimSuffix(strings.TrimPrefix(lk, "socket:["), "]"), 10, 64)
				if inodes[n] {
					out = append(out, "sock:"+lk)
				}
			}
		}
	}
	if m, err := filepath.Glob("/dev/shm/" + tag + "*"); err == nil {
		for _, f := range m {
			out = append(out, "file:"+f)
		}
	}
	sort.Strings(out)
	return out
}

// ---------------------------------------------------------------------------------------------------------------
// scripted peer

type hsPeer struct {
	sc       *hsScenario
	side     string
	conn     net.Conn
	tag      string
	io       int
	recv     [][]string
	res      string
	class    string
	err      string
	ver      int
	qmem     []byte
	bmem     []byte
	files    []string
	fds      []int
	qpath    string
	bpath    string
	deadline time.Duration
	stopped  bool
	mapped   bool
	// kind "late": pause before the k-th IO operation until the other (real) end has returned, then go on
	otherDone <-chan struct{}
	lateUsed  bool
}

func (p *hsPeer) faultNow() bool {
	if p.sc.FSide != p.side || p.io != p.sc.FStep {
		return false
	}
	if p.sc.FKind == "nobuf" || p.sc.FKind == "badbuf" {
		return false // this client does not stop; what is wrong with it is its buffer (createMemory)
	}
	if p.sc.FKind == "late" {
		if !p.lateUsed {
			p.lateUsed = true
			select {
			case <-p.otherDone:
			case <-time.After(p.deadline*3 + 5*time.Second):
			}
			time.Sleep(20 * time.Millisecond)
			// the pause is over: deadlines of this peer start now
		}
		return false
	}
	return true
}
func (p *hsPeer) isHalf() bool  { return strings.HasPrefix(p.sc.FKind, "half") }
func (p *hsPeer) isClose() bool { return strings.HasSuffix(p.sc.FKind, "close") }

func (p *hsPeer) fault() {
	p.stopped = true
	if p.isClose() {
		p.res = "closed"
		p.conn.Close()
	} else {
		p.res = "stalled"
	}
}

func (p *hsPeer) fail(class string, err error) {
	p.stopped = true
	p.res, p.class = "err", class
	if err != nil {
		p.err = err.Error()
	}
	p.release()
	p.conn.Close()
}

func (p *hsPeer) release() {
	if p.qmem != nil {
		hsunix.Munmap(p.qmem)
		p.qmem = nil
	}
	if p.bmem != nil {
		hsunix.Munmap(p.bmem)
		p.bmem = nil
	}
	for _, fd := range p.fds {
		hsunix.Close(fd)
	}
	p.fds = nil
	for _, f := range p.files {
		os.Remove(f)
	}
	p.files = nil
}

func hsHeader(length int, ver uint8, typ eventType) []byte {
	h := make([]byte, 8)
	binary.BigEndian.PutUint32(h[0:4], uint32(length))
	binary.BigEndian.PutUint16(h[4:6], 0x7758)
	h[6] = ver
	h[7] = uint8(typ)
	return h
}

// send one message; returns false when the peer's program ends here
func (p *hsPeer) send(typ eventType, ver uint8, body []byte) bool {
	msg := append(hsHeader(8+len(body), ver, typ), body...)
	if p.faultNow() {
		if p.isHalf() {
			n := 4
			if len(body) > 0 {
				n = 8 + len(body)/2
			}
			p.conn.SetWriteDeadline(time.Now().Add(p.deadline))
			p.conn.Write(msg[:n])
		}
		p.fault()
		return false
	}
	p.conn.SetWriteDeadline(time.Now().Add(p.deadline))
	if _, err := p.conn.Write(msg); err != nil {
		p.fail("err_pipe", err)
		return false
	}
	p.io++
	return true
}

func (p *hsPeer) sendFds(fds ...int) bool {
	if p.faultNow() {
		p.fault() // half of the descriptor message = nothing
		return false
	}
	uc, ok := p.conn.(*net.UnixConn)
	if !ok {
		p.fail("err_pipe", errors.New("descriptor passing needs a unix socket"))
		return false
	}
	uc.SetWriteDeadline(time.Now().Add(p.deadline))
	if _, _, err := uc.WriteMsgUnix([]byte{0}, hsunix.UnixRights(fds...), nil); err != nil {
		p.fail("err_pipe", err)
		return false
	}
	p.io++
	return true
}

func hsClassifyNetErr(err error) string {
	var ne net.Error
	if errors.As(err, &ne) && ne.Timeout() {
		return "err_timeout"
	}
	return "err_eof"
}

// read one header (and its body); ok=false when the peer's program ends here
func (p *hsPeer) recvMsg() (typ eventType, ver uint8, body []byte, ok bool) {
	if p.faultNow() {
		p.fault()
		return 0, 0, nil, false
	}
	p.conn.SetReadDeadline(time.Now().Add(p.deadline))
	h := make([]byte, 8)
	if _, err := io.ReadFull(p.conn, h); err != nil {
		p.fail(hsClassifyNetErr(err), err)
		return 0, 0, nil, false
	}
	length := int(binary.BigEndian.Uint32(h[0:4]))
	magic := binary.BigEndian.Uint16(h[4:6])
	ver, typ = h[6], eventType(h[7])
	p.recv = append(p.recv, []string{typ.String(), strconv.Itoa(int(ver)), strconv.Itoa(length)})
	if magic != 0x7758 || ver == 0 || typ > maxEventType {
		p.fail("err_proto", fmt.Errorf("invalid header %v", h))
		return 0, 0, nil, false
	}
	if length > 8 && length < 1<<16 {
		body = make([]byte, length-8)
		if _, err := io.ReadFull(p.conn, body); err != nil {
			p.fail(hsClassifyNetErr(err), err)
			return 0, 0, nil, false
		}
	}
	p.io++
	return typ, ver, body, true
}

func (p *hsPeer) recvFds() ([]int, bool) {
	if p.faultNow() {
		p.fault()
		return nil, false
	}
	uc, ok := p.conn.(*net.UnixConn)
	if !ok {
		p.fail("err_proto", errors.New("descriptor passing needs a unix socket"))
		return nil, false
	}
	uc.SetReadDeadline(time.Now().Add(p.deadline))
	b := make([]byte, 1)
	oob := make([]byte, hsunix.CmsgSpace(8))
	n, oobn, _, _, err := uc.ReadMsgUnix(b, oob)
	if err != nil {
		p.fail(hsClassifyNetErr(err), err)
		return nil, false
	}
	if n == 0 && oobn == 0 {
		p.fail("err_eof", io.EOF)
		return nil, false
	}
	msgs, err := hsunix.ParseSocketControlMessage(oob[:oobn])
	if err != nil || len(msgs) == 0 {
		p.fail("err_proto", fmt.Errorf("no control message (n=%d oobn=%d)", n, oobn))
		return nil, false
	}
	fds, err := hsunix.ParseUnixRights(&msgs[0])
	if err != nil || len(fds) < 2 {
		p.fail("err_proto", fmt.Errorf("bad rights %v %v", fds, err))
		return nil, false
	}
	p.recv = append(p.recv, []string{"FDS", strconv.Itoa(len(fds)), strconv.Itoa(n)})
	p.io++
	return fds, true
}

func hsMetaBody(qpath, bpath string) []byte {
	b := make([]byte, 0, 4+len(qpath)+len(bpath))
	l := make([]byte, 2)
	binary.BigEndian.PutUint16(l, uint16(len(qpath)))
	b = append(b, l...)
	b = append(b, qpath...)
	binary.BigEndian.PutUint16(l, uint16(len(bpath)))
	b = append(b, l...)
	b = append(b, bpath...)
	return b
}

func hsParseMeta(body []byte) (q, b string, err error) {
	if len(body) < 2 {
		return "", "", errors.New("short metadata")
	}
	ql := int(binary.BigEndian.Uint16(body[0:2]))
	if len(body) < 2+ql+2 {
		return "", "", errors.New("short metadata")
	}
	q = string(body[2 : 2+ql])
	bl := int(binary.BigEndian.Uint16(body[2+ql : 4+ql]))
	if len(body) < 4+ql+bl {
		return "", "", errors.New("short metadata")
	}
	b = string(body[4+ql : 4+ql+bl])
	return
}

const hsQueueCap = 16
const hsBufCap = 1 << 20

// the scripted client creates the shared memory itself (files or memfds) and lays it out with the library's own
// constructors, without registering anything in the library's global buffer-manager table
func (p *hsPeer) createMemory() error {
	p.qpath = "/dev/shm/" + p.tag + "_q"
	p.bpath = "/dev/shm/" + p.tag + "_b_buffer"
	qsize := countQueueMemSize(hsQueueCap) * queueCount
	var qfd, bfd int
	var err error
	if p.sc.Map == "file" {
		if qfd, err = hsunix.Open(p.qpath, hsunix.O_CREAT|hsunix.O_RDWR|hsunix.O_EXCL, 0o666); err != nil {
			return err
		}
		p.files = append(p.files, p.qpath)
		if bfd, err = hsunix.Open(p.bpath, hsunix.O_CREAT|hsunix.O_RDWR|hsunix.O_EXCL, 0o666); err != nil {
			hsunix.Close(qfd)
			return err
		}
		p.files = append(p.files, p.bpath)
	} else {
		if qfd, err = hsunix.MemfdCreate("shmipc"+p.qpath, 0); err != nil {
			return err
		}
		if bfd, err = hsunix.MemfdCreate("shmipc"+p.bpath, 0); err != nil {
			hsunix.Close(qfd)
			return err
		}
	}
	p.fds = append(p.fds, qfd, bfd)
	if err = hsunix.Ftruncate(qfd, int64(qsize)); err != nil {
		return err
	}
	if err = hsunix.Ftruncate(bfd, hsBufCap); err != nil {
		return err
	}
	if p.qmem, err = hsunix.Mmap(qfd, 0, qsize, hsunix.PROT_READ|hsunix.PROT_WRITE, hsunix.MAP_SHARED); err != nil {
		return err
	}
	if p.bmem, err = hsunix.Mmap(bfd, 0, hsBufCap, hsunix.PROT_READ|hsunix.PROT_WRITE, hsunix.MAP_SHARED); err != nil {
		return err
	}
	createQueueFromBytes(p.qmem[:qsize/2], hsQueueCap)
	createQueueFromBytes(p.qmem[qsize/2:], hsQueueCap)
	bad := p.sc.FSide == "c" && (p.sc.FKind == "nobuf" || p.sc.FKind == "badbuf")
	if !bad || p.sc.FKind == "nobuf" {
		if _, err = createBufferManager([]*SizePercentPair{{Size: 4096, Percent: 100}}, p.bpath, p.bmem, 0); err != nil {
			return err
		}
	} // badbuf: all zero, no buffer manager in it
	if bad && p.sc.FKind == "nobuf" && p.sc.Map == "file" {
		// what a dying / tearing-down client of the library leaves for a moment: buffer file gone, queue file there
		os.Remove(p.bpath)
	}
	if p.sc.Map == "file" { // descriptors of files are not needed once mapped
		hsunix.Close(qfd)
		hsunix.Close(bfd)
		p.fds = nil
	}
	return nil
}

func hsMapFd(fd int) ([]byte, error) {
	var st hsunix.Stat_t
	if err := hsunix.Fstat(fd, &st); err != nil {
		return nil, err
	}
	if st.Size <= 0 {
		return nil, errors.New("empty memory object")
	}
	return hsunix.Mmap(fd, 0, int(st.Size), hsunix.PROT_READ|hsunix.PROT_WRITE, hsunix.MAP_SHARED)
}

func (p *hsPeer) mapByPath(body []byte) error {
	q, b, err := hsParseMeta(body)
	if err != nil {
		return err
	}
	p.qpath, p.bpath = q, b
	qfd, err := hsunix.Open(q, hsunix.O_RDWR, 0)
	if err != nil {
		return fmt.Errorf("open %s: %w", q, err)
	}
	defer hsunix.Close(qfd)
	bfd, err := hsunix.Open(b, hsunix.O_RDWR, 0)
	if err != nil {
		return fmt.Errorf("open %s: %w", b, err)
	}
	defer hsunix.Close(bfd)
	if p.qmem, err = hsMapFd(qfd); err != nil {
		return err
	}
	if p.bmem, err = hsMapFd(bfd); err != nil {
		return err
	}
	return nil
}

func (p *hsPeer) mapByFds(fds []int) error {
	p.fds = append(p.fds, fds...)
	var err error
	if p.qmem, err = hsMapFd(fds[1]); err != nil { // the library sends UnixRights(bufferFd, queueFd)
		return err
	}
	if p.bmem, err = hsMapFd(fds[0]); err != nil {
		return err
	}
	return nil
}

func hsMin(a, b int) int {
	if a < b {
		return a
	}
	return b
}

func (p *hsPeer) runClient() {
	if err := p.createMemory(); err != nil {
		p.fail("err_harness", err)
		return
	}
	meta := hsMetaBody(p.qpath, p.bpath)
	p.ver = 2
	if p.sc.CProto == 2 {
		if !p.send(typeShareMemoryByFilePath, 2, meta) {
			return
		}
		p.res = "ok"
		return
	}
	if !p.send(typeExchangeProtoVersion, 3, nil) {
		return
	}
	typ, ver, _, ok := p.recvMsg()
	if !ok {
		return
	}
	chosen := hsMin(3, int(ver))
	if typ != typeExchangeProtoVersion || chosen < 2 {
		p.fail("err_proto", fmt.Errorf("unexpected reply type %d version %d", typ, ver))
		return
	}
	p.ver = chosen
	if chosen == 3 && p.sc.Map == "memfd" {
		if !p.send(typeShareMemoryByMemfd, 3, meta) {
			return
		}
		if typ, _, _, ok = p.recvMsg(); !ok {
			return
		}
		if typ != typeAckReadyRecvFD {
			p.fail("err_proto", fmt.Errorf("expected AckReadyRecvFD, got %d", typ))
			return
		}
		if !p.sendFds(p.fds[1], p.fds[0]) { // (buffer, queue) as sendMemFdToPeer does
			return
		}
	} else {
		if !p.send(typeShareMemoryByFilePath, uint8(chosen), meta) {
			return
		}
		if chosen == 2 {
			p.res = "ok"
			return
		}
	}
	if typ, _, _, ok = p.recvMsg(); !ok {
		return
	}
	if typ != typeAckShareMemory {
		p.fail("err_proto", fmt.Errorf("expected AckShareMemory, got %d", typ))
		return
	}
	p.res = "ok"
}

func (p *hsPeer) runServer() {
	p.ver = 2
	typ, ver, body, ok := p.recvMsg()
	if !ok {
		return
	}
	byPath := func(b []byte, ack bool) {
		if err := p.mapByPath(b); err != nil {
			p.fail("err_map", err)
			return
		}
		if ack && !p.send(typeAckShareMemory, uint8(p.ver), nil) {
			return
		}
		p.res = "ok"
	}
	if ver == 2 && typ == typeShareMemoryByFilePath {
		byPath(body, false)
		return
	}
	cur := p.sc.SGen == "cur"
	if !((cur && ver == 3 && typ == typeExchangeProtoVersion) || (p.sc.SGen == "v2exch" && typ == typeExchangeProtoVersion)) {
		p.fail("err_proto", fmt.Errorf("unexpected first event type %d version %d", typ, ver))
		return
	}
	if cur {
		p.ver = 3
	}
	if !p.send(typeExchangeProtoVersion, uint8(p.ver), nil) {
		return
	}
	if typ, ver, body, ok = p.recvMsg(); !ok {
		return
	}
	switch {
	case cur && typ == typeShareMemoryByFilePath:
		byPath(body, true)
	case cur && typ == typeShareMemoryByMemfd:
		if _, _, err := hsParseMeta(body); err != nil {
			p.fail("err_proto", err)
			return
		}
		if !p.send(typeAckReadyRecvFD, 3, nil) {
			return
		}
		fds, ok := p.recvFds()
		if !ok {
			return
		}
		if err := p.mapByFds(fds); err != nil {
			p.fail("err_map", err)
			return
		}
		if !p.send(typeAckShareMemory, 3, nil) {
			return
		}
		p.res = "ok"
	case !cur && typ == typeShareMemoryByFilePath && ver == 2:
		byPath(body, false)
	default:
		p.fail("err_proto", fmt.Errorf("unexpected second event type %d version %d", typ, ver))
	}
}

// ---------------------------------------------------------------------------------------------------------------
// memory identity

// flip bytes through a and look through b
func hsSameMem(a, b []byte) (bool, string) {
	if len(a) != len(b) || len(a) == 0 {
		return false, fmt.Sprintf("lengths %d/%d", len(a), len(b))
	}
	for _, off := range []int{len(a) - 1, len(a) / 2, len(a)/2 + 4099, len(a) / 3, 3} {
		off %= len(a)
		old := a[off]
		if b[off] != old {
			return false, fmt.Sprintf("byte %d differs", off)
		}
		a[off] = old ^ 0xa5
		seen := b[off]
		a[off] = old
		if seen != old^0xa5 {
			return false, fmt.Sprintf("write at %d through one mapping not visible through the other", off)
		}
	}
	return true, ""
}

func hsQueueDir(cSend, sRecv, sSend, cRecv *queue) (bool, string) {
	e1 := queueElement{seqID: 0x1234567, offsetInShmBuf: 0x89abcd, status: 0x42}
	if err := cSend.put(e1); err != nil {
		return false, "put on client send queue: " + err.Error()
	}
	g, err := sRecv.pop()
	if err != nil || g != e1 {
		return false, fmt.Sprintf("element put on the client's send queue not popped from the server's receive queue (%v %v)", g, err)
	}
	e2 := queueElement{seqID: 0x7654321, offsetInShmBuf: 0xdcba98, status: 0x24}
	if err := sSend.put(e2); err != nil {
		return false, "put on server send queue: " + err.Error()
	}
	g, err = cRecv.pop()
	if err != nil || g != e2 {
		return false, fmt.Sprintf("element put on the server's send queue not popped from the client's receive queue (%v %v)", g, err)
	}
	return true, ""
}

func hsEcho(c, s *Session) string {
	done := make(chan string, 1)
	go func() {
		st, err := s.AcceptStream()
		if err != nil {
			done <- "accept: " + err.Error()
			return
		}
		st.SetDeadline(time.Now().Add(3 * time.Second))
		b := make([]byte, 4)
		if _, err := io.ReadFull(st, b); err != nil {
			done <- "server read: " + err.Error()
			return
		}
		if _, err := st.Write([]byte("re:" + string(b))); err != nil {
			done <- "server write: " + err.Error()
			return
		}
		done <- ""
	}()
	st, err := c.OpenStream()
	if err != nil {
		return "no:open: " + err.Error()
	}
	st.SetDeadline(time.Now().Add(3 * time.Second))
	if _, err := st.Write([]byte("ping")); err != nil {
		return "no:client write: " + err.Error()
	}
	b := make([]byte, 7)
	if _, err := io.ReadFull(st, b); err != nil {
		return "no:client read: " + err.Error()
	}
	if string(b) != "re:ping" {
		return "no:echo is " + string(b)
	}
	select {
	case e := <-done:
		if e != "" {
			return "no:" + e
		}
	case <-time.After(3 * time.Second):
		return "no:server side did not finish"
	}
	fb := atomic.LoadUint64(&c.stats.fallbackWriteCount) + atomic.LoadUint64(&s.stats.fallbackWriteCount)
	if fb != 0 {
		return "no:data went through the socket fallback, not shared memory"
	}
	st.Close()
	return "yes"
}

// ---------------------------------------------------------------------------------------------------------------
// one scenario

func hsConnPair(tr, dir, tag string) (c, s net.Conn, err error) {
	var ln net.Listener
	var sock string
	if tr == "unix" {
		sock = filepath.Join(dir, tag+".sock")
		ln, err = net.Listen("unix", sock)
	} else {
		ln, err = net.Listen("tcp", "127.0.0.1:0")
	}
	if err != nil {
		return nil, nil, err
	}
	defer func() {
		ln.Close()
		if sock != "" {
			os.Remove(sock)
		}
	}()
	ch := make(chan error, 1)
	go func() {
		var e error
		s, e = ln.Accept()
		ch <- e
	}()
	if c, err = net.DialTimeout(ln.Addr().Network(), ln.Addr().String(), 5*time.Second); err != nil {
		return nil, nil, err
	}
	if err = <-ch; err != nil {
		c.Close()
		return nil, nil, err
	}
	return c, s, nil
}

func hsConfig(sc *hsScenario, tag string, isClient bool) *Config {
	cfg := DefaultConfig()
	cfg.QueuePath = "/dev/shm/" + tag + "_q"
	cfg.ShareMemoryPathPrefix = "/dev/shm/" + tag + "_b"
	cfg.ShareMemoryBufferCap = hsBufCap
	cfg.QueueCap = hsQueueCap
	cfg.InitializeTimeout = time.Duration(sc.TimeoutMs) * time.Millisecond
	cfg.LogOutput = io.Discard
	cfg.BufferSliceSizes = []*SizePercentPair{{Size: 4096, Percent: 100}}
	if sc.Map == "memfd" && isClient { // "MemMapType (client set)": the server keeps the default
		cfg.MemMapType = MemMapTypeMemFd
	} else {
		cfg.MemMapType = MemMapTypeDevShmFile
	}
	return cfg
}

func hsRun(sc hsScenario, dir string) (out hsOut) {
	out = hsOut{ID: sc.ID, QueueSame: "n/a", BufferSame: "n/a", QueueDir: "n/a", Stream: "n/a",
		LeftFail: []string{}, LeftClose: []string{}}
	out.C.Recv, out.S.Recv = [][]string{}, [][]string{}
	out.C.Res, out.S.Res = "none", "none"
	defer func() {
		if r := recover(); r != nil {
			buf := make([]byte, 4096)
			buf = buf[:runtime.Stack(buf, false)]
			out.Panic = fmt.Sprintf("%v\n%s", r, buf)
		}
	}()
	tag := fmt.Sprintf("vsHS%dx%de", os.Getpid(), atomic.AddInt64(&hsSeq, 1)) // the trailing letter keeps one tag from being a prefix of another
	cconn, sconn, err := hsConnPair(sc.Tr, dir, tag)
	if err != nil {
		out.Note = "harness: " + err.Error()
		return
	}
	inodes := map[uint64]bool{hsInode(cconn): true, hsInode(sconn): true}
	delete(inodes, 0)
	deadline := time.Duration(sc.TimeoutMs) * time.Millisecond

	var csess, ssess *Session
	var cpeer, speer *hsPeer
	var wg sync.WaitGroup
	realDone := make(chan struct{}, 2)
	realResolved := make(chan struct{})
	var realOnce sync.Once
	runReal := func(end *hsEnd, conn net.Conn, isClient bool, sess **Session) {
		defer wg.Done()
		defer func() {
			if r := recover(); r != nil {
				end.Res, end.Class, end.Err = "err", "panic", fmt.Sprint(r)
			}
			realDone <- struct{}{}
			realOnce.Do(func() { close(realResolved) })
		}()
		end.Real = true
		t0 := time.Now()
		s, err := newSession(hsConfig(&sc, tag, isClient), conn, isClient)
		end.Ms = time.Since(t0).Milliseconds()
		if err != nil {
			end.Res, end.Err = "err", err.Error()
			conn.Close() // what a caller does with its connection after a failed handshake
			runtime.GC() // the duplicated descriptor is closed by its finaliser: let the peer see the end soon
			return
		}
		end.Res = "ok"
		end.Ver = int(s.communicationVersion)
		end.Done = s.handshakeDone
		*sess = s
	}
	runPeer := func(end *hsEnd, p *hsPeer) {
		defer wg.Done()
		t0 := time.Now()
		if p.side == "c" {
			p.runClient()
		} else {
			p.runServer()
		}
		end.Ms = time.Since(t0).Milliseconds()
		p.mapped = p.qmem != nil && p.bmem != nil
	}
	wg.Add(2)
	if sc.RealC {
		go runReal(&out.C, cconn, true, &csess)
	} else {
		cpeer = &hsPeer{sc: &sc, side: "c", conn: cconn, tag: tag, deadline: deadline, res: "none", otherDone: realResolved}
		go runPeer(&out.C, cpeer)
	}
	if sc.RealS {
		go runReal(&out.S, sconn, false, &ssess)
	} else {
		speer = &hsPeer{sc: &sc, side: "s", conn: sconn, tag: tag, deadline: deadline, res: "none", otherDone: realResolved}
		go runPeer(&out.S, speer)
	}
	fin := make(chan struct{})
	go func() { wg.Wait(); close(fin) }()
	select {
	case <-fin:
	case <-time.After(deadline*3 + 5*time.Second):
		out.Note = "harness: an end did not return"
		// a stalled scripted peer has returned already; whoever is missing is a real end that hangs
		if sc.RealC && out.C.Res == "none" {
			out.C.Real, out.C.Res, out.C.Class = true, "err", "hang"
		}
		if sc.RealS && out.S.Res == "none" {
			out.S.Real, out.S.Res, out.S.Class = true, "err", "hang"
		}
		cconn.Close()
		sconn.Close()
		return
	}
	for _, pe := range []struct {
		p *hsPeer
		e *hsEnd
	}{{cpeer, &out.C}, {speer, &out.S}} {
		if pe.p != nil {
			pe.e.Res, pe.e.Class, pe.e.Err, pe.e.Ver, pe.e.IO = pe.p.res, pe.p.class, pe.p.err, pe.p.ver, pe.p.io
			pe.e.Mapped = pe.p.mapped
			if pe.p.recv != nil {
				pe.e.Recv = pe.p.recv
			}
		}
	}

	// ---- shared memory identity (every real end that succeeded against whatever the other end holds)
	// A real session whose peer has closed its socket tears itself down (and unmaps) on its own: no look then.
	alive := func(p *hsPeer) bool { return p == nil || p.res == "ok" || p.res == "stalled" }
	cHas := csess != nil || (cpeer != nil && cpeer.mapped)
	sHas := ssess != nil || (speer != nil && speer.mapped)
	if cHas && sHas && alive(cpeer) && alive(speer) {
		memCheck := func() {
			defer debug.SetPanicOnFault(debug.SetPanicOnFault(true))
			defer func() {
				if r := recover(); r != nil {
					out.Note = fmt.Sprintf("harness: memory check faulted: %v", r)
				}
			}()
			var cq, cb, sq, sb []byte
			var cSend, cRecv, sSend, sRecv *queue
			if csess != nil {
				cq, cb = csess.queueManager.mem, csess.bufferManager.mem
				cSend, cRecv = csess.queueManager.sendQueue, csess.queueManager.recvQueue
			} else {
				cq, cb = cpeer.qmem, cpeer.bmem
				cSend, cRecv = mappingQueueFromBytes(cq[:len(cq)/2]), mappingQueueFromBytes(cq[len(cq)/2:])
			}
			if ssess != nil {
				sq, sb = ssess.queueManager.mem, ssess.bufferManager.mem
				sSend, sRecv = ssess.queueManager.sendQueue, ssess.queueManager.recvQueue
			} else {
				sq, sb = speer.qmem, speer.bmem
				sSend, sRecv = mappingQueueFromBytes(sq[len(sq)/2:]), mappingQueueFromBytes(sq[:len(sq)/2])
			}
			det := []string{}
			yn := func(ok bool, what, d string) string {
				if ok {
					return "yes"
				}
				det = append(det, what+": "+d)
				return "no"
			}
			ok, d := hsSameMem(cq, sq)
			out.QueueSame = yn(ok, "queue", d)
			ok, d = hsSameMem(cb, sb)
			out.BufferSame = yn(ok, "buffer", d)
			if csess != nil && ssess != nil && csess.bufferManager == ssess.bufferManager {
				out.BufSameObject = true
			}
			if out.QueueSame == "yes" {
				ok, d = hsQueueDir(cSend, sRecv, sSend, cRecv)
				out.QueueDir = yn(ok, "queue direction", d)
			}
			if csess != nil && ssess != nil {
				out.Stream = hsEcho(csess, ssess)
			}
			out.MemDetail = strings.Join(det, "; ")
		}
		memCheck()
	}

	if sc.FKind == "late" {
		// give the goroutine of the timed-out initProtocol (if it is still there) time to act on what arrived late
		time.Sleep(250 * time.Millisecond)
	}
	// ---- the scripted side lets go of everything it holds; the caller's connections are closed
	for _, p := range []*hsPeer{cpeer, speer} {
		if p != nil {
			p.release()
			p.conn.Close()
		}
	}
	anyRealOK := (csess != nil) || (ssess != nil)
	anyRealErr := (sc.RealC && out.C.Res == "err") || (sc.RealS && out.S.Res == "err")
	if sc.RealC && out.C.Res == "err" {
		cconn.Close()
	}
	if sc.RealS && out.S.Res == "err" {
		sconn.Close()
	}
	if anyRealErr && !anyRealOK {
		out.LeftFailValid = true
		for i := 0; i < 40; i++ {
			runtime.GC()
			time.Sleep(5 * time.Millisecond)
			runtime.GC()
			out.LeftFail = hsCensus(tag, inodes)
			if len(out.LeftFail) == 0 {
				break
			}
		}
	}
	// ---- successful real ends are closed; what remains after that is reported separately (C14's subject)
	if anyRealOK {
		if csess != nil {
			csess.Close()
		}
		if ssess != nil {
			ssess.Close()
		}
		for i := 0; i < 300; i++ {
			runtime.GC()
			out.LeftClose = hsCensus(tag, inodes)
			if len(out.LeftClose) == 0 {
				break
			}
			time.Sleep(10 * time.Millisecond)
		}
	}
	return
}

func TestVS_Handshake(t *testing.T) {
	jobPath := os.Getenv("VS_IN_JOB")
	if jobPath == "" {
		t.Skip("VS_IN_JOB not set")
	}
	raw, err := os.ReadFile(jobPath)
	if err != nil {
		t.Fatal(err)
	}
	var job hsJob
	if err := json.Unmarshal(raw, &job); err != nil {
		t.Fatal(err)
	}
	dir := os.Getenv("VS_DIR")
	if dir == "" {
		dir = t.TempDir()
	}
	if job.Workers <= 0 {
		job.Workers = 8
	}
	res := hsResult{Outs: make([]hsOut, len(job.Scenarios))}
	// keep the shared epoll loop awake: posted teardown lambdas only run when epoll_wait returns
	stopKick := make(chan struct{})
	go func() {
		ensureDefaultDispatcherInit()
		tk := time.NewTicker(20 * time.Millisecond)
		defer tk.Stop()
		for {
			select {
			case <-stopKick:
				return
			case <-tk.C:
				defaultDispatcher.post(func() {})
			}
		}
	}()
	// a panic on one of the library's own goroutines kills the process: leave a trail of what was in flight
	var pmu sync.Mutex
	pf, _ := os.OpenFile(filepath.Join(dir, "progress.log"), os.O_CREATE|os.O_WRONLY|os.O_APPEND, 0o644)
	progress := func(what string, id int) {
		if pf != nil {
			pmu.Lock()
			fmt.Fprintf(pf, "%s %d\n", what, id)
			pmu.Unlock()
		}
	}
	var wg sync.WaitGroup
	idx := int64(-1)
	for w := 0; w < job.Workers; w++ {
		wg.Add(1)
		go func() {
			defer wg.Done()
			for {
				i := int(atomic.AddInt64(&idx, 1))
				if i >= len(job.Scenarios) {
					return
				}
				progress("S", job.Scenarios[i].ID)
				res.Outs[i] = hsRun(job.Scenarios[i], dir)
				progress("F", job.Scenarios[i].ID)
			}
		}()
	}
	wg.Wait()
	close(stopKick)
	// whatever the executions left in /dev/shm has been reported; do not leave it to the next run
	if m, err := filepath.Glob(fmt.Sprintf("/dev/shm/vsHS%dx*", os.Getpid())); err == nil {
		for _, f := range m {
			os.Remove(f)
		}
	}
	res.Goroutines = runtime.NumGoroutine()
	b, _ := json.Marshal(res)
	if err := os.WriteFile(os.Getenv("VS_OUT"), b, 0o644); err != nil {
		t.Fatal(err)
	}
}
