package shmipc

// Binding B2 for BytePipe (C06, C08): every history (path of BytePipe's state graph up to a bound) is executed on a REAL
// stream of a vpPair; every returned byte, every Len() and every live zero-copy view is compared with the spec.

import (
	"encoding/json"
	"fmt"
	"os"
	"testing"
)

type bpEdge struct {
	Src, Dst int
	Op       string
	Dir      string
	N        int
	Start    int
	Cnt      int
	Exp      *bpExp // expected slice-level structure after the call (LinkedBuffer.tla), nil for BytePipe graphs
}

// slice-level structure: what LinkedBuffer.tla predicts and what the real buffers show
type bpExp struct {
	Free   []int   `json:"free"`
	Ws     [][]int `json:"ws"` // writer slices [class, w]
	Wi     int     `json:"wi"`
	Rs     [][]int `json:"rs"` // reader slices [class, r, w]
	Rwi    int     `json:"rwi"`
	Pinned []int   `json:"pinned"`
	Cur    bool    `json:"cur"`
	Spare  int     `json:"spare"`
}

type bpConf struct {
	Name     string   `json:"name"`
	Sizes    []uint32 `json:"sizes"`
	Percents []uint32 `json:"percents"`
	Mem      int      `json:"mem"`
	Leave    int      `json:"leave"` // -1: no exhaustion; k: only k allocatable buffers left per class
}

type bpJob struct {
	Edges     [][]interface{} `json:"edges"` // [src, dst, op, dir, n, start, cnt]
	Init      int             `json:"init"`
	MaxPaths  int             `json:"max_paths"`
	Confs     []bpConf        `json:"confs"`
	Histories [][]int         `json:"histories"` // explicit histories as lists of edge indexes (simulation / replay)
	KnownLen  bool            `json:"known_len"` // listed known finding: Len() excludes delivered-but-unmoved data
	Stride    int             `json:"stride"`    // enumerate every stride-th maximal path (1 = all)
	Offset    int             `json:"offset"`
}

type bpViolation struct {
	Property string   `json:"property"`
	Kind     string   `json:"kind"`
	Detail   string   `json:"detail"`
	Conf     bpConf   `json:"conf"`
	History  []string `json:"history"`
	Edges    []int    `json:"edges"`
}

type bpResult struct {
	StructChecks int      `json:"struct_checks"`
	Conforming   int      `json:"struct_conforming_histories"`
	DriftCount   int      `json:"drift_count"`
	Drift        []string `json:"drift"`
	Histories   int           `json:"histories"`
	Executions  int           `json:"executions"`
	Ops         int           `json:"ops"`
	ViewsKept   int           `json:"views_checked"`
	LenChecks   int           `json:"len_checks"`
	LeakChecks  int           `json:"leak_checks"`
	KnownLen    int           `json:"known_len_hits"`
	KnownLenWit string        `json:"known_len_witness"`
	Violations  []bpViolation `json:"violations"`
	Samples     []string      `json:"samples"`
	Fallbacks   int           `json:"fallback_messages"`
	Panics      int           `json:"panics"`
}

func bpVal(dir string, pos int) byte {
	if dir == "ab" {
		return byte(1 + pos%199)
	}
	return byte(255 - pos%197)
}

type bpView struct {
	data  []byte
	dir   string
	start int
}

type bpRun struct {
	pair   *vpPair
	conf   bpConf
	held   []*bufferSlice
	sA, sB *Stream
	views  map[string][]bpView
	viol   *bpViolation
	res    *bpResult
	job    *bpJob
	w, f   map[string]int
	r      map[string]int
	drifted bool
}

func (x *bpRun) fail(prop, kind, detail string) {
	if x.viol == nil {
		x.viol = &bpViolation{Property: prop, Kind: kind, Detail: detail, Conf: x.conf}
	}
}

func (x *bpRun) writer(dir string) *Stream {
	if dir == "ab" {
		return x.sA
	}
	return x.sB
}
func (x *bpRun) reader(dir string) *Stream {
	if dir == "ab" {
		return x.sB
	}
	return x.sA
}

func (x *bpRun) scribble() {
	bm := x.pair.A.bufferManager
	var got []*bufferSlice
	for _, l := range bm.lists {
		for {
			s, err := l.pop()
			if err != nil {
				break
			}
			for i := range s.data {
				s.data[i] = 0xA5
			}
			got = append(got, s)
		}
	}
	for _, s := range got {
		bm.recycleBuffer(s)
	}
}

func (x *bpRun) checkViews(when string) {
	for dir, vs := range x.views {
		for _, v := range vs {
			for i := range v.data {
				if v.data[i] != bpVal(dir, v.start+i) {
					x.fail("C08", "view-invalidated", fmt.Sprintf("zero-copy result for bytes [%d,%d) of direction %s changed at offset %d (%s): got %d want %d", v.start, v.start+len(v.data), dir, i, when, v.data[i], bpVal(dir, v.start+i)))
					return
				}
			}
			x.res.ViewsKept++
		}
	}
}

func (x *bpRun) pendingBytes(s *Stream) int {
	n := 0
	s.pendingData.Lock()
	for _, wr := range s.pendingData.unread {
		if wr.fallbackSlice != nil {
			n += wr.fallbackSlice.size()
			continue
		}
		for off := wr.offset; ; {
			sl, err := s.session.bufferManager.readBufferSlice(off)
			if err != nil {
				break
			}
			n += sl.size()
			hn, next := sl.hasNext(), sl.nextBufferOffset()
			putBackBufferSlice(sl)
			if !hn {
				break
			}
			off = next
		}
	}
	s.pendingData.Unlock()
	return n
}

func (x *bpRun) checkLen(dir string, when string) {
	rd := x.reader(dir)
	if rd == nil {
		return
	}
	want := x.f[dir] - x.r[dir]
	got := rd.BufferReader().Len()
	x.res.LenChecks++
	if got == want {
		return
	}
	if pend := x.pendingBytes(rd); pend > 0 && got == want-pend {
		x.res.KnownLen++
		if x.res.KnownLenWit == "" {
			x.res.KnownLenWit = fmt.Sprintf("%s: Len()=%d but %d bytes flushed and not consumed (%d delivered bytes not yet moved into the read buffer)", when, got, want, pend)
		}
		if !x.job.KnownLen {
			x.fail("C06", "len-excludes-pending", x.res.KnownLenWit)
		}
		return
	}
	x.fail("C06", "len", fmt.Sprintf("%s: Len()=%d, flushed-consumed=%d", when, got, want))
}

func (x *bpRun) classOf(sl *bufferSlice) int {
	if !sl.isFromShm {
		return 0
	}
	for i, l := range x.pair.A.bufferManager.lists {
		if *l.capPerBuffer == sl.cap {
			return i + 1
		}
	}
	return -1
}

// project: the real slice-level structure of the writer's send buffer and the reader's read buffer
func (x *bpRun) project() *bpExp {
	e := &bpExp{Ws: [][]int{}, Rs: [][]int{}, Pinned: []int{}}
	for _, l := range x.pair.A.bufferManager.lists {
		e.Free = append(e.Free, int(*l.size))
	}
	if ws := x.writer("ab"); ws != nil {
		i := 0
		for sl := ws.sendBuf.sliceList.front(); sl != nil && i < ws.sendBuf.sliceList.size(); sl = sl.next() {
			i++
			e.Ws = append(e.Ws, []int{x.classOf(sl), sl.writeIndex})
			if sl == ws.sendBuf.sliceList.writeSlice {
				e.Wi = i
			}
		}
	}
	if rd := x.reader("ab"); rd != nil {
		i := 0
		for sl := rd.recvBuf.sliceList.front(); sl != nil && i < rd.recvBuf.sliceList.size(); sl = sl.next() {
			i++
			e.Rs = append(e.Rs, []int{x.classOf(sl), sl.readIndex, sl.writeIndex})
			if sl == rd.recvBuf.sliceList.writeSlice {
				e.Rwi = i
			}
		}
		// (a slice moved to the pinned list keeps its old successor pointer: walk by the list's own length)
		n := rd.recvBuf.pinnedList.size()
		for sl := rd.recvBuf.pinnedList.front(); sl != nil && n > 0; sl, n = sl.next(), n-1 {
			e.Pinned = append(e.Pinned, x.classOf(sl))
		}
		e.Cur = rd.recvBuf.currentPinned
		if rd.sendBuf.sliceList.size() == 1 && rd.sendBuf.Len() == 0 {
			e.Spare = x.classOf(rd.sendBuf.sliceList.front())
		}
	}
	return e
}

func (x *bpRun) expect(dir string, start int, got []byte, what string) {
	for i := range got {
		if got[i] != bpVal(dir, start+i) {
			x.fail("C06", "bytes", fmt.Sprintf("%s: byte %d of the result is %d, want %d (stream position %d, direction %s)", what, i, got[i], bpVal(dir, start+i), start+i, dir))
			return
		}
	}
}

func (x *bpRun) op(e bpEdge) {
	x.res.Ops++
	what := fmt.Sprintf("%s(%s,%d)", e.Op, e.Dir, e.N)
	switch e.Op {
	case "ReadBytes", "Peek", "Discard", "ReadString", "Read":
		if x.reader(e.Dir) == nil {
			// zero-size call before the reading end of the stream exists (nothing has arrived yet): nothing to call
			return
		}
	}
	switch e.Op {
	case "WriteBytes", "Reserve", "WriteByte", "WriteString":
		ws := x.writer(e.Dir)
		if ws == nil {
			x.fail("C06", "harness", "writer stream missing for "+what)
			return
		}
		data := make([]byte, e.N)
		for i := range data {
			data[i] = bpVal(e.Dir, e.Start+i)
		}
		bw := ws.BufferWriter()
		before := bw.Len()
		switch e.Op {
		case "WriteBytes":
			n, err := bw.WriteBytes(data)
			if err != nil || n != e.N {
				x.fail("C06", "write", fmt.Sprintf("%s returned (%d,%v)", what, n, err))
			}
		case "Reserve":
			b, err := bw.Reserve(e.N)
			if err != nil || len(b) != e.N {
				x.fail("C06", "write", fmt.Sprintf("%s returned (len %d,%v)", what, len(b), err))
				return
			}
			copy(b, data)
		case "WriteByte":
			if err := bw.WriteByte(data[0]); err != nil {
				x.fail("C06", "write", fmt.Sprintf("%s returned %v", what, err))
			}
		case "WriteString":
			if err := bw.WriteString(string(data)); err != nil {
				x.fail("C06", "write", fmt.Sprintf("%s returned %v", what, err))
			}
		}
		if bw.Len() != before+e.N {
			x.fail("C06", "writer-len", fmt.Sprintf("%s: writer Len %d -> %d", what, before, bw.Len()))
		}
		x.w[e.Dir] += e.N
	case "Flush":
		ws := x.writer(e.Dir)
		if !ws.sendBuf.isFromShareMemory() || ws.inFallbackState {
			x.res.Fallbacks++
		}
		if err := ws.Flush(false); err != nil {
			x.fail("C06", "flush", fmt.Sprintf("%s returned %v", what, err))
			return
		}
		if err := x.pair.settle(); err != nil {
			x.fail("C06", "settle", err.Error())
			return
		}
		x.f[e.Dir] += x.w[e.Dir]
		x.w[e.Dir] = 0
		if e.Dir == "ab" && x.sB == nil {
			if len(x.pair.newStreamsB) == 0 {
				x.fail("C06", "no-stream", "server side did not surface the stream after the first message")
				return
			}
			x.sB = x.pair.newStreamsB[len(x.pair.newStreamsB)-1]
		}
	case "ReadBytes", "Peek":
		rd := x.reader(e.Dir)
		var b []byte
		var err error
		if e.Op == "ReadBytes" {
			b, err = rd.BufferReader().ReadBytes(e.N)
		} else {
			b, err = rd.BufferReader().Peek(e.N)
		}
		if err != nil || len(b) != e.N {
			x.fail("C06", "read", fmt.Sprintf("%s returned (len %d,%v), want %d bytes", what, len(b), err, e.N))
			return
		}
		x.expect(e.Dir, e.Start, b, what)
		x.views[e.Dir] = append(x.views[e.Dir], bpView{data: b, dir: e.Dir, start: e.Start})
		if e.Op == "ReadBytes" {
			x.r[e.Dir] += e.N
		}
	case "Discard":
		n, err := x.reader(e.Dir).BufferReader().Discard(e.N)
		if err != nil || n != e.N {
			x.fail("C06", "read", fmt.Sprintf("%s returned (%d,%v)", what, n, err))
		}
		x.r[e.Dir] += e.N
	case "ReadString":
		s, err := x.reader(e.Dir).BufferReader().ReadString(e.N)
		if err != nil || len(s) != e.N {
			x.fail("C06", "read", fmt.Sprintf("%s returned (len %d,%v)", what, len(s), err))
			return
		}
		x.expect(e.Dir, e.Start, []byte(s), what)
		x.r[e.Dir] += e.N
	case "ReadByte":
		b, err := x.reader(e.Dir).BufferReader().ReadByte()
		if err != nil {
			x.fail("C06", "read", fmt.Sprintf("%s returned %v", what, err))
			return
		}
		x.expect(e.Dir, e.Start, []byte{b}, what)
		x.r[e.Dir]++
	case "Read":
		buf := make([]byte, e.N)
		n, err := x.reader(e.Dir).Read(buf)
		avail := x.f[e.Dir] - x.r[e.Dir]
		max := e.N
		if avail < max {
			max = avail
		}
		if e.N == 0 {
			// io.Reader: len(p) == 0 returns 0, nil
			if err != nil || n != 0 {
				x.fail("C06", "read", fmt.Sprintf("%s returned (%d,%v)", what, n, err))
			}
			return
		}
		if err != nil || n < 1 || n > max {
			x.fail("C06", "read", fmt.Sprintf("%s returned (%d,%v) with %d bytes available", what, n, err, avail))
			return
		}
		x.expect(e.Dir, e.Start, buf[:n], what)
		x.r[e.Dir] += n
	case "Release":
		if rd := x.reader(e.Dir); rd != nil { // the reading end exists once the first message has arrived
			rd.BufferReader().ReleasePreviousRead()
		}
		x.views[e.Dir] = nil
	case "Reuse":
		if rd := x.reader(e.Dir); rd != nil {
			rd.ReleaseReadAndReuse()
		}
		x.views[e.Dir] = nil
	}
	if x.viol != nil {
		return
	}
	// C08: everything that may be reused is reused now; live views must not notice
	x.scribble()
	x.checkViews("after " + what)
	// C06: Len = flushed - consumed, for every direction whose reader exists
	for d := range x.f {
		x.checkLen(d, "after "+what)
	}
	if e.Exp != nil && !x.drifted {
		x.res.StructChecks++
		got := x.project()
		jg, _ := json.Marshal(got)
		je, _ := json.Marshal(e.Exp)
		if string(jg) != string(je) {
			x.drifted = true
			x.res.DriftCount++
			if len(x.res.Drift) < 5 {
				x.res.Drift = append(x.res.Drift, fmt.Sprintf("[%s] after %s: real %s spec %s", x.conf.Name, what, jg, je))
			}
		}
	}
}

// runHistory executes one history on a fresh stream of the (reused) pair.
func (x *bpRun) runHistory(edges []bpEdge) {
	x.drifted = false
	defer func() {
		if len(edges) > 0 && edges[0].Exp != nil && !x.drifted && x.viol == nil {
			x.res.Conforming++
		}
	}()
	x.views = map[string][]bpView{}
	x.w, x.f, x.r = map[string]int{"ab": 0}, map[string]int{"ab": 0}, map[string]int{"ab": 0}
	for _, e := range edges {
		if e.Dir == "ba" {
			x.w["ba"], x.f["ba"], x.r["ba"] = 0, 0, 0
			break
		}
	}
	var err error
	x.sA, err = x.pair.A.OpenStream()
	x.sB = nil
	if err != nil {
		x.fail("C06", "harness", "OpenStream: "+err.Error())
		return
	}
	base := len(x.held)
	for _, e := range edges {
		x.op(e)
		if x.viol != nil {
			return
		}
	}
	// end of history. C08: once everything flushed has been consumed and released, no buffer stays allocated
	quiet := true
	for d := range x.f {
		if x.w[d] != 0 || x.f[d] != x.r[d] {
			quiet = false
		}
	}
	if quiet {
		for d := range x.f {
			if rd := x.reader(d); rd != nil {
				rd.BufferReader().ReleasePreviousRead()
			}
		}
		x.views = map[string][]bpView{}
		x.res.LeakChecks++
		// ReleaseReadAndReuse keeps (by design) the last read buffer as the stream's next write buffer: at most one
		// empty reserved slice per stream may stay allocated; it must come back when the stream is closed (below)
		reserved := 0
		for _, st := range []*Stream{x.sA, x.sB} {
			if st != nil && st.sendBuf.Len() == 0 && st.sendBuf.sliceList.size() == 1 && st.sendBuf.sliceList.front().isFromShm {
				reserved++
			}
		}
		if used := x.pair.inUse(x.pair.A); used != base && used != base+reserved {
			x.fail("C08", "not-returned-after-release", fmt.Sprintf("all data consumed and released but %d buffer(s) are still allocated", used-base))
			return
		}
	}
	// closing the stream releases what is still pinned or unread
	x.sA.Close()
	if x.sB != nil {
		x.sB.Close()
	}
	if err := x.pair.settle(); err != nil {
		x.fail("C06", "settle", err.Error())
		return
	}
	x.res.LeakChecks++
	if used := x.pair.inUse(x.pair.A); used != base {
		x.fail("C08", "not-returned-after-close", fmt.Sprintf("stream closed on both ends but %d buffer(s) are still allocated (live views at close: %d)", used-base, len(x.views["ab"])+len(x.views["ba"])))
	}
}

func TestVS_BytePipe(t *testing.T) {
	var job bpJob
	b, err := os.ReadFile(os.Getenv("VS_IN_JOB"))
	if err != nil {
		t.Skip("no job")
	}
	if err := json.Unmarshal(b, &job); err != nil {
		t.Fatal(err)
	}
	res := &bpResult{Violations: []bpViolation{}, Samples: []string{}, Drift: []string{}}
	defer func() {
		out, _ := json.Marshal(res)
		os.WriteFile(os.Getenv("VS_OUT"), out, 0o644)
	}()
	edges := make([]bpEdge, len(job.Edges))
	outE := map[int][]int{}
	for i, e := range job.Edges {
		edges[i] = bpEdge{Src: int(e[0].(float64)), Dst: int(e[1].(float64)), Op: e[2].(string), Dir: e[3].(string),
			N: int(e[4].(float64)), Start: int(e[5].(float64)), Cnt: int(e[6].(float64))}
		if len(e) > 7 && e[7] != nil {
			raw, _ := json.Marshal(e[7])
			var ex bpExp
			if json.Unmarshal(raw, &ex) == nil {
				edges[i].Exp = &ex
			}
		}
		outE[edges[i].Src] = append(outE[edges[i].Src], i)
	}
	runs := make([]*bpRun, len(job.Confs))
	mkRun := func(ci int) *bpRun {
		c := job.Confs[ci]
		p, err := vpNewPair(vpConfig{Sizes: c.Sizes, Percents: c.Percents, MemSize: c.Mem, QueueCap: 8})
		if err != nil {
			t.Fatalf("pair: %v", err)
		}
		x := &bpRun{pair: p, conf: c, res: res, job: &job}
		if c.Leave >= 0 {
			x.held = p.hog(c.Leave)
		}
		return x
	}
	for i := range runs {
		runs[i] = mkRun(i)
	}
	defer func() {
		for _, x := range runs {
			if x != nil {
				x.pair.destroy()
			}
		}
	}()
	execute := func(path []int) bool {
		h := make([]bpEdge, len(path))
		names := make([]string, len(path))
		for i, ei := range path {
			h[i] = edges[ei]
			names[i] = fmt.Sprintf("%s(%s,%d)", h[i].Op, h[i].Dir, h[i].N)
		}
		res.Histories++
		if len(res.Samples) < 4 && len(path) >= 4 && res.Histories%97 == 1 {
			res.Samples = append(res.Samples, fmt.Sprint(names))
		}
		for ci, x := range runs {
			x.viol = nil
			func() {
				defer func() {
					if r := recover(); r != nil {
						res.Panics++
						x.fail("C06", "panic", fmt.Sprint(r))
					}
				}()
				x.runHistory(h)
			}()
			res.Executions++
			if x.viol != nil {
				x.viol.History = names
				x.viol.Edges = path
				res.Violations = append(res.Violations, *x.viol)
				// the pair may be in any state now: replace it
				x.pair.destroy()
				runs[ci] = mkRun(ci)
				if len(res.Violations) >= 4 {
					return false
				}
			}
		}
		return true
	}
	for _, h := range job.Histories {
		if !execute(h) {
			return
		}
	}
	if job.MaxPaths != 0 {
		count := 0
		var path []int
		var dfs func(n int) bool
		dfs = func(n int) bool {
			es := outE[n]
			if len(es) == 0 {
				count++
				if job.Stride > 1 && (count+job.Offset)%job.Stride != 0 {
					return true
				}
				if job.MaxPaths > 0 && res.Histories >= job.MaxPaths {
					return false
				}
				return execute(append([]int(nil), path...))
			}
			for _, ei := range es {
				path = append(path, ei)
				ok := dfs(edges[ei].Dst)
				path = path[:len(path)-1]
				if !ok {
					return false
				}
			}
			return true
		}
		dfs(job.Init)
	}
}
