package shmipc

// Binding for module Lifecycle (C14).
//
// mode "manual": behaviours of Lifecycle.tla (Atomic = TRUE) are replayed step by step on a pair of REAL sessions created
//   by the real newSession over a real unix socket (real handshake, real /dev/shm files or memfds, real global buffer
//   manager, real connEventHandler doing the real read/write syscalls, real dispatcher post/runLambda, real
//   Close/exitErr/teardown).  The only thing replaced is the goroutine that turns the event loop: each end has its own
//   epollDispatcher whose loop body (epoll_wait(0) + handleEvent, and runLambda) is executed by the harness when the
//   spec says Events / Lambdas, so that user calls can be placed between "the loop saw the hang-up", "the teardown lambda
//   ran" and "the descriptor was closed".  After every procedure the observable state of the real survivor is compared
//   with the spec state; the property oracles are evaluated on the real objects independently of the spec.
// mode "real": the untouched default dispatcher (real epoll goroutine).  The peer is another real session in this
//   process (connection severed with shutdown(2)) or a CHILD PROCESS (this test binary re-executed) that is SIGKILLed
//   at the crash point.  No step comparison (the loop is free running), oracles only.
//
// Witnesses of the finding classes: raw manual schedules (settle after every step), one gate-staged interleaving inside
// Session.Close (needs the build instrumented by tools/instr), and two that kill the process they run in and are therefore
// executed in a child process (write into a BufferWriter after the teardown; Flush parked inside queue.put while the
// teardown unmaps the queue).
//
// Oracles (VIOLATION): survivor not closed after the hang-up was handled; a pending call that does not return or returns
// success; a later call that succeeds or returns (nil, nil); a stream without / with more than one close callback; Close
// not idempotent; panic; a goroutine of the session still running; descriptor / mapping / file of the session left when
// both ends are closed.

import (
	"bufio"
	"encoding/json"
	"fmt"
	"io"
	"net"
	"os"
	"os/exec"
	"path/filepath"
	"runtime"
	"runtime/debug"
	"sort"
	"strconv"
	"strings"
	"sync"
	"sync/atomic"
	"testing"
	"time"
	"unsafe"

	lcunix "golang.org/x/sys/unix"
)

// ---------------------------------------------------------------------------------------------------------------
// job / result

type lcExp struct {
	Shutdown int      `json:"shutdown"`
	Serr     string   `json:"serr"`
	ShutCh   bool     `json:"shutch"`
	Lambdas  int      `json:"lambdas"`
	Conn     string   `json:"conn"`
	St       []string `json:"st"`
	InTable  []bool   `json:"intable"`
	TableNil bool     `json:"tablenil"`
	Notified []bool   `json:"notified"`
	CbBusy   []bool   `json:"cbbusy"`
	CbL      []int    `json:"cbl"`
	CbR      []int    `json:"cbr"`
	Unread   []int    `json:"unread"`
	Rd       []string `json:"rd"`
	Fl       string   `json:"fl"`
	Acc      string   `json:"acc"`
	Bm       string   `json:"bm"`
	Qm       string   `json:"qm"`
	Flag     int      `json:"flag"`
	LastOpen string   `json:"lastopen"`
	LastSend string   `json:"lastsend"`
	Out      []string `json:"out"`
	NsBusy   bool     `json:"nsbusy"`
	Fr       string   `json:"fr"`
	LastSeq  string   `json:"lastseq"`
}

type lcStep struct {
	A    string   `json:"a"`
	S    int      `json:"s"`
	T    string   `json:"t"`
	X    *lcExp   `json:"x"`    // expected state (compare point) or nil
	Alts []*lcExp `json:"alts"` // other outcomes the spec allows here (order in which the teardown walks the stream table)
	Kf   []string `json:"kf"`   // known-finding classes the spec execution belongs to after this step
}

type lcSchedule struct {
	Name    string   `json:"name"`
	Steps   []lcStep `json:"steps"`
	Role    string   `json:"role"`    // survivor: "client" | "server"
	Mem     string   `json:"mem"`     // "file" | "memfd"
	Streams int      `json:"streams"` // number of spec streams
	Cb      []int    `json:"cb"`      // spec stream numbers (1-based) in callback mode
	Late    []int    `json:"late"`    // spec stream numbers that do not exist at the start (opened by the peer in DrainBegin)
	Peer    string   `json:"peer"`    // real mode: "inproc" | "child"
	End     string   `json:"end"`     // real mode, child peer still alive at the end: "kill" | "close"
	Gate    string   `json:"gate"`    // witness schedules: name of a staged interleaving
	Raw     bool     `json:"raw"`     // witness schedules without expected states: settle after every step
}

type lcJob struct {
	Mode      string       `json:"mode"`
	Schedules []lcSchedule `json:"schedules"`
	Known     []string     `json:"known"`
	Workers   int          `json:"workers"`
	WaitMs    int          `json:"wait_ms"`
	StopAfter int          `json:"stop_after"` // stop starting behaviours once this many have shown an unlisted violation
}

type lcViolation struct {
	Kind     string `json:"kind"`
	Detail   string `json:"detail"`
	Schedule string `json:"schedule"`
	Step     int    `json:"step"`
	Known    string `json:"known"` // slug when the execution belongs to a known-finding class
}

type lcSchedResult struct {
	Name       string        `json:"name"`
	Steps      int           `json:"steps"`
	Compared   int           `json:"compared"`
	Conforming bool          `json:"conforming"`
	Drift      string        `json:"drift"`
	NdDiverged bool          `json:"nd_diverged"`
	Violations []lcViolation `json:"violations"`
	Harness    string        `json:"harness"` // harness problem (not a verdict)
	Census     int           `json:"census_checks"`
	Later      int           `json:"later_checks"`
	Pending    int           `json:"pending_checks"`
	KfSeen     []string      `json:"kf_seen"`
	Ms         int64         `json:"ms"`
}

type lcResult struct {
	Goroutines int             `json:"goroutines_end"`
	Mode       string          `json:"mode"`
	Results    []lcSchedResult `json:"results"`
	Samples    []string        `json:"samples"`
}

var lcSeq int64
var lcWait = 8 * time.Second

// ---------------------------------------------------------------------------------------------------------------
// harness-driven dispatcher (manual mode)

type lcDisp struct{ *epollDispatcher }

func (d lcDisp) runLoop() error {
	fd, err := lcunix.EpollCreate1(0)
	if err != nil {
		return err
	}
	d.epollFd = fd
	return nil
}

func lcNewDispatcher() (*epollDispatcher, error) {
	d := newEpollDispatcher()
	fd, err := lcunix.EpollCreate1(0)
	if err != nil {
		return nil, err
	}
	d.epollFd = fd
	return d, nil
}

// the body of epollDispatcher.runLoop, first half: one epoll_wait and the handlers of the ready connections
func lcEvents(d *epollDispatcher) int {
	var events [128]epollEvent
	n, err := epollWait(d.epollFd, events[:], 0)
	if err != nil || n <= 0 {
		return 0
	}
	d.lock.Lock()
	for i := 0; i < n; i++ {
		h := *(**connEventHandler)(unsafe.Pointer(&events[i].data))
		h.handleEvent(int(events[i].events), d)
	}
	d.lock.Unlock()
	return n
}

// move a session's connection from the dispatcher it was created on to its own harness-driven dispatcher
func lcRehome(s *Session, d *epollDispatcher) error {
	h, ok := s.eventConn.(*connEventHandler)
	if !ok {
		return fmt.Errorf("eventConn is %T", s.eventConn)
	}
	old := h.dispatcher
	epollCtl(old.epollFd, lcunix.EPOLL_CTL_DEL, h.fd, nil)
	old.lock.Lock()
	delete(old.conns, h.fd)
	old.lock.Unlock()
	h.dispatcher = d
	s.dispatcher = lcDisp{d}
	return h.setCallback(s)
}

// ---------------------------------------------------------------------------------------------------------------
// census

func lcInode(c net.Conn) uint64 {
	var ino uint64
	if cc, ok := c.(*net.UnixConn); ok {
		if rc, err := cc.SyscallConn(); err == nil {
			rc.Control(func(fd uintptr) {
				var st lcunix.Stat_t
				if lcunix.Fstat(int(fd), &st) == nil {
					ino = st.Ino
				}
			})
		}
	}
	return ino
}

func lcCensus(tag string, inodes map[uint64]bool) []string {
	out := []string{}
	if b, err := os.ReadFile("/proc/self/maps"); err == nil {
		for _, ln := range strings.Split(string(b), "\n") {
			if strings.Contains(ln, tag) {
				f := strings.Fields(ln)
				if len(f) > 5 {
					out = append(out, "map:"+strings.Join(f[5:], " "))
				}
			}
		}
	}
	if ents, err := os.ReadDir("/proc/self/fd"); err == nil {
		for _, e := range ents {
			lk, err := os.Readlink("/proc/self/fd/" + e.Name())
			if err != nil {
				continue
			}
			if strings.Contains(lk, tag) {
				out = append(out, "fd:"+lk)
			} else if strings.HasPrefix(lk, "socket:[") {
				n, _ := strconv.ParseUint(strings.TrimSuffix(strings.TrimPrefix(lk, "socket:["), "]"), 10, 64)
				if inodes[n] {
					out = append(out, "sock:"+lk)
				}
			}
		}
	}
	if m, err := filepath.Glob("/dev/shm/" + tag + "*"); err == nil {
		for _, f := range m {
			out = append(out, "file:"+f)
		}
	}
	sort.Strings(out)
	return out
}

// goroutines whose stack mentions one of the given session pointers
func lcGoroutinesOf(ptrs []string) []string {
	buf := make([]byte, 1<<20)
	for {
		n := runtime.Stack(buf, true)
		if n < len(buf) {
			buf = buf[:n]
			break
		}
		buf = make([]byte, 2*len(buf))
	}
	out := []string{}
	for _, g := range strings.Split(string(buf), "\n\n") {
		if strings.Contains(g, "lcGoroutinesOf") {
			continue
		}
		for _, p := range ptrs {
			if strings.Contains(g, "shmipc-go.(*Session)") && strings.Contains(g, p) {
				lines := strings.Split(g, "\n")
				top := ""
				for _, l := range lines[1:] {
					if !strings.HasPrefix(l, "\t") {
						top += strings.TrimSpace(l) + " < "
					}
					if len(top) > 400 {
						break
					}
				}
				out = append(out, top)
				break
			}
		}
	}
	return out
}

// ---------------------------------------------------------------------------------------------------------------
// world

type lcCall struct {
	name     string
	done     chan struct{}
	res      string
	panicVal string
}

func (c *lcCall) finished() bool {
	select {
	case <-c.done:
		return true
	default:
		return false
	}
}

type lcCb struct {
	entered   int32
	release   chan struct{}
	l, r      int32
	calls     int32
	sess      *Session
	overClose int32 // classifier of no-close-callback-when-busy: OnData was running when the session was shut down
}

func (c *lcCb) OnData(reader BufferReader) {
	atomic.AddInt32(&c.calls, 1)
	atomic.StoreInt32(&c.entered, 1)
	<-c.release
	if c.sess != nil && c.sess.IsClosed() {
		atomic.StoreInt32(&c.overClose, 1)
	}
	if n := reader.Len(); n > 0 {
		reader.ReadBytes(n)
		reader.ReleasePreviousRead()
	}
	atomic.StoreInt32(&c.entered, 0)
}
func (c *lcCb) OnLocalClose()  { atomic.AddInt32(&c.l, 1) }
func (c *lcCb) OnRemoteClose() { atomic.AddInt32(&c.r, 1) }

// ListenCallback of a server survivor with late streams: OnNewStream of the FIRST late stream blocks the event loop (it is
// called from inside handlePolling's drain) until NsRelease
type lcListen struct{ w *lcWorld }

func (l *lcListen) OnNewStream(st *Stream) {
	w := l.w
	w.mu.Lock()
	k := w.lateGot
	w.lateGot++
	if k < len(w.sc.Late) {
		w.svStr[w.sc.Late[k]-1] = st
	}
	w.mu.Unlock()
	if k == 0 {
		atomic.StoreInt32(&w.nsEntered, 1)
		<-w.nsRelease
		atomic.StoreInt32(&w.nsEntered, 0)
	}
}
func (l *lcListen) OnShutdown(reason string) {}

func (w *lcWorld) isLate(i int) bool {
	for _, l := range w.sc.Late {
		if l-1 == i {
			return true
		}
	}
	return false
}

func (w *lcWorld) stream(i int) *Stream {
	w.mu.Lock()
	defer w.mu.Unlock()
	return w.svStr[i]
}

type lcChild struct {
	cmd  *exec.Cmd
	in   io.WriteCloser
	out  *bufio.Reader
	dead bool
}

type lcWorld struct {
	sc        *lcSchedule
	mode      string
	tag       string
	dir       string
	sv, pr    *Session // survivor under test, in-process peer (nil with a child peer)
	dS, dP    *epollDispatcher
	svStr     []*Stream // index 0..n-1 = spec streams 1..n, index n = the stream of the parked fallback flush
	prStr     []*Stream
	isCb      []bool
	cbs       []*lcCb
	mu        sync.Mutex
	calls     map[string]*lcCall
	rdRes     []string
	flRes     string
	accRes    string
	lastOpen  string
	lastSend  string
	inodes    map[uint64]bool
	linkDown  bool
	hupSeen   bool
	child     *lcChild
	res       *lcSchedResult
	known     map[string]bool
	kf        map[string]bool
	baseRef   int32
	svPtr     string
	prPtr     string
	cbClosed  bool
	flStable  int
	frRes     string        // Flush inside the queue-full retry loop: idle | parked | err | ok | panic
	seqRes    string        // writer call sequences on a shut-down session: none | ok | fault...
	extra     []*Stream     // streams registered late through a staged window
	lateGot   int           // streams handed to OnNewStream so far
	nsEntered int32         // the event loop is inside OnNewStream of the first late stream
	nsRelease chan struct{} // closed by NsRelease
	nsOnce    sync.Once
	unflushed []bool // the user has written data into the stream's BufferWriter that no Flush has taken yet
}

func (w *lcWorld) violate(kind, detail string, step int) {
	v := lcViolation{Kind: kind, Detail: detail, Schedule: w.sc.Name, Step: step}
	w.mu.Lock()
	w.res.Violations = append(w.res.Violations, v)
	w.mu.Unlock()
}

// violations that do not belong to a known-finding class
func (w *lcWorld) unclassified() int {
	w.mu.Lock()
	defer w.mu.Unlock()
	n := 0
	for _, v := range w.res.Violations {
		if v.Known == "" {
			n++
		}
	}
	return n
}

func (w *lcWorld) goCall(name string, f func() string) *lcCall {
	c := &lcCall{name: name, done: make(chan struct{})}
	w.mu.Lock()
	w.calls[name] = c
	w.mu.Unlock()
	go func() {
		debug.SetPanicOnFault(true)
		defer func() {
			if r := recover(); r != nil {
				buf := make([]byte, 4096)
				buf = buf[:runtime.Stack(buf, false)]
				c.panicVal = fmt.Sprintf("%v\n%s", r, buf)
				c.res = "panic"
			}
			close(c.done)
		}()
		c.res = f()
	}()
	return c
}

func (w *lcWorld) outstanding() []string {
	w.mu.Lock()
	defer w.mu.Unlock()
	out := []string{}
	for n, c := range w.calls {
		if !c.finished() && (n == "loop" || n == "w" || strings.HasPrefix(n, "c")) {
			out = append(out, n)
		}
	}
	sort.Strings(out)
	return out
}

func lcConfig(tag, mem string) *Config {
	cfg := DefaultConfig()
	cfg.QueuePath = "/dev/shm/" + tag + "_q"
	cfg.ShareMemoryPathPrefix = "/dev/shm/" + tag + "_b"
	cfg.ShareMemoryBufferCap = 1 << 20
	cfg.QueueCap = 64
	cfg.InitializeTimeout = 20 * time.Second
	cfg.ConnectionWriteTimeout = 120 * time.Second
	cfg.LogOutput = io.Discard
	cfg.BufferSliceSizes = []*SizePercentPair{{Size: 4096, Percent: 100}}
	if mem == "memfd" {
		cfg.MemMapType = MemMapTypeMemFd
	} else {
		cfg.MemMapType = MemMapTypeDevShmFile
	}
	return cfg
}

func lcConnPair(dir, tag string) (c, s net.Conn, err error) {
	sock := filepath.Join(dir, tag+".sock")
	ln, err := net.Listen("unix", sock)
	if err != nil {
		return nil, nil, err
	}
	defer func() {
		ln.Close()
		os.Remove(sock)
	}()
	ch := make(chan error, 1)
	go func() {
		var e error
		s, e = ln.Accept()
		ch <- e
	}()
	if c, err = net.DialTimeout("unix", sock, 20*time.Second); err != nil {
		return nil, nil, err
	}
	if err = <-ch; err != nil {
		c.Close()
		return nil, nil, err
	}
	return c, s, nil
}

var lcCreateMu sync.Mutex

// both ends in this process
func (w *lcWorld) setupPair() error {
	cconn, sconn, err := lcConnPair(w.dir, w.tag)
	if err != nil {
		return err
	}
	w.inodes[lcInode(cconn)] = true
	w.inodes[lcInode(sconn)] = true
	var cl, sv *Session
	var cerr, serr error
	var wg sync.WaitGroup
	wg.Add(2)
	go func() { defer wg.Done(); cl, cerr = newSession(lcConfig(w.tag, w.sc.Mem), cconn, true) }()
	go func() { defer wg.Done(); sv, serr = newSession(lcConfig(w.tag, w.sc.Mem), sconn, false) }()
	wg.Wait()
	if cerr != nil || serr != nil {
		return fmt.Errorf("newSession: client %v server %v", cerr, serr)
	}
	if w.mode == "manual" {
		dc, err := lcNewDispatcher()
		if err != nil {
			return err
		}
		ds, err := lcNewDispatcher()
		if err != nil {
			return err
		}
		if err := lcRehome(cl, dc); err != nil {
			return err
		}
		if err := lcRehome(sv, ds); err != nil {
			return err
		}
		if w.sc.Role == "client" {
			w.dS, w.dP = dc, ds
		} else {
			w.dS, w.dP = ds, dc
		}
	}
	n := w.sc.Streams + 1
	cs := make([]*Stream, n)
	ss := make([]*Stream, n)
	for i := 0; i < n; i++ {
		if w.isLate(i) {
			continue
		}
		st, err := cl.OpenStream()
		if err != nil {
			return err
		}
		cs[i] = st
		st.BufferWriter().WriteString("o")
		if err := st.Flush(false); err != nil {
			return fmt.Errorf("setup flush: %v", err)
		}
		if w.mode == "manual" {
			lcEvents(sv.eventConn.(*connEventHandler).dispatcher)
		}
		acc := make(chan *Stream, 1)
		go func() {
			a, _ := sv.AcceptStream()
			acc <- a
		}()
		select {
		case a := <-acc:
			if a == nil {
				return fmt.Errorf("setup accept failed")
			}
			ss[i] = a
		case <-time.After(20 * time.Second):
			return fmt.Errorf("setup: stream %d not accepted", i)
		}
		if _, err := ss[i].BufferReader().ReadBytes(1); err != nil {
			return fmt.Errorf("setup read: %v", err)
		}
		ss[i].BufferReader().ReleasePreviousRead()
	}
	if w.sc.Role == "client" {
		w.sv, w.pr, w.svStr, w.prStr = cl, sv, cs, ss
	} else {
		w.sv, w.pr, w.svStr, w.prStr = sv, cl, ss, cs
	}
	return w.afterSetup()
}

func (w *lcWorld) afterSetup() error {
	n := w.sc.Streams
	w.isCb = make([]bool, n)
	w.cbs = make([]*lcCb, n)
	for _, c := range w.sc.Cb {
		w.isCb[c-1] = true
		w.cbs[c-1] = &lcCb{release: make(chan struct{}, 64), sess: w.sv}
		if err := w.svStr[c-1].SetCallbacks(w.cbs[c-1]); err != nil {
			return err
		}
	}
	// every stream carries written, not yet flushed data from now on: "Flush fails later" is only meaningful with data
	w.unflushed = make([]bool, n)
	w.nsRelease = make(chan struct{})
	if len(w.sc.Late) > 0 {
		if w.sv.isClient || w.pr == nil {
			return fmt.Errorf("late streams need a server survivor with an in-process peer")
		}
		w.sv.config.listenCallback = &lcListen{w}
	}
	for i := 0; i < n; i++ {
		if w.svStr[i] == nil {
			continue
		}
		if err := w.svStr[i].BufferWriter().WriteString("p"); err != nil {
			return err
		}
		w.unflushed[i] = true
	}
	w.rdRes = make([]string, n)
	for i := range w.rdRes {
		w.rdRes[i] = "idle"
	}
	w.flRes, w.accRes, w.lastOpen, w.lastSend = "idle", "idle", "none", "none"
	w.frRes, w.seqRes = "idle", "none"
	w.svPtr = fmt.Sprintf("%p", w.sv)
	if w.pr != nil {
		w.prPtr = fmt.Sprintf("%p", w.pr)
	}
	w.baseRef = w.refCount()
	return nil
}

func (w *lcWorld) refCount() int32 {
	if w.sv.bufferManager == nil {
		return 0
	}
	bufferManagers.Lock()
	defer bufferManagers.Unlock()
	if bm, ok := bufferManagers.bms[w.sv.bufferManager.path]; ok {
		return atomic.LoadInt32(&bm.refCount)
	}
	return 0
}

// the teardown lambda holds shutdownLock for its whole duration (also while it waits for a running callback): never block
// on it; when it cannot be had the holder is the teardown, which does not write the fields read here
func lcLocked(s *Session, f func()) {
	for k := 0; k < 20; k++ {
		if s.shutdownLock.TryLock() {
			f()
			s.shutdownLock.Unlock()
			return
		}
		time.Sleep(100 * time.Microsecond)
	}
	f()
}

func lcErrClass(err error) string {
	switch err {
	case nil:
		return "data"
	case ErrEndOfStream:
		return "eos"
	case ErrStreamClosed:
		return "closed"
	}
	return "other:" + err.Error()
}

func lcChanClosed(ch chan struct{}) bool {
	select {
	case <-ch:
		return true
	default:
		return false
	}
}

// observable state of the survivor, in the vocabulary of the spec
func (w *lcWorld) observe() *lcExp {
	s := w.sv
	n := w.sc.Streams
	x := &lcExp{St: make([]string, n), InTable: make([]bool, n), Notified: make([]bool, n), CbBusy: make([]bool, n),
		CbL: make([]int, n), CbR: make([]int, n), Unread: make([]int, n), Rd: make([]string, n)}
	x.Shutdown = int(atomic.LoadUint32(&s.shutdown))
	qmNil := false
	lcLocked(s, func() {
		switch s.shutdownErr {
		case nil:
			x.Serr = "nil"
		case ErrSessionShutdown:
			x.Serr = "user"
		default:
			x.Serr = "reset"
		}
		qmNil = s.queueManager == nil
	})
	x.ShutCh = lcChanClosed(s.shutdownCh)
	if w.dS != nil {
		w.dS.lambdaLock.Lock()
		x.Lambdas = len(w.dS.pendingLambda)
		w.dS.lambdaLock.Unlock()
	}
	h := s.eventConn.(*connEventHandler)
	if atomic.LoadUint32(&h.isClose) == 0 {
		x.Conn = "open"
	} else {
		h.dispatcher.lock.Lock()
		_, reg := h.dispatcher.conns[h.fd]
		h.dispatcher.lock.Unlock()
		if reg {
			x.Conn = "closing"
		} else {
			x.Conn = "closed"
		}
	}
	x.NsBusy = atomic.LoadInt32(&w.nsEntered) == 1
	strs := make([]*Stream, n)
	w.mu.Lock()
	copy(strs, w.svStr[:n])
	w.mu.Unlock()
	s.streamLock.RLock()
	x.TableNil = s.streams == nil
	for i := 0; i < n; i++ {
		st := strs[i]
		x.InTable[i] = st != nil && s.streams != nil && s.streams[st.id] == st
	}
	s.streamLock.RUnlock()
	for i := 0; i < n; i++ {
		st := strs[i]
		if st == nil {
			x.St[i] = "none"
			continue
		}
		switch streamState(atomic.LoadUint32(&st.state)) {
		case streamOpened:
			x.St[i] = "open"
		case streamHalfClosed:
			x.St[i] = "half"
		default:
			x.St[i] = "closed"
		}
		x.Notified[i] = lcChanClosed(st.closeNotifyCh)
		if w.cbs[i] != nil {
			x.CbBusy[i] = atomic.LoadInt32(&w.cbs[i].entered) == 1
			x.CbL[i] = int(atomic.LoadInt32(&w.cbs[i].l))
			x.CbR[i] = int(atomic.LoadInt32(&w.cbs[i].r))
		}
		st.pendingData.Lock()
		x.Unread[i] = len(st.pendingData.unread) + st.recvBuf.len
		st.pendingData.Unlock()
	}
	w.mu.Lock()
	copy(x.Rd, w.rdRes)
	x.Fl, x.Acc, x.LastOpen, x.LastSend = w.flRes, w.accRes, w.lastOpen, w.lastSend
	for nme, c := range w.calls {
		if !c.finished() {
			continue
		}
		_ = nme
	}
	w.mu.Unlock()
	// results of finished pending calls
	w.collect()
	w.mu.Lock()
	copy(x.Rd, w.rdRes)
	x.Fl, x.Acc, x.LastOpen, x.LastSend = w.flRes, w.accRes, w.lastOpen, w.lastSend
	w.mu.Unlock()
	w.mu.Lock()
	x.Fr, x.LastSeq = w.frRes, w.seqRes
	w.mu.Unlock()
	if x.Fl == "parked" && x.Shutdown == 0 {
		// "parked" only once the send loop really waits for the socket to drain: it holds `writing`, the socket is not
		// writable and the wake-up token has been consumed (otherwise the caller is still copying / still writing chunks)
		hh := s.eventConn.(*connEventHandler)
		pfd := []lcunix.PollFd{{Fd: int32(hh.fd), Events: lcunix.POLLOUT}}
		n, _ := lcunix.Poll(pfd, 0)
		writable := n > 0 && pfd[0].Revents&lcunix.POLLOUT != 0
		if atomic.LoadUint32(&s.writing) == 0 || writable || len(hh.onWriteReadyCh) != 0 {
			x.Fl = "starting"
			w.flStable = 0
		} else if w.flStable < 3 {
			w.flStable++
			x.Fl = "starting"
		}
	}
	// buffer manager reference of this end
	peerDone := int32(0)
	if w.pr != nil {
		lcLocked(w.pr, func() {
			if w.pr.queueManager == nil {
				peerDone = 1
			}
		})
	}
	if w.refCount() == w.baseRef-peerDone {
		x.Bm = "held"
	} else {
		x.Bm = "released"
	}
	if qmNil {
		x.Qm = "unmapped"
		x.Flag = -1
	} else {
		x.Qm = "mapped"
		x.Flag = -1
		lcLocked(s, func() {
			if qm := s.queueManager; qm != nil {
				x.Flag = int(atomic.LoadUint32(qm.sendQueue.workingFlag))
			}
		})
	}
	x.Out = w.outstanding()
	return x
}

// move results of finished calls into the result variables
func (w *lcWorld) collect() {
	w.mu.Lock()
	defer w.mu.Unlock()
	for name, c := range w.calls {
		if !c.finished() {
			continue
		}
		switch {
		case name == "fl":
			w.flRes = c.res
		case name == "acc":
			w.accRes = c.res
		case name == "fr":
			w.frRes = c.res
		case name == "q":
			w.seqRes = c.res
		case name == "w":
			if c.res != "" {
				w.lastSend = c.res
			}
		case strings.HasPrefix(name, "r"):
			i, _ := strconv.Atoi(name[1:])
			w.rdRes[i] = c.res
		}
	}
}

func lcDiff(a, b *lcExp) string {
	ja, _ := json.Marshal(a)
	jb, _ := json.Marshal(b)
	if string(ja) == string(jb) {
		return ""
	}
	var ma, mb map[string]interface{}
	json.Unmarshal(ja, &ma)
	json.Unmarshal(jb, &mb)
	d := []string{}
	for k, va := range ma {
		sa, _ := json.Marshal(va)
		sb, _ := json.Marshal(mb[k])
		if string(sa) != string(sb) {
			d = append(d, fmt.Sprintf("%s: spec %s real %s", k, sa, sb))
		}
	}
	sort.Strings(d)
	return strings.Join(d, "; ")
}

func lcNorm(x *lcExp) *lcExp {
	y := *x
	if y.Out == nil {
		y.Out = []string{}
	}
	if y.Qm == "unmapped" {
		y.Flag = -1
	}
	return &y
}

// wait until the real state equals the expected state (or one of the alternatives); returns index matched or -1 + diff
func (w *lcWorld) waitFor(x *lcExp, alts []*lcExp) (int, string) {
	cands := append([]*lcExp{x}, alts...)
	deadline := time.Now().Add(lcWait)
	diff := ""
	for {
		got := w.observe()
		if got.Qm == "mapped" && x.Flag == -1 {
			got.Flag = -1
		}
		for i, c := range cands {
			cn := lcNorm(c)
			g := *got
			if cn.Flag == -1 {
				g.Flag = -1
			}
			if d := lcDiff(cn, &g); d == "" {
				return i, ""
			} else if i == 0 {
				diff = d
			}
		}
		if time.Now().After(deadline) {
			return -1, diff
		}
		time.Sleep(300 * time.Microsecond)
	}
}

// ---------------------------------------------------------------------------------------------------------------
// actions

func (w *lcWorld) peerSend(i int) string {
	if w.child != nil {
		return w.childCmd(fmt.Sprintf("send %d", i))
	}
	st := w.prStr[i]
	st.BufferWriter().WriteString("x")
	if err := st.Flush(false); err != nil {
		return "err:" + err.Error()
	}
	return ""
}

func (w *lcWorld) peerCloseStream(i int) string {
	if w.child != nil {
		return w.childCmd(fmt.Sprintf("closestream %d", i))
	}
	if err := w.prStr[i].Close(); err != nil {
		return "err:" + err.Error()
	}
	return ""
}

func (w *lcWorld) peerDies() {
	w.linkDown = true
	if w.child != nil {
		w.killChild()
		return
	}
	lcunix.Shutdown(w.pr.connFd, lcunix.SHUT_RDWR)
}

func (w *lcWorld) startRead(i int) {
	st := w.svStr[i]
	w.mu.Lock()
	w.rdRes[i] = "parked"
	w.mu.Unlock()
	w.goCall("r"+strconv.Itoa(i), func() string {
		_, err := st.BufferReader().ReadBytes(1)
		if err == nil {
			st.BufferReader().ReleasePreviousRead()
		}
		return lcErrClass(err)
	})
}

func (w *lcWorld) startAccept() {
	w.mu.Lock()
	w.accRes = "parked"
	w.mu.Unlock()
	w.goCall("acc", func() string {
		st, err := w.sv.AcceptStream()
		if err != nil {
			return "err"
		}
		if st == nil {
			return "nilnil"
		}
		return "ok"
	})
}

func (w *lcWorld) startFlush() {
	w.mu.Lock()
	w.flRes = "parked"
	w.mu.Unlock()
	st := w.svStr[w.sc.Streams]
	if !w.safeToWrite() {
		w.mu.Lock()
		w.flRes = "err"
		w.mu.Unlock()
		return
	}
	w.goCall("fl", func() string {
		big := make([]byte, 6<<20)
		if _, err := st.BufferWriter().WriteBytes(big); err != nil {
			return "writeerr:" + err.Error()
		}
		if err := st.Flush(false); err != nil {
			return "err"
		}
		if !w.sv.IsClosed() {
			// (free-running mode only: the peer's loop read the payload, the call completed while the session was alive)
			return "done"
		}
		return "ok"
	})
}

// D9: the peer is stalled (nobody turns its loop), the user fills the send queue and one more Flush enters the queue-full
// retry loop (stats.queueFullErrorCount tells when)
func (w *lcWorld) startRetryFlush() string {
	st := w.svStr[w.sc.Streams]
	var q *queue
	lcLocked(w.sv, func() {
		if w.sv.queueManager != nil {
			q = w.sv.queueManager.sendQueue
		}
	})
	if q == nil || w.sv.IsClosed() {
		return "session already closed"
	}
	for free := q.cap - q.size(); free > 0; free-- {
		st.BufferWriter().WriteString("q")
		if err := st.Flush(false); err != nil {
			return "filling the queue: " + err.Error()
		}
	}
	before := atomic.LoadUint64(&w.sv.stats.queueFullErrorCount)
	w.mu.Lock()
	w.frRes = "starting"
	w.mu.Unlock()
	w.goCall("fr", func() string {
		st.BufferWriter().WriteString("r")
		err := st.Flush(false)
		if err == nil {
			return "ok"
		}
		return "err"
	})
	for d := time.Now().Add(lcWait); time.Now().Before(d); {
		if atomic.LoadUint64(&w.sv.stats.queueFullErrorCount) > before {
			w.mu.Lock()
			if w.frRes == "starting" {
				w.frRes = "parked"
			}
			w.mu.Unlock()
			return ""
		}
		time.Sleep(100 * time.Microsecond)
	}
	return "the Flush did not enter the queue-full retry loop"
}

// D10: multi-step writer call sequences on a stream of a shut-down session, each followed by Flush (which must fail).
// Every allocation path of the BufferWriter has to stay away from the shared memory (unmapped after the teardown).
var lcWriterSeqs = []struct {
	name string
	run  func(bw BufferWriter) error
}{
	{"Reserve(3000) Reserve(3000)", func(bw BufferWriter) error { bw.Reserve(3000); _, err := bw.Reserve(3000); return err }},
	{"Reserve(5000) Reserve(5000)", func(bw BufferWriter) error { bw.Reserve(5000); _, err := bw.Reserve(5000); return err }},
	{"Reserve(4096) Reserve(1)", func(bw BufferWriter) error { bw.Reserve(4096); _, err := bw.Reserve(1); return err }},
	{"WriteBytes(100) Reserve(4090)", func(bw BufferWriter) error { bw.WriteBytes(make([]byte, 100)); _, err := bw.Reserve(4090); return err }},
	{"Reserve(3000) WriteString(2000)", func(bw BufferWriter) error { bw.Reserve(3000); return bw.WriteString(strings.Repeat("s", 2000)) }},
	{"WriteBytes(10000)", func(bw BufferWriter) error { _, err := bw.WriteBytes(make([]byte, 10000)); return err }},
	{"WriteString(4096) WriteByte WriteByte", func(bw BufferWriter) error {
		bw.WriteString(strings.Repeat("b", 4096))
		bw.WriteByte('x')
		return bw.WriteByte('y')
	}},
	{"Reserve(100) WriteBytes(5000) Reserve(3000) Reserve(3000)", func(bw BufferWriter) error {
		bw.Reserve(100)
		bw.WriteBytes(make([]byte, 5000))
		bw.Reserve(3000)
		_, err := bw.Reserve(3000)
		return err
	}},
}

// runs every sequence on the stream; returns "" or what went wrong ("<sequence>: Flush returned nil")
func lcRunWriterSeqs(st *Stream, progress func(string)) string {
	for _, q := range lcWriterSeqs {
		if progress != nil {
			progress(q.name)
		}
		q.run(st.BufferWriter())
		if err := st.Flush(false); err == nil {
			return q.name + ": the Flush after it returned nil on a closed session"
		}
	}
	return ""
}

func (w *lcWorld) startWriteSeq(i int) {
	st := w.svStr[i]
	w.mu.Lock()
	w.unflushed[i] = false
	w.mu.Unlock()
	cur := ""
	c := w.goCall("q", func() string {
		if r := lcRunWriterSeqs(st, func(n string) { cur = n }); r != "" {
			return "bad:" + r
		}
		return "ok"
	})
	select {
	case <-c.done:
		if c.panicVal != "" {
			c.panicVal = "writer sequence " + cur + " on a stream of a closed session: " + c.panicVal
		}
	case <-time.After(lcWait):
	}
}

func (w *lcWorld) startSend(i int) {
	st := w.svStr[i]
	w.mu.Lock()
	w.lastSend = "none"
	w.mu.Unlock()
	w.goCall("w", func() string {
		// classifier of flush-nil-after-close: the call starts after IsClosed() is true
		late := w.sv.IsClosed()
		if w.safeToWrite() {
			// (writing into the BufferWriter of a stream whose session has been torn down touches unmapped memory:
			// class write-after-teardown-faults, staged in a child process only)
			st.BufferWriter().WriteString("y")
			w.mu.Lock()
			w.unflushed[i] = true
			w.mu.Unlock()
		}
		w.mu.Lock()
		had := w.unflushed[i]
		w.unflushed[i] = false
		w.mu.Unlock()
		if err := st.Flush(false); err != nil {
			return "err"
		}
		if late && had {
			w.mu.Lock()
			w.res.Violations = append(w.res.Violations, lcViolation{Kind: "later-call-succeeds", Known: "flush-nil-after-close",
				Detail:   fmt.Sprintf("Flush of written data on stream %d, called after Session.IsClosed() returned true, returned nil", i+1),
				Schedule: w.sc.Name, Step: -1})
			w.mu.Unlock()
		}
		return "ok"
	})
}

// writing into a BufferWriter allocates from the shared free lists: only while the buffer memory is certainly mapped
func (w *lcWorld) safeToWrite() bool {
	if w.mode == "manual" {
		mapped := false
		lcLocked(w.sv, func() { mapped = w.sv.queueManager != nil })
		return mapped
	}
	return !w.sv.IsClosed()
}

func (w *lcWorld) startStreamClose(i int) {
	st := w.svStr[i]
	w.goCall("w", func() string {
		if err := st.Close(); err != nil {
			return ""
		}
		return ""
	})
}

func (w *lcWorld) tryOpen() {
	// OpenStream on a shut-down session takes shutdownLock, which the teardown lambda holds (also while it waits for a
	// running callback): the call may block until the teardown is over, so it never runs on the driver's goroutine
	c := w.goCall("o", func() string {
		st, err := w.sv.OpenStream()
		r := "err"
		if err == nil && st == nil {
			r = "nilnil"
		} else if err == nil {
			r = "ok"
			st.Close()
		}
		w.mu.Lock()
		w.lastOpen = r
		w.mu.Unlock()
		return r
	})
	select {
	case <-c.done:
	case <-time.After(2 * time.Second):
	}
}

func (w *lcWorld) releaseCb(i int) {
	if w.cbs[i] != nil && !w.cbClosed {
		select {
		case w.cbs[i].release <- struct{}{}:
		default:
		}
	}
}

func (w *lcWorld) startClose(name string) {
	w.goCall(name, func() string {
		if err := w.sv.Close(); err != nil {
			return "err:" + err.Error()
		}
		return "nil"
	})
}

// ---------------------------------------------------------------------------------------------------------------
// replay of one spec behaviour (manual mode)

func (w *lcWorld) isKnown(slugs ...string) string {
	for _, s := range slugs {
		if w.kf[s] {
			return s
		}
	}
	return ""
}

func (w *lcWorld) stepManual(i int, st *lcStep) {
	switch st.A {
	case "PeerSend":
		if r := w.peerSend(st.S - 1); r != "" {
			w.res.Harness = "PeerSend: " + r
		}
	case "PeerCloseStream":
		if r := w.peerCloseStream(st.S - 1); r != "" {
			w.res.Harness = "PeerCloseStream: " + r
		}
	case "PeerOpenNew":
		// (witness only) the client peer opens one more stream that the server survivor never accepts
		if ns, err := w.pr.OpenStream(); err == nil {
			ns.BufferWriter().WriteString("n")
			ns.Flush(false)
		} else {
			w.res.Harness = "PeerOpenNew: " + err.Error()
		}
	case "DrainBegin":
		// the client peer opens the two late streams (two elements in the survivor's receive queue, one polling event), then
		// the survivor's loop starts the drain and blocks inside OnNewStream of the first one
		for _, l := range w.sc.Late {
			ns, err := w.pr.OpenStream()
			if err != nil {
				w.res.Harness = "DrainBegin: " + err.Error()
				return
			}
			ns.BufferWriter().WriteString("n")
			if err := ns.Flush(false); err != nil {
				w.res.Harness = "DrainBegin: " + err.Error()
				return
			}
			w.prStr[l-1] = ns
		}
		w.goCall("loop", func() string { lcEvents(w.dS); return "" })
	case "NsRelease":
		w.nsOnce.Do(func() { close(w.nsRelease) })
	case "PeerDrain":
		lcEvents(w.dP)
	case "PeerDies":
		w.peerDies()
	case "Events":
		sawDown := w.linkDown
		w.goCall("loop", func() string {
			lcEvents(w.dS)
			if sawDown {
				w.mu.Lock()
				w.hupSeen = true
				w.mu.Unlock()
			}
			return ""
		})
	case "Lambdas":
		w.goCall("loop", func() string { w.dS.runLambda(); return "" })
	case "CloseCall":
		w.startClose(st.T)
	case "SendCheck":
		w.startSend(st.S - 1)
	case "StreamClose":
		w.startStreamClose(st.S - 1)
	case "ParkRead":
		w.startRead(st.S - 1)
	case "ParkAccept":
		w.startAccept()
	case "ParkFlush":
		w.startFlush()
	case "CbRelease":
		w.releaseCb(st.S - 1)
	case "TryOpen":
		w.tryOpen()
	case "ParkRetryFlush":
		if r := w.startRetryFlush(); r != "" {
			w.res.Harness = "ParkRetryFlush: " + r
		}
	case "RetryExpire":
		// the retry loop gives up by itself after its ten timers
		w.mu.Lock()
		c := w.calls["fr"]
		w.mu.Unlock()
		if c != nil {
			select {
			case <-c.done:
			case <-time.After(lcWait):
			}
		}
	case "WriteSeq":
		w.startWriteSeq(st.S - 1)
	default:
		// internal step of a procedure that is already running on the real code
	}
}

func (w *lcWorld) checkPanics(step int) {
	w.mu.Lock()
	defer w.mu.Unlock()
	for _, c := range w.calls {
		if c.finished() && c.panicVal != "" {
			v := lcViolation{Kind: "panic", Detail: c.name + ": " + c.panicVal, Schedule: w.sc.Name, Step: step}
			if (c.name == "w" || c.name == "fl") && w.sv.IsClosed() && strings.Contains(c.panicVal, "linkedBuffer).Write") {
				// a BufferWriter write in flight while Close + teardown clean the stream / unmap (free-running loop only)
				v.Known = "stream-op-races-unmap"
			}
			w.res.Violations = append(w.res.Violations, v)
			c.panicVal = ""
		}
	}
}

func (w *lcWorld) replayManual() {
	for i := range w.sc.Steps {
		st := &w.sc.Steps[i]
		for _, k := range st.Kf {
			w.kf[k] = true
		}
		w.stepManual(i, st)
		w.res.Steps++
		if w.res.Harness != "" {
			return
		}
		if st.X == nil {
			if w.sc.Raw {
				// let the procedure finish (or block on a running callback) before the next step
				deadline := time.Now().Add(400 * time.Millisecond)
				for len(w.outstanding()) > 0 && time.Now().Before(deadline) {
					time.Sleep(time.Millisecond)
				}
				for d2 := time.Now().Add(lcWait); w.observe().Fl == "starting" && time.Now().Before(d2); {
					time.Sleep(time.Millisecond)
				}
				time.Sleep(30 * time.Millisecond)
				if os.Getenv("VS_LC_DEBUG") != "" {
					fmt.Printf("DEBUG after step %d %s: fl=%s writing=%d gor=%v\n", i, st.A, w.observe().Fl, atomic.LoadUint32(&w.sv.writing), lcGoroutinesOf([]string{w.svPtr}))
				}
				w.checkPanics(i)
			}
			continue
		}
		idx, diff := w.waitFor(st.X, st.Alts)
		w.res.Compared++
		w.checkPanics(i)
		// oracle, independent of the spec: once the loop has handled the hang-up the session is closed
		w.mu.Lock()
		hs := w.hupSeen
		w.mu.Unlock()
		if hs && !w.sv.IsClosed() && len(w.outstanding()) == 0 {
			w.violate("not-closed", "the event loop has handled the hang-up of the connection but Session.IsClosed() is false", i)
		}
		if got := w.observe(); got.LastOpen == "nilnil" {
			w.violate("open-nil-nil", "OpenStream on a session whose IsClosed() is true returned (nil, nil)", i)
		}
		if w.unclassified() > 0 {
			return
		}
		if idx < 0 && st.X.Fr == "parked" && w.observe().Fr == "err" {
			// the queue-full retry loop (10 x 10 ms of real time) gave up before the replay got to the step that releases it
			w.res.NdDiverged = true
			return
		}
		if idx < 0 {
			w.res.Drift = fmt.Sprintf("step %d %s(%d%s): %s", i, st.A, st.S, st.T, diff)
			return
		}
		if idx > 0 {
			w.res.NdDiverged = true
			return
		}
	}
	w.res.Conforming = true
}

// ---------------------------------------------------------------------------------------------------------------
// end of every behaviour: close everything, then the oracles

func (w *lcWorld) turnUntil(cond func() bool, what string) bool {
	deadline := time.Now().Add(lcWait + 4*time.Second)
	for !cond() {
		if w.mode == "manual" {
			for _, d := range []*epollDispatcher{w.dS, w.dP} {
				if d == nil {
					continue
				}
				dd := d
				done := make(chan struct{})
				go func() {
					defer func() {
						if r := recover(); r != nil {
							w.mu.Lock()
							w.res.Violations = append(w.res.Violations, lcViolation{Kind: "panic",
								Detail: fmt.Sprintf("event loop: %v", r), Schedule: w.sc.Name, Step: -1})
							w.mu.Unlock()
						}
						close(done)
					}()
					lcEvents(dd)
					dd.runLambda()
				}()
				select {
				case <-done:
				case <-time.After(lcWait + 4*time.Second):
					w.violate("hang", "the event loop is stuck while "+what+" (teardown lambda does not return)", -1)
					return false
				}
			}
		} else {
			time.Sleep(time.Millisecond)
		}
		if time.Now().After(deadline) {
			return false
		}
	}
	return true
}

func lcTornDown(s *Session) bool {
	if s == nil {
		return true
	}
	q := false
	lcLocked(s, func() { q = s.queueManager == nil })
	if !q {
		return false
	}
	h, ok := s.eventConn.(*connEventHandler)
	if !ok {
		return true
	}
	h.dispatcher.lock.Lock()
	_, reg := h.dispatcher.conns[h.fd]
	h.dispatcher.lock.Unlock()
	return !reg && atomic.LoadUint32(&h.isClose) == 1
}

func (w *lcWorld) finish() {
	step := len(w.sc.Steps)
	// a loop call that is blocked on a running callback must be released first
	w.nsOnce.Do(func() { close(w.nsRelease) })
	w.cbClosed = true
	for _, c := range w.cbs {
		if c != nil {
			close(c.release)
		}
	}
	// wait for procedure calls in flight (loop, closers, writer)
	w.waitCalls(func(n string) bool { return n == "loop" || n == "w" || strings.HasPrefix(n, "c") }, "procedure", step)
	// Close is idempotent and safe from several goroutines: close both ends, the survivor twice, concurrently
	errs := make(chan string, 4)
	var wg sync.WaitGroup
	ends := []*Session{w.sv, w.sv}
	if w.pr != nil {
		ends = append(ends, w.pr)
	}
	for _, s := range ends {
		wg.Add(1)
		go func(s *Session) {
			defer wg.Done()
			defer func() {
				if r := recover(); r != nil {
					errs <- fmt.Sprintf("panic in Session.Close: %v", r)
				}
			}()
			if err := s.Close(); err != nil {
				errs <- "Session.Close returned " + err.Error()
			}
		}(s)
	}
	cdone := make(chan struct{})
	go func() { wg.Wait(); close(cdone) }()
	select {
	case <-cdone:
	case <-time.After(lcWait + 4*time.Second):
		w.violate("hang", "Session.Close does not return", step)
		return
	}
	close(errs)
	for e := range errs {
		w.violate("close-not-idempotent", e, step)
	}
	if w.child != nil && !w.child.dead {
		if w.sc.End == "close" {
			w.childCmd("exit")
			w.child.cmd.Wait()
			w.child.dead = true
		} else {
			w.killChild()
		}
	}
	if !w.turnUntil(func() bool { return lcTornDown(w.sv) && lcTornDown(w.pr) }, "waiting for the teardown") {
		if len(w.res.Violations) == 0 {
			w.violate("teardown-incomplete", fmt.Sprintf("after Close on both ends and %v of event-loop turns: survivor torn down=%v peer torn down=%v",
				lcWait+4*time.Second, lcTornDown(w.sv), lcTornDown(w.pr)), step)
		}
		return
	}
	if !w.sv.IsClosed() {
		w.violate("not-closed", "IsClosed() false after Close", step)
	}
	// pending calls: all return, none with success
	w.waitCalls(func(n string) bool { return true }, "pending call", step)
	w.collect()
	w.mu.Lock()
	for i, r := range w.rdRes {
		w.res.Pending++
		if r == "parked" {
			w.res.Violations = append(w.res.Violations, lcViolation{Kind: "pending-call-hangs", Detail: fmt.Sprintf("ReadBytes on stream %d is still blocked after the session is closed", i+1), Schedule: w.sc.Name, Step: step})
		} else if strings.HasPrefix(r, "other:") {
			// any error is a failure of the call; the text is only reported
			_ = r
		}
	}
	if w.frRes == "parked" || w.frRes == "starting" {
		w.res.Violations = append(w.res.Violations, lcViolation{Kind: "pending-call-hangs", Detail: "a Flush waiting in its queue-full retry loop has not returned after the session was closed and torn down", Schedule: w.sc.Name, Step: step})
	}
	if w.flRes == "ok" {
		w.res.Violations = append(w.res.Violations, lcViolation{Kind: "pending-call-succeeds", Detail: "a Flush blocked on a full socket returned nil although the connection died", Schedule: w.sc.Name, Step: step})
	}
	if w.accRes == "ok" || w.accRes == "nilnil" {
		w.res.Violations = append(w.res.Violations, lcViolation{Kind: "pending-call-succeeds", Detail: "AcceptStream returned " + w.accRes + " on a closed session", Schedule: w.sc.Name, Step: step})
	}
	w.mu.Unlock()
	w.checkPanics(step)
	// later calls
	w.laterCalls(step)
	// callbacks: exactly one close callback per stream in callback mode
	for i, c := range w.cbs {
		if c == nil {
			continue
		}
		deadline := time.Now().Add(lcWait)
		for atomic.LoadInt32(&c.l)+atomic.LoadInt32(&c.r) == 0 && time.Now().Before(deadline) && atomic.LoadInt32(&c.overClose) == 0 {
			time.Sleep(time.Millisecond)
		}
		l, r := atomic.LoadInt32(&c.l), atomic.LoadInt32(&c.r)
		if l+r != 1 {
			v := lcViolation{Kind: "close-callback", Detail: fmt.Sprintf("stream %d (callback mode): OnLocalClose x%d, OnRemoteClose x%d after the session is closed and torn down, expected exactly one close callback", i+1, l, r), Schedule: w.sc.Name, Step: step}
			if l+r == 0 && atomic.LoadInt32(&c.overClose) == 1 {
				v.Known = "no-close-callback-when-busy"
			}
			w.res.Violations = append(w.res.Violations, v)
		}
	}
	// census
	w.census(step)
}

func (w *lcWorld) waitCalls(sel func(string) bool, what string, step int) {
	w.mu.Lock()
	cs := []*lcCall{}
	for n, c := range w.calls {
		if sel(n) {
			cs = append(cs, c)
		}
	}
	w.mu.Unlock()
	deadline := time.After(lcWait + 4*time.Second)
	for _, c := range cs {
		for !c.finished() {
			if w.mode == "manual" {
				// keep the loops turning: a parked writer is released by the loop
				for _, d := range []*epollDispatcher{w.dS, w.dP} {
					if d != nil && w.loopFree() {
						lcEvents(d)
						d.runLambda()
					}
				}
			}
			select {
			case <-c.done:
			case <-deadline:
				w.violate("hang", fmt.Sprintf("%s %q has not returned %v after the session was closed", what, c.name, lcWait+4*time.Second), step)
				return
			case <-time.After(500 * time.Microsecond):
			}
		}
	}
}

func (w *lcWorld) loopFree() bool {
	w.mu.Lock()
	defer w.mu.Unlock()
	c := w.calls["loop"]
	return c == nil || c.finished()
}

func (w *lcWorld) laterCalls(step int) {
	type res struct{ what, r string }
	out := make(chan res, 16)
	run := func(what string, f func() string) {
		done := make(chan string, 1)
		go func() {
			debug.SetPanicOnFault(true)
			defer func() {
				if r := recover(); r != nil {
					done <- fmt.Sprintf("panic: %v", r)
				}
			}()
			done <- f()
		}()
		select {
		case r := <-done:
			out <- res{what, r}
		case <-time.After(lcWait):
			out <- res{what, "hang"}
		}
	}
	run("OpenStream", func() string {
		st, err := w.sv.OpenStream()
		if err != nil && st == nil {
			return ""
		}
		return fmt.Sprintf("returned (stream nil=%v, err=%v)", st == nil, err)
	})
	if !w.sv.isClient {
		run("AcceptStream", func() string {
			// (Go's select picks at random between acceptCh and shutdownCh: ask several times)
			for k := 0; k < 8; k++ {
				queued := len(w.sv.acceptCh)
				st, err := w.sv.AcceptStream()
				if err != nil && st == nil {
					continue
				}
				if st != nil && queued > 0 {
					return fmt.Sprintf("KNOWN:accept-after-close:returned a stream with a nil error (%d streams were still queued in acceptCh when the session was closed)", queued)
				}
				return fmt.Sprintf("returned (stream nil=%v, err=%v)", st == nil, err)
			}
			return ""
		})
	}
	for i := 0; i < w.sc.Streams; i++ {
		st := w.stream(i)
		n := i + 1
		if st == nil {
			continue
		}
		// every stream the session ever had - also one registered between Close() and the teardown lambda - is closed
		if state := streamState(atomic.LoadUint32(&st.state)); state != streamClosed || !lcChanClosed(st.closeNotifyCh) {
			w.violate("stream-left-open", fmt.Sprintf("stream %d (id %d) of the closed and torn down session: state %d (1 = closed), close notification delivered: %v",
				n, st.id, state, lcChanClosed(st.closeNotifyCh)), step)
			continue
		}
		if !w.isCb[i] {
			run(fmt.Sprintf("ReadBytes(stream %d)", n), func() string {
				// data that had been delivered before the end may still be read; afterwards the call must fail
				for k := 0; k < 8; k++ {
					_, err := st.BufferReader().ReadBytes(1)
					if err != nil {
						return ""
					}
					st.BufferReader().ReleasePreviousRead()
				}
				return "keeps returning data"
			})
		}
		w.mu.Lock()
		had := w.unflushed[i]
		w.mu.Unlock()
		if had {
			run(fmt.Sprintf("Flush(stream %d)", n), func() string {
				// data was written before the end and never flushed (no write now: see write-after-teardown-faults)
				if err := st.Flush(false); err == nil {
					return "KNOWN:flush-nil-after-close:returned nil although the written data was dropped"
				}
				return ""
			})
		}
		run(fmt.Sprintf("Stream.Close(stream %d)", n), func() string {
			st.Close()
			return ""
		})
	}
	w.mu.Lock()
	extra := append([]*Stream(nil), w.extra...)
	w.mu.Unlock()
	for _, st := range extra {
		if state := streamState(atomic.LoadUint32(&st.state)); state != streamClosed || !lcChanClosed(st.closeNotifyCh) {
			w.violate("stream-left-open", fmt.Sprintf("stream id %d, registered by an OpenStream that overlapped Session.Close, after the teardown: state %d (1 = closed), close notification delivered: %v",
				st.id, state, lcChanClosed(st.closeNotifyCh)), step)
		}
	}
	for i := 0; i < w.sc.Streams; i++ {
		st := w.stream(i)
		if st == nil || w.isCb[i] {
			continue
		}
		run(fmt.Sprintf("writer call sequences(stream %d)", i+1), func() (res string) {
			cur := ""
			defer func() {
				if r := recover(); r != nil {
					res = fmt.Sprintf("panic: in the sequence %q: %v", cur, r)
				}
			}()
			return lcRunWriterSeqs(st, func(n string) { cur = n })
		})
		break
	}
	run("Session.Close again", func() string {
		if err := w.sv.Close(); err != nil {
			return "returned " + err.Error()
		}
		return ""
	})
	close(out)
	for r := range out {
		w.res.Later++
		if r.r == "" {
			continue
		}
		kind := "later-call-succeeds"
		slug := ""
		if strings.HasPrefix(r.r, "panic") {
			kind = "panic"
		} else if r.r == "hang" {
			kind = "hang"
		} else if strings.HasPrefix(r.r, "KNOWN:") {
			f := strings.SplitN(r.r, ":", 3)
			slug, r.r = f[1], f[2]
		}
		w.mu.Lock()
		w.res.Violations = append(w.res.Violations, lcViolation{Kind: kind, Detail: r.what + " on the closed session: " + r.r,
			Schedule: w.sc.Name, Step: step, Known: slug})
		w.mu.Unlock()
	}
}

func (w *lcWorld) census(step int) {
	w.res.Census++
	var left, gor []string
	ptrs := []string{w.svPtr}
	if w.prPtr != "" {
		ptrs = append(ptrs, w.prPtr)
	}
	deadline := time.Now().Add(lcWait)
	for {
		if w.mode == "manual" {
			for _, d := range []*epollDispatcher{w.dS, w.dP} {
				if d != nil {
					lcEvents(d)
					d.runLambda()
				}
			}
		}
		left = lcCensus(w.tag, w.inodes)
		gor = lcGoroutinesOf(ptrs)
		if os.Getenv("VS_LC_DEBUG") != "" {
			buf := make([]byte, 1<<20)
			buf = buf[:runtime.Stack(buf, true)]
			fmt.Printf("DEBUG census %s ptrs %v left %v gor %v\n%s\n", w.tag, ptrs, left, gor, buf)
		}
		if len(left) == 0 && len(gor) == 0 {
			return
		}
		if time.Now().After(deadline) {
			break
		}
		time.Sleep(2 * time.Millisecond)
	}
	if len(left) > 0 {
		w.violate("resource-left", fmt.Sprintf("both ends closed and torn down, still held after %v: %s", lcWait, strings.Join(left, ", ")), step)
	}
	if len(gor) > 0 {
		w.violate("goroutine-left", fmt.Sprintf("both ends closed, goroutines of the session still running after %v: %s", lcWait, strings.Join(gor, " | ")), step)
	}
}

func (w *lcWorld) destroy() {
	for _, d := range []*epollDispatcher{w.dS, w.dP} {
		if d != nil {
			lcunix.Close(d.epollFd)
		}
	}
	if w.child != nil && !w.child.dead {
		w.killChild()
	}
	// whatever the library left behind must not disturb the next behaviours
	for _, f := range []string{"/dev/shm/" + w.tag + "_q", "/dev/shm/" + w.tag + "_b" + bufferPathSuffix} {
		os.Remove(f)
	}
}

// ---------------------------------------------------------------------------------------------------------------
// real mode

func (w *lcWorld) settleReal() {
	time.Sleep(3 * time.Millisecond)
	prev := ""
	for k := 0; k < 40; k++ {
		b, _ := json.Marshal(w.observe())
		if string(b) == prev {
			return
		}
		prev = string(b)
		time.Sleep(2 * time.Millisecond)
	}
}

func (w *lcWorld) replayReal() {
	for i := range w.sc.Steps {
		st := &w.sc.Steps[i]
		switch st.A {
		case "PeerSend":
			if w.linkDown || w.sv.IsClosed() {
				continue
			}
			w.peerSend(st.S - 1)
		case "PeerCloseStream":
			if w.linkDown || w.sv.IsClosed() {
				continue
			}
			w.peerCloseStream(st.S - 1)
		case "PeerDies":
			w.peerDies()
			// the property: the survivor becomes closed
			deadline := time.Now().Add(lcWait + 4*time.Second)
			for !w.sv.IsClosed() && time.Now().Before(deadline) {
				time.Sleep(500 * time.Microsecond)
			}
			if !w.sv.IsClosed() {
				w.violate("not-closed", fmt.Sprintf("peer gone (%s), Session.IsClosed() still false after %v", w.sc.Peer, lcWait+4*time.Second), i)
				return
			}
		case "CloseCall":
			w.startClose(st.T)
		case "SendCheck":
			w.waitCalls(func(n string) bool { return n == "w" }, "writer", i)
			w.startSend(st.S - 1)
		case "StreamClose":
			w.waitCalls(func(n string) bool { return n == "w" }, "writer", i)
			w.startStreamClose(st.S - 1)
		case "ParkRead":
			w.startRead(st.S - 1)
		case "ParkAccept":
			w.startAccept()
		case "ParkFlush":
			w.startFlush()
			// the user's WriteBytes + Flush must have reached the blocking socket write before anything else happens
			for d2 := time.Now().Add(lcWait); w.observe().Fl == "starting" && time.Now().Before(d2); {
				time.Sleep(time.Millisecond)
			}
		case "CbRelease":
			w.releaseCb(st.S - 1)
		case "TryOpen":
			if w.sv.IsClosed() {
				w.tryOpen()
			}
		default:
			continue
		}
		w.res.Steps++
		w.settleReal()
		w.checkPanics(i)
		if w.observe().LastOpen == "nilnil" {
			w.violate("open-nil-nil", "OpenStream on a session whose IsClosed() is true returned (nil, nil)", i)
		}
		if w.unclassified() > 0 {
			return
		}
	}
	w.res.Conforming = true
}

// --- child process peer

type lcChildSpec struct {
	Role    string `json:"role"` // role of the CHILD: "client" | "server"
	Sock    string `json:"sock"`
	Tag     string `json:"tag"`
	Mem     string `json:"mem"`
	Streams int    `json:"streams"`
	DieAt   string `json:"die_at"` // "" | "connect"
}

func (w *lcWorld) childCmd(c string) string {
	if w.child == nil || w.child.dead {
		return "child dead"
	}
	if _, err := io.WriteString(w.child.in, c+"\n"); err != nil {
		return "child write: " + err.Error()
	}
	type rr struct {
		s   string
		err error
	}
	ch := make(chan rr, 1)
	go func() {
		s, err := w.child.out.ReadString('\n')
		ch <- rr{s, err}
	}()
	select {
	case r := <-ch:
		if r.err != nil {
			return "child read: " + r.err.Error()
		}
		if strings.TrimSpace(r.s) != "ok" {
			return "child says " + strings.TrimSpace(r.s)
		}
		return ""
	case <-time.After(30 * time.Second):
		return "child does not answer"
	}
}

func (w *lcWorld) killChild() {
	if w.child == nil || w.child.dead {
		return
	}
	w.child.cmd.Process.Kill()
	w.child.cmd.Wait()
	w.child.dead = true
}

func (w *lcWorld) childReadLine(d time.Duration) (string, error) {
	type rr struct {
		s   string
		err error
	}
	ch := make(chan rr, 1)
	go func() {
		s, err := w.child.out.ReadString('\n')
		ch <- rr{s, err}
	}()
	select {
	case r := <-ch:
		return strings.TrimSpace(r.s), r.err
	case <-time.After(d):
		return "", fmt.Errorf("timeout")
	}
}

func (w *lcWorld) setupChild() error {
	sock := filepath.Join(w.dir, w.tag+".sock")
	childRole := "server"
	if w.sc.Role == "server" {
		childRole = "client"
	}
	n := w.sc.Streams + 1
	spec := lcChildSpec{Role: childRole, Sock: sock, Tag: w.tag, Mem: w.sc.Mem, Streams: n}
	js, _ := json.Marshal(spec)
	var ln net.Listener
	var err error
	if childRole == "client" {
		if ln, err = net.Listen("unix", sock); err != nil {
			return err
		}
		defer func() { ln.Close(); os.Remove(sock) }()
	}
	cmd := exec.Command(os.Args[0], "-test.run", "^TestVS_LifecycleChild$", "-test.timeout", "600s")
	cmd.Env = append(os.Environ(), "VS_LC_CHILD="+string(js), "VS_IN_JOB=", "VS_OUT=")
	in, _ := cmd.StdinPipe()
	outp, _ := cmd.StdoutPipe()
	cmd.Stderr = nil
	if err := cmd.Start(); err != nil {
		return err
	}
	w.child = &lcChild{cmd: cmd, in: in, out: bufio.NewReader(outp)}
	var conn net.Conn
	if childRole == "client" {
		ln.(*net.UnixListener).SetDeadline(time.Now().Add(60 * time.Second))
		if conn, err = ln.Accept(); err != nil {
			return fmt.Errorf("child did not connect: %v", err)
		}
	} else {
		for {
			l, err := w.childReadLine(60 * time.Second)
			if err != nil {
				return fmt.Errorf("child did not start listening: %v", err)
			}
			if l == "listening" {
				break
			}
		}
		if conn, err = net.DialTimeout("unix", sock, 20*time.Second); err != nil {
			return err
		}
	}
	w.inodes[lcInode(conn)] = true
	s, err := newSession(lcConfig(w.tag, w.sc.Mem), conn, w.sc.Role == "client")
	if err != nil {
		return fmt.Errorf("newSession with child peer: %v", err)
	}
	w.sv = s
	w.svStr = make([]*Stream, n)
	if w.sc.Role == "client" {
		for i := 0; i < n; i++ {
			st, err := s.OpenStream()
			if err != nil {
				return err
			}
			st.BufferWriter().WriteString("o")
			if err := st.Flush(false); err != nil {
				return err
			}
			w.svStr[i] = st
		}
	} else {
		for i := 0; i < n; i++ {
			acc := make(chan *Stream, 1)
			go func() { a, _ := s.AcceptStream(); acc <- a }()
			select {
			case a := <-acc:
				if a == nil {
					return fmt.Errorf("accept failed")
				}
				if _, err := a.BufferReader().ReadBytes(1); err != nil {
					return err
				}
				a.BufferReader().ReleasePreviousRead()
				w.svStr[i] = a
			case <-time.After(60 * time.Second):
				return fmt.Errorf("stream %d of the child not accepted", i)
			}
		}
	}
	for {
		l, err := w.childReadLine(60 * time.Second)
		if err != nil {
			return fmt.Errorf("child not ready: %v", err)
		}
		if l == "ready" {
			break
		}
	}
	return w.afterSetup()
}

// witness of write-after-teardown-faults, contained in a child process: both ends of a session are closed and torn
// down by the real event loop, then the user writes into the BufferWriter of one of its streams
func (w *lcWorld) childWitness() {
	spec := lcChildSpec{Role: w.sc.Gate, Sock: filepath.Join(w.dir, w.tag+".sock"), Tag: w.tag, Mem: w.sc.Mem, Streams: 1}
	js, _ := json.Marshal(spec)
	cmd := exec.Command(os.Args[0], "-test.run", "^TestVS_LifecycleChild$", "-test.timeout", "300s")
	cmd.Env = append(os.Environ(), "VS_LC_CHILD="+string(js), "VS_IN_JOB=", "VS_OUT=")
	outb, err := cmd.CombinedOutput()
	out := string(outb)
	w.res.Steps = 3
	switch {
	case strings.Contains(out, "torn-down") && (strings.Contains(out, "unexpected fault address") || strings.Contains(out, "SIGSEGV")):
		m := ""
		for _, l := range strings.Split(out, "\n") {
			if strings.HasPrefix(l, "seq ") {
				m = "[during the writer call sequence " + l[4:] + "] "
			}
			if strings.Contains(l, "linkedBuffer") || strings.Contains(l, "allocShmBuffer") || strings.Contains(l, "fault address") ||
				strings.Contains(l, "queue).put") || strings.Contains(l, "Stream).Flush") {
				m += strings.TrimSpace(l) + " | "
				if len(m) > 500 {
					break
				}
			}
		}
		if w.sc.Gate == "flush-races-unmap" {
			w.res.Violations = append(w.res.Violations, lcViolation{Kind: "fault", Known: "stream-op-races-unmap", Schedule: w.sc.Name,
				Detail: "Stream.Flush parked inside queue.put (after its state check), Session.Close on both ends, teardown lambda run by the real event loop, Flush released: the process dies with " + m})
		} else {
			w.res.Violations = append(w.res.Violations, lcViolation{Kind: "fault", Known: "write-after-teardown-faults", Schedule: w.sc.Name,
				Detail: "both ends closed and torn down, then Stream.BufferWriter().WriteString on a stream of that session: the process dies with " + m})
		}
		w.res.Conforming = true
	case strings.Contains(out, "seq-bad"):
		m := ""
		for _, l := range strings.Split(out, "\n") {
			if strings.HasPrefix(l, "seq-bad") {
				m = l
			}
		}
		w.res.Violations = append(w.res.Violations, lcViolation{Kind: "later-call-succeeds", Known: "flush-nil-after-close", Schedule: w.sc.Name,
			Detail: "both ends closed and torn down, writer call sequence then Flush: " + m})
		w.res.Conforming = true
	case strings.Contains(out, "survived"):
		w.res.Conforming = true
	default:
		w.res.Harness = fmt.Sprintf("child witness inconclusive (%v): %s", err, out[:lcMin(len(out), 600)])
	}
}

func lcMin(a, b int) int {
	if a < b {
		return a
	}
	return b
}

func lcChildWriteAfterTeardown(spec lcChildSpec) {
	if spec.Role == "flush-races-unmap" {
		vsReset(vsGate)
	}
	ensureDefaultDispatcherInit()
	cconn, sconn, err := lcConnPair(filepath.Dir(spec.Sock), spec.Tag)
	if err != nil {
		fmt.Println("connpair:", err)
		os.Exit(3)
	}
	var cl, sv *Session
	var cerr, serr error
	var wg sync.WaitGroup
	wg.Add(2)
	go func() { defer wg.Done(); cl, cerr = newSession(lcConfig(spec.Tag, spec.Mem), cconn, true) }()
	go func() { defer wg.Done(); sv, serr = newSession(lcConfig(spec.Tag, spec.Mem), sconn, false) }()
	wg.Wait()
	if cerr != nil || serr != nil {
		fmt.Println("newSession:", cerr, serr)
		os.Exit(3)
	}
	st, err := cl.OpenStream()
	if err != nil {
		os.Exit(3)
	}
	st.BufferWriter().WriteString("o")
	st.Flush(false)
	if a, err := sv.AcceptStream(); err == nil {
		a.BufferReader().ReadBytes(1)
	}
	var g *vsGateT
	flushed := make(chan error, 1)
	if spec.Role == "flush-races-unmap" {
		// park a Flush of the client inside queue.put: the stream state has been checked, the queue pointer is loaded
		st.BufferWriter().WriteString("a")
		g = vsGateArm("queue.put", 1)
		go func() { flushed <- st.Flush(false) }()
		if !g.waitHit(30 * time.Second) {
			fmt.Println("gate queue.put not reached (is queue.put instrumented?)")
			os.Exit(3)
		}
	}
	sv.Close()
	cl.Close()
	for k := 0; k < 30000 && !(lcTornDown(cl) && lcTornDown(sv)); k++ {
		time.Sleep(time.Millisecond)
	}
	if !(lcTornDown(cl) && lcTornDown(sv)) {
		fmt.Println("not torn down")
		os.Exit(3)
	}
	fmt.Println("torn-down")
	if g != nil {
		g.releaseGate()
		select {
		case err := <-flushed:
			fmt.Println("survived", err)
		case <-time.After(30 * time.Second):
			fmt.Println("flush does not return")
		}
		os.Exit(0)
	}
	if r := lcRunWriterSeqs(st, func(n string) { fmt.Println("seq", n) }); r != "" {
		fmt.Println("seq-bad", r)
	}
	werr := st.BufferWriter().WriteString("z")
	ferr := st.Flush(false)
	fmt.Println("survived", werr, ferr)
	os.Exit(0)
}

// the child process: a real session end that obeys one-line commands on stdin
func TestVS_LifecycleChild(t *testing.T) {
	js := os.Getenv("VS_LC_CHILD")
	if js == "" {
		t.Skip("not a child")
	}
	var spec lcChildSpec
	if err := json.Unmarshal([]byte(js), &spec); err != nil {
		fmt.Println("bad spec")
		os.Exit(3)
	}
	SetLogLevel(levelNoPrint)
	debugMode = true
	if spec.Role == "write-after-teardown" || spec.Role == "flush-races-unmap" {
		lcChildWriteAfterTeardown(spec)
	}
	var conn net.Conn
	var err error
	if spec.Role == "client" {
		if conn, err = net.DialTimeout("unix", spec.Sock, 30*time.Second); err != nil {
			fmt.Println("dial:", err)
			os.Exit(3)
		}
	} else {
		ln, err := net.Listen("unix", spec.Sock)
		if err != nil {
			fmt.Println("listen:", err)
			os.Exit(3)
		}
		fmt.Println("listening")
		if conn, err = ln.Accept(); err != nil {
			os.Exit(3)
		}
		ln.Close()
		os.Remove(spec.Sock)
	}
	s, err := newSession(lcConfig(spec.Tag, spec.Mem), conn, spec.Role == "client")
	if err != nil {
		fmt.Println("newSession:", err)
		os.Exit(3)
	}
	strs := make([]*Stream, spec.Streams)
	if spec.Role == "client" {
		for i := range strs {
			st, err := s.OpenStream()
			if err != nil {
				os.Exit(3)
			}
			st.BufferWriter().WriteString("o")
			st.Flush(false)
			strs[i] = st
		}
	} else {
		for i := range strs {
			st, err := s.AcceptStream()
			if err != nil {
				os.Exit(3)
			}
			st.BufferReader().ReadBytes(1)
			st.BufferReader().ReleasePreviousRead()
			strs[i] = st
		}
	}
	fmt.Println("ready")
	rd := bufio.NewReader(os.Stdin)
	for {
		line, err := rd.ReadString('\n')
		if err != nil {
			os.Exit(0)
		}
		f := strings.Fields(line)
		if len(f) == 0 {
			continue
		}
		switch f[0] {
		case "send":
			i, _ := strconv.Atoi(f[1])
			strs[i].BufferWriter().WriteString("x")
			strs[i].Flush(false)
		case "closestream":
			i, _ := strconv.Atoi(f[1])
			strs[i].Close()
		case "exit":
			s.Close()
			time.Sleep(50 * time.Millisecond)
			fmt.Println("ok")
			os.Exit(0)
		}
		fmt.Println("ok")
	}
}

// ---------------------------------------------------------------------------------------------------------------
// driver

func lcRunSchedule(sc *lcSchedule, mode, dir string, known map[string]bool) (res lcSchedResult) {
	t0 := time.Now()
	res = lcSchedResult{Name: sc.Name, Violations: []lcViolation{}, KfSeen: []string{}}
	w := &lcWorld{sc: sc, mode: mode, dir: dir, calls: map[string]*lcCall{}, inodes: map[uint64]bool{}, res: &res,
		known: known, kf: map[string]bool{}}
	w.tag = fmt.Sprintf("vsLC%dx%de", os.Getpid(), atomic.AddInt64(&lcSeq, 1))
	defer func() {
		if r := recover(); r != nil {
			buf := make([]byte, 4096)
			buf = buf[:runtime.Stack(buf, false)]
			res.Violations = append(res.Violations, lcViolation{Kind: "panic", Detail: fmt.Sprintf("%v\n%s", r, buf), Schedule: sc.Name, Step: -1})
		}
		for k := range w.kf {
			res.KfSeen = append(res.KfSeen, k)
		}
		sort.Strings(res.KfSeen)
		res.Ms = time.Since(t0).Milliseconds()
		w.destroy()
	}()
	debug.SetPanicOnFault(true)
	if sc.Gate == "write-after-teardown" || sc.Gate == "flush-races-unmap" {
		w.childWitness()
		return
	}
	var err error
	if mode == "real" && sc.Peer == "child" {
		err = w.setupChild()
	} else {
		err = w.setupPair()
	}
	if err != nil {
		res.Harness = "setup: " + err.Error()
		return
	}
	if sc.Gate != "" {
		w.runGate()
	} else if mode == "manual" {
		w.replayManual()
	} else {
		w.replayReal()
	}
	if res.Harness == "" {
		w.finish()
	}
	return
}

// staged interleavings inside Session.Close (gate mode, needs Session.Close instrumented)
func (w *lcWorld) runGate() {
	switch w.sc.Gate {
	case "retry-flush-death", "retry-flush-close":
		// regression case for the pending-call kind "flush-in-retry", staged so that it fits into the 100 ms of the retry loop:
		// stalled peer, full send queue, one more Flush inside the retry loop, then the peer dies (or the user calls Close)
		// and the loop is turned until the teardown lambda has run - all on this goroutine, no comparisons in between
		if r := w.startRetryFlush(); r != "" {
			w.res.Harness = "retry scenario: " + r
			return
		}
		t0 := time.Now()
		if w.sc.Gate == "retry-flush-death" {
			w.peerDies()
		} else {
			w.sv.Close()
		}
		for k := 0; k < 200 && !lcTornDown(w.sv); k++ {
			lcEvents(w.dS)
			w.dS.runLambda()
		}
		torn := time.Since(t0)
		w.mu.Lock()
		c := w.calls["fr"]
		w.mu.Unlock()
		early := c.finished() && torn > 95*time.Millisecond
		select {
		case <-c.done:
		case <-time.After(lcWait):
			w.violate("pending-call-hangs", "a Flush waiting in its queue-full retry loop does not return after the session was closed and torn down", 0)
			return
		}
		w.checkPanics(0)
		if early && w.unclassified() == 0 {
			w.res.Harness = fmt.Sprintf("retry window missed: the teardown took %v, the retry loop had given up before", torn)
			return
		}
		if c.res == "ok" {
			w.violate("pending-call-succeeds", "a Flush waiting in its queue-full retry loop returned nil although the session was closed", 0)
		}
		w.res.Steps = 3
		w.res.Conforming = true
	case "open-register-after-close":
		// client window of "a stream appears between Close() and the teardown lambda": OpenStream has passed its closed check
		// and is parked before it registers the stream; Close() runs to its end; OpenStream goes on and registers
		g := vsGateArm("Session.OpenStream:AddUint32", 1)
		ch := make(chan *Stream, 1)
		go func() {
			st, _ := w.sv.OpenStream()
			ch <- st
		}()
		if !g.waitHit(lcWait) {
			g.releaseGate()
			w.res.Harness = "gate Session.OpenStream:AddUint32 not reached"
			return
		}
		if err := w.sv.Close(); err != nil {
			w.violate("close-not-idempotent", "Session.Close returned "+err.Error(), 0)
		}
		g.releaseGate()
		select {
		case st := <-ch:
			if st == nil {
				w.res.Harness = "OpenStream returned no stream: window not realised"
				return
			}
			w.mu.Lock()
			w.extra = append(w.extra, st)
			w.mu.Unlock()
		case <-time.After(lcWait):
			w.violate("hang", "OpenStream released after Close() does not return", 0)
			return
		}
		w.res.Steps = 3
		w.res.Conforming = true
	case "open-in-close-window":
		// park the closer after it has won the CAS on `shutdown` and before it stores shutdownErr
		g := vsGateArm("Session.Close:LoadUint32", 1) // the atomic load in the log line right after the CAS
		w.startClose("c1")
		if !g.waitHit(lcWait) {
			g.releaseGate()
			w.res.Harness = "gate Session.Close:LoadUint32 not reached"
			return
		}
		if !w.sv.IsClosed() {
			g.releaseGate()
			w.res.Harness = "closer parked before the CAS"
			return
		}
		w.kf["open-nil-nil"] = true
		st, err := w.sv.OpenStream()
		g.releaseGate()
		if st == nil && err == nil {
			v := lcViolation{Kind: "open-nil-nil", Detail: "OpenStream called while Session.Close is between the CAS on `shutdown` and the assignment of shutdownErr: IsClosed() is true and OpenStream returned (nil, nil)", Schedule: w.sc.Name, Step: 0, Known: "open-nil-nil"}
			w.res.Violations = append(w.res.Violations, v)
		} else if err == nil {
			w.violate("later-call-succeeds", "OpenStream succeeded on a session whose IsClosed() is true", 0)
		}
		w.res.Steps = 2
		w.res.Conforming = true
	}
}

func TestVS_Lifecycle(t *testing.T) {
	in := os.Getenv("VS_IN_JOB")
	if in == "" {
		t.Skip("VS_IN_JOB not set")
	}
	var job lcJob
	b, err := os.ReadFile(in)
	if err != nil {
		t.Fatal(err)
	}
	if err := json.Unmarshal(b, &job); err != nil {
		t.Fatal(err)
	}
	SetLogLevel(levelNoPrint)
	debugMode = true
	if job.WaitMs > 0 {
		lcWait = time.Duration(job.WaitMs) * time.Millisecond
	}
	dir := os.Getenv("VS_DIR")
	if dir == "" {
		dir = os.TempDir()
	}
	if job.Mode == "manual" {
		defaultDispatcher = lcDisp{newEpollDispatcher()}
	}
	ensureDefaultDispatcherInit()
	gates := false
	for i := range job.Schedules {
		if job.Schedules[i].Gate != "" {
			gates = true
		}
	}
	if gates {
		vsReset(vsGate)
		job.Workers = 1
	}
	known := map[string]bool{}
	for _, k := range job.Known {
		known[k] = true
	}
	if job.Workers <= 0 {
		job.Workers = 4
	}
	out := lcResult{Mode: job.Mode, Results: make([]lcSchedResult, len(job.Schedules)), Samples: []string{}}
	prog, _ := os.OpenFile(filepath.Join(dir, "progress.log"), os.O_CREATE|os.O_WRONLY|os.O_APPEND, 0644)
	var pmu sync.Mutex
	logp := func(s string) {
		if prog != nil {
			pmu.Lock()
			prog.WriteString(s + "\n")
			pmu.Unlock()
		}
	}
	idx := make(chan int, len(job.Schedules))
	for i := range job.Schedules {
		idx <- i
	}
	close(idx)
	var wg sync.WaitGroup
	var bad int32
	for k := 0; k < job.Workers; k++ {
		wg.Add(1)
		go func() {
			defer wg.Done()
			for i := range idx {
				if job.StopAfter > 0 && atomic.LoadInt32(&bad) >= int32(job.StopAfter) {
					out.Results[i] = lcSchedResult{Name: job.Schedules[i].Name, Violations: []lcViolation{}, KfSeen: []string{}, Harness: "skipped"}
					continue
				}
				logp("start " + job.Schedules[i].Name)
				// watchdog: a behaviour that is still running after 3 minutes leaves the stacks of all goroutines behind
				stopDog := make(chan struct{})
				go func(name string) {
					select {
					case <-stopDog:
					case <-time.After(3 * time.Minute):
						buf := make([]byte, 4<<20)
						buf = buf[:runtime.Stack(buf, true)]
						os.WriteFile(filepath.Join(dir, "watchdog-"+name+".txt"), buf, 0644)
						logp("stuck " + name)
					}
				}(job.Schedules[i].Name)
				out.Results[i] = lcRunSchedule(&job.Schedules[i], job.Mode, dir, known)
				close(stopDog)
				logp("end " + job.Schedules[i].Name)
				for _, v := range out.Results[i].Violations {
					if v.Known == "" || !known[v.Known] {
						atomic.AddInt32(&bad, 1)
						break
					}
				}
			}
		}()
	}
	wg.Wait()
	if prog != nil {
		prog.Close()
	}
	out.Goroutines = runtime.NumGoroutine()
	ob, _ := json.Marshal(out)
	if err := os.WriteFile(os.Getenv("VS_OUT"), ob, 0644); err != nil {
		t.Fatal(err)
	}
}
