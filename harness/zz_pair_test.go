package shmipc

// vpPair: a pair of REAL Sessions (client "A", server "B") wired together without sockets and without the epoll loop:
//  * shared memory is real: one memfd for the buffers and one for the two IO queues, each mapped twice (one mapping per
//    side = two processes' views), laid out by the library's own create*/mapping* functions, with tiny slices;
//  * the event connection is a fake that records every event a side writes; the harness decides when the peer's "event
//    loop" handles them (vpDeliver), by calling the real Session.handleEvents on the recorded bytes;
//  * the send loop goroutine of each session is the real one.
// Everything above the event connection (streams, buffers, queues, protocol handlers, close paths) is the real code.

import (
	"fmt"
	"net"
	"os"
	"sync"
	"sync/atomic"
	"time"

	syscall "golang.org/x/sys/unix"
)

type vpConn struct {
	mu     sync.Mutex
	chunks [][]byte
	closed bool
	wrote  uint64
	failWr bool
}

func (c *vpConn) commitRead(n int)                       {}
func (c *vpConn) setCallback(cb eventConnCallback) error { return nil }
func (c *vpConn) write(data []byte) error {
	c.mu.Lock()
	defer c.mu.Unlock()
	if c.closed || c.failWr {
		return syscall.EPIPE
	}
	c.chunks = append(c.chunks, append([]byte(nil), data...))
	atomic.AddUint64(&c.wrote, 1)
	return nil
}
func (c *vpConn) writev(data ...[]byte) error {
	for _, d := range data {
		if err := c.write(d); err != nil {
			return err
		}
	}
	return nil
}
func (c *vpConn) close() error {
	c.mu.Lock()
	c.closed = true
	c.mu.Unlock()
	return nil
}
func (c *vpConn) take() [][]byte {
	c.mu.Lock()
	defer c.mu.Unlock()
	out := c.chunks
	c.chunks = nil
	return out
}
func (c *vpConn) pending() int {
	c.mu.Lock()
	defer c.mu.Unlock()
	return len(c.chunks)
}

type vpDispatcher struct {
	mu      sync.Mutex
	lambdas []func()
}

func (d *vpDispatcher) post(f func()) {
	d.mu.Lock()
	d.lambdas = append(d.lambdas, f)
	d.mu.Unlock()
}
func (d *vpDispatcher) run() int {
	d.mu.Lock()
	l := d.lambdas
	d.lambdas = nil
	d.mu.Unlock()
	for _, f := range l {
		f()
	}
	return len(l)
}

type vpConfig struct {
	Sizes    []uint32 // slice sizes
	Percents []uint32
	MemSize  int
	QueueCap uint32
}

type vpPair struct {
	cfg          vpConfig
	bufFd, qFd   int
	memA, memB   []byte
	A, B         *Session
	connA, connB *vpConn // connA records what A writes
	dispA, dispB *vpDispatcher
	pipeA, pipeB net.Conn
	newStreamsB  []*Stream
	rbufA, rbufB [1 << 16]byte
}

var vpCounter uint64

type vpListenCb struct{ p *vpPair }

func (l *vpListenCb) OnNewStream(s *Stream)    { l.p.newStreamsB = append(l.p.newStreamsB, s) }
func (l *vpListenCb) OnShutdown(reason string) {}

func vpNewPair(cfg vpConfig) (*vpPair, error) {
	level = levelNoPrint
	debugMode = true
	p := &vpPair{cfg: cfg}
	n := atomic.AddUint64(&vpCounter, 1)
	var err error
	if p.bufFd, err = MemfdCreate(fmt.Sprintf("vp_buf_%d", n), 0); err != nil {
		return nil, err
	}
	if err = syscall.Ftruncate(p.bufFd, int64(cfg.MemSize)); err != nil {
		return nil, err
	}
	if p.memA, err = syscall.Mmap(p.bufFd, 0, cfg.MemSize, syscall.PROT_READ|syscall.PROT_WRITE, syscall.MAP_SHARED); err != nil {
		return nil, err
	}
	if p.memB, err = syscall.Mmap(p.bufFd, 0, cfg.MemSize, syscall.PROT_READ|syscall.PROT_WRITE, syscall.MAP_SHARED); err != nil {
		return nil, err
	}
	pairs := []*SizePercentPair{}
	for i := range cfg.Sizes {
		pairs = append(pairs, &SizePercentPair{Size: cfg.Sizes[i], Percent: cfg.Percents[i]})
	}
	bmA, err := createBufferManager(pairs, "", p.memA, 0)
	if err != nil {
		return nil, err
	}
	bmB, err := mappingBufferManager("", p.memB, 0)
	if err != nil {
		return nil, err
	}
	qmA, err := createQueueManagerWithMemFd(fmt.Sprintf("vp_q_%d", n), cfg.QueueCap)
	if err != nil {
		return nil, err
	}
	p.qFd = qmA.memFd
	dupFd, err := syscall.Dup(qmA.memFd)
	if err != nil {
		return nil, err
	}
	qmB, err := mappingQueueManagerMemfd(fmt.Sprintf("vp_q_%d", n), dupFd)
	if err != nil {
		return nil, err
	}
	p.connA, p.connB = &vpConn{}, &vpConn{}
	p.dispA, p.dispB = &vpDispatcher{}, &vpDispatcher{}
	p.pipeA, p.pipeB = net.Pipe()
	mk := func(isClient bool, bm *bufferManager, qm *queueManager, conn *vpConn, d *vpDispatcher, nc net.Conn) *Session {
		c := DefaultConfig()
		c.ConnectionWriteTimeout = 3 * time.Second
		c.QueueCap = cfg.QueueCap
		s := &Session{config: c, dispatcher: vpAdapter{d}, logger: newLogger("vp", nil), streams: map[uint32]*Stream{},
			sendCh: make(chan sendReady, 4096), notifyContinueWriteCh: make(chan struct{}, 1), shutdownCh: make(chan struct{}),
			isClient: isClient, communicationVersion: 3, bufferManager: bm, queueManager: qm, eventConn: conn, netConn: nc,
			handshakeDone: true}
		if isClient {
			s.nextStreamID = 1
		} else {
			s.nextStreamID = 2
			s.acceptCh = make(chan *Stream, 1024)
		}
		s.name = qm.path
		go s.send()
		return s
	}
	p.A = mk(true, bmA, qmA, p.connA, p.dispA, p.pipeA)
	p.B = mk(false, bmB, qmB, p.connB, p.dispB, p.pipeB)
	p.B.config.listenCallback = &vpListenCb{p}
	return p, nil
}

// vpAdapter makes vpDispatcher satisfy the dispatcher interface (newConnection takes *os.File there).
type vpAdapter struct{ d *vpDispatcher }

func (a vpAdapter) runLoop() error                          { return nil }
func (a vpAdapter) newConnection(connFd *os.File) eventConn { return nil }
func (a vpAdapter) shutdown() error { return nil }
func (a vpAdapter) post(f func())   { a.d.post(f) }

// feed presents bytes to a session's protocol handlers the way the event connection does: in a read buffer that is reused
// for the next read. After the handlers return, the buffer is overwritten, so anything that kept a reference into it
// instead of copying sees garbage (as it would with the real connection buffer).
func (p *vpPair) feed(to *Session, data []byte) (int, error) {
	buf := p.rbufA[:]
	if to == p.B {
		buf = p.rbufB[:]
	}
	if len(data) > len(buf) {
		return to.handleEvents(data)
	}
	n := copy(buf, data)
	consumed, err := to.handleEvents(buf[:n])
	for i := 0; i < n; i++ {
		buf[i] = 0xEE
	}
	return consumed, err
}

// deliver hands every event the peer has written so far to `to`'s protocol handlers (what the event loop does).
// It returns the number of events' chunks handled.
func (p *vpPair) deliver(to *Session) (int, error) {
	from := p.connA
	if to == p.A {
		from = p.connB
	}
	chunks := from.take()
	if len(chunks) == 0 {
		return 0, nil
	}
	var buf []byte
	for _, c := range chunks {
		buf = append(buf, c...)
	}
	if to.IsClosed() {
		return len(chunks), nil
	}
	consumed, err := p.feed(to, buf)
	if err != nil {
		to.exitErr(err)
		return len(chunks), err
	}
	if consumed != len(buf) {
		return len(chunks), fmt.Errorf("handleEvents consumed %d of %d bytes", consumed, len(buf))
	}
	return len(chunks), nil
}

// settle: deliver in both directions until nothing is in flight (send loops drained, no recorded events left).
func (p *vpPair) settle() error {
	for i := 0; i < 200; i++ {
		idle := true
		for _, s := range []*Session{p.A, p.B} {
			// wait for the send loop to have written what was queued
			for k := 0; k < 2000 && len(s.sendCh) > 0; k++ {
				time.Sleep(50 * time.Microsecond)
			}
		}
		for _, s := range []*Session{p.B, p.A} {
			n, err := p.deliver(s)
			if err != nil {
				return err
			}
			if n > 0 {
				idle = false
			}
		}
		if p.dispA.run()+p.dispB.run() > 0 {
			idle = false
		}
		if idle && len(p.A.sendCh) == 0 && len(p.B.sendCh) == 0 && p.connA.pending() == 0 && p.connB.pending() == 0 {
			return nil
		}
	}
	return fmt.Errorf("pair does not settle")
}

func (p *vpPair) inUse(s *Session) (slices int) {
	for _, l := range s.bufferManager.lists {
		slices += int(*l.cap) - int(*l.size)
	}
	return
}

// integrity walks every free list of the shared buffer manager at a quiescent point: size within [1, cap], the chain from
// head has exactly `size` distinct slots, all inside the region at slot boundaries, and ends at tail. A buffer recycled
// twice by a layer above the allocator (double push) shows up as size > cap, a repeated slot, or a chain that does not
// reach tail. Returns "" when everything is intact. Never panics on garbage.
func (p *vpPair) integrity() string {
	for ci, l := range p.A.bufferManager.lists {
		size, cp := int(*l.size), int(*l.cap)
		stride := int(*l.capPerBuffer) + bufferHeaderSize
		if size < 1 || size > cp {
			return fmt.Sprintf("free list %d: size %d outside [1, cap %d]", ci, size, cp)
		}
		seen := map[uint32]bool{}
		off := *l.head
		for i := 0; i < size; i++ {
			if int(off)%stride != 0 || int(off)+bufferHeaderSize > len(l.bufferRegion) || int(off)/stride >= cp {
				return fmt.Sprintf("free list %d: slot offset %d (element %d of the chain) is not a slot of the region (stride %d, cap %d)", ci, off, i, stride, cp)
			}
			if seen[off] {
				return fmt.Sprintf("free list %d: slot %d is on the free chain twice (element %d)", ci, off, i)
			}
			seen[off] = true
			h := bufferHeader(l.bufferRegion[off : int(off)+bufferHeaderSize])
			if i == size-1 {
				if off != *l.tail {
					return fmt.Sprintf("free list %d: the chain of %d free slots ends at %d, tail says %d", ci, size, off, *l.tail)
				}
				break
			}
			if !h.hasNext() {
				return fmt.Sprintf("free list %d: chain breaks after %d of %d free slots (slot %d has no next)", ci, i+1, size, off)
			}
			off = h.nextBufferOffset()
		}
	}
	return ""
}

func (p *vpPair) free(class int) int { return int(*p.A.bufferManager.lists[class].size) }

// hog allocates buffers of every class until only `leave` allocatable buffers remain per class; returns them.
func (p *vpPair) hog(leave int) []*bufferSlice {
	var held []*bufferSlice
	for _, l := range p.A.bufferManager.lists {
		for l.remain() > leave {
			s, err := l.pop()
			if err != nil {
				break
			}
			held = append(held, s)
		}
	}
	return held
}

func (p *vpPair) unhog(held []*bufferSlice) {
	for _, s := range held {
		p.A.bufferManager.recycleBuffer(s)
	}
}

func (p *vpPair) destroy() {
	for _, s := range []*Session{p.A, p.B} {
		if !s.IsClosed() {
			if atomic.CompareAndSwapUint32(&s.shutdown, 0, 1) {
				close(s.shutdownCh) // stops the send loop; no teardown of the shared fixture memory through the library
			}
		}
	}
	p.dispA.lambdas, p.dispB.lambdas = nil, nil
	p.pipeA.Close()
	p.pipeB.Close()
	if p.A.queueManager != nil {
		p.A.queueManager.unmap()
	}
	if p.B.queueManager != nil {
		p.B.queueManager.unmap()
	}
	syscall.Munmap(p.memA)
	syscall.Munmap(p.memB)
	syscall.Close(p.bufFd)
}


// vpScribbleRecycled: a buffer that is pushed back onto a free list belongs to nobody, its payload is "don't care". When
// bufferList.push is instrumented with the entry rule the payload is overwritten at that moment, so that any later use of
// the bytes by the previous holder (a message assembled from slices that were recycled first, a zero-copy view handed out
// and not pinned, ...) shows up deterministically instead of needing a concurrent allocation in the window.
// vsEntryHook is called at the start of functions instrumented with the rewriter's "entry" rule (observation only, no
// scheduling point).
var vsEntryHook func(fn string, arg interface{})

func vsEntry(fn string, arg interface{}) {
	if h := vsEntryHook; h != nil {
		h(fn, arg)
	}
}

const vpRecycledByte = 0xDD

var vpRecycleScribbles uint64

func init() {
	vsEntryHook = func(fn string, arg interface{}) {
		if fn != "bufferList.push" {
			return
		}
		b, ok := arg.(*bufferSlice)
		if !ok || b == nil || !b.isFromShm {
			return
		}
		d := b.data
		if int(b.cap) <= cap(d) {
			d = d[:b.cap]
		}
		for i := range d {
			d[i] = vpRecycledByte
		}
		atomic.AddUint64(&vpRecycleScribbles, 1)
	}
}
