package shmipc

// Binding for module StreamPool (C15). TLC behaviours of StreamPool.tla (an edge cover of the exhaustive state graph,
// counterexample witnesses, seeded random histories) are replayed on the REAL SessionManager.GetStream / PutBack /
// streamPool / Stream code over vpPair sessions (real shared memory, real queues, real protocol handlers; the event loop
// is the harness delivering recorded events). After every step
//   * the real state is projected into the spec's vocabulary and compared with the spec state (a difference is spec
//     drift, not a verdict), and
//   * the property oracles are evaluated on the real objects, independently of the spec (a failure is a violation).
// A second mode runs free-running concurrent callers against one pool and records an invoke/return history that the
// check validates against the spec with TLC (Trace_StreamPool), besides evaluating Exclusive/NoLeak directly.

import (
	"encoding/json"
	"fmt"
	"math/rand"
	"os"
	"runtime"
	"sort"
	"strings"
	"sync"
	"sync/atomic"
	"testing"
	"time"
)

type spExp struct {
	St     []string `json:"st"`
	Tab    []bool   `json:"tab"`
	Unread []int    `json:"unread"`
	Fb     []bool   `json:"fb"`
	Srv    []string `json:"srv"`
	Wbuf   []bool   `json:"wbuf"`
	Cb     []bool   `json:"cb"`
	Inproc []bool   `json:"inproc"`
	Ring   []int    `json:"ring"`
	Holder []int    `json:"holder"`
	Sess   []string `json:"sess"`
	Cur    int      `json:"cur"`
}

type spStep struct {
	A string `json:"a"`
	C int    `json:"c"` // caller (1-based) for caller actions
	S int    `json:"s"` // stream / session id for environment actions
	F bool   `json:"f"` // with shared memory exhausted
	X *spExp `json:"x,omitempty"`
}

type spHistory struct {
	Name    string   `json:"name"`
	Cap     int      `json:"cap"`
	Callers int      `json:"callers"`
	N       int      `json:"n"`
	Raw     bool     `json:"raw"` // witness: ignore the known list
	Sched   bool     `json:"sched"` // contains PutBegin/PutRelease/PutPush: PutBack runs under the serialising scheduler
	Steps   []spStep `json:"steps"`
}

type spConcJob struct {
	Runs    int   `json:"runs"`
	Callers int   `json:"callers"`
	Ops     int   `json:"ops"`
	Cap     int   `json:"cap"`
	Seed    int64 `json:"seed"`
}

type spJob struct {
	Histories []spHistory `json:"histories"`
	Known     []string    `json:"known"`
	Random    struct {
		N       int   `json:"n"`
		Seed    int64 `json:"seed"`
		Steps   int   `json:"steps"`
		Callers int   `json:"callers"`
		Cap     int   `json:"cap"`
	} `json:"random"`
	Conc   spConcJob `json:"conc"`
	Sweeps []spSweep `json:"sweeps"`
}

// spSweep: after the setup history, caller A's PutBack and caller B's GetStream+WriteBytes run under the serialising
// scheduler; B runs at every scheduling point of A in turn (statement granularity), plus seeded random interleavings
type spSweep struct {
	Name    string   `json:"name"`
	Cap     int      `json:"cap"`
	Callers int      `json:"callers"`
	Setup   []spStep `json:"setup"`
	A       int      `json:"a"`
	B       int      `json:"b"`
	Random  int      `json:"random"`
	Seed    int64    `json:"seed"`
	Only    []int    `json:"only,omitempty"` // replay: an explicit schedule (thread ids 1=A 2=B)
}

type spViolation struct {
	Kind    string   `json:"kind"`
	Detail  string   `json:"detail"`
	History string   `json:"history"`
	Cap     int      `json:"cap"`
	Callers int      `json:"callers"`
	Steps   []spStep `json:"steps"`
	At      int      `json:"at"`
	Sweep   *spSweep `json:"sweep,omitempty"`
}

type spConcEvent struct {
	Ev  string `json:"ev"` // "inv" | "ret"
	C   int    `json:"c"`
	Op  string `json:"op"` // get | put
	S   int    `json:"s"`  // stream number (order of first appearance); 0 = none/error
	Out string `json:"out"`
}

type spResult struct {
	Replayed    int               `json:"replayed"`
	Steps       int               `json:"steps"`
	Conforming  int               `json:"conforming"`
	DriftCount  int               `json:"drift_count"`
	Drift       []string          `json:"drift"`
	Violations  []spViolation     `json:"violations"`
	KnownHits   map[string]int    `json:"known_hits"`
	KnownWit    map[string]string `json:"known_witness"`
	OracleEvals map[string]int    `json:"oracle_evals"`
	RandomRuns  int               `json:"random_runs"`
	RandomSteps int               `json:"random_steps"`
	Samples     []string          `json:"samples"`
	ConcRuns    int               `json:"conc_runs"`
	ConcOps     int               `json:"conc_ops"`
	ConcTraces  [][]spConcEvent   `json:"conc_traces"`
	ConcReuse   int               `json:"conc_reused"`
	SweepRuns   int               `json:"sweep_runs"`
	SweepPoints int               `json:"sweep_points"`
	SweepReuse  int               `json:"sweep_b_got_a_stream"`
	SweepLabels []string          `json:"sweep_labels"`
	SchedHist   int               `json:"sched_histories"`
}

const (
	spSlugDiscard = "pool-discard-without-close"
	spSlugLate    = "late-reply-into-pooled-stream"
	spSlugWrite   = "unflushed-write-survives-reuse"
	spSlugCbArm   = "close-after-reset-not-armed"
)

type spWorld struct {
	cap, callers int
	pairs        []*vpPair
	pool         *streamPool
	sm           *SessionManager
	streams      []*Stream // spec id-1 -> client end
	owner        []int     // spec id-1 -> session (1-based)
	gen          []int     // use generation (number of hand-outs)
	reqs         [][]byte  // per stream: generations of requests the server end has read and not answered
	seenB        []int     // per pair: how many of newStreamsB have been looked at
	srvObj       []*Stream
	holder       []int // caller-1 -> spec id
	known        map[string]bool
	exempt       map[*Stream]bool // dropped without Close, known class listed
	lateIn       map[*Stream]int  // answers that reached the stream while it was pooled
	staleOK      map[*Stream]int  // stale messages of a handed-out stream that belong to the listed late class
	dirtyPut     map[*Stream]bool  // the stream was given back with unflushed bytes in its write buffer
	pooledOpen   map[*Stream]bool  // the stream was open when it was given back (so: kept for reuse legitimately)
	arrivals     map[*Stream][]int // per unread answer: the use generation that held the stream when it arrived (0 = pooled)
	cbs          map[*Stream]*spCb // callbacks set through SetCb (the latest per stream)
	allCbs       []*spCb
	delivered    map[*Stream]int   // answers the peer flushed successfully to the stream
	consumed     map[*Stream]*int32 // messages taken out of the stream by Read / OnData
	puts         map[int]*spPut    // caller -> PutBack in progress (scheduler-driven histories)
	putClean     map[*Stream]bool  // at PutBack: reset() was going to succeed (open, nothing unread/unflushed, not fallback), so it cleared the callbacks
	sweep        bool
	res          *spResult
	viol         *spViolation
	lastRes      string
	phaseDrift   string
	cmu          sync.Mutex
}

func spNewWorld(cap, callers int, known []string, res *spResult) (*spWorld, error) {
	w := &spWorld{cap: cap, callers: callers, res: res, known: map[string]bool{}, exempt: map[*Stream]bool{},
		lateIn: map[*Stream]int{}, staleOK: map[*Stream]int{}, arrivals: map[*Stream][]int{}, pooledOpen: map[*Stream]bool{}, dirtyPut: map[*Stream]bool{}, holder: make([]int, callers),
		cbs: map[*Stream]*spCb{}, delivered: map[*Stream]int{}, consumed: map[*Stream]*int32{}, puts: map[int]*spPut{}, putClean: map[*Stream]bool{}}
	for _, k := range known {
		w.known[k] = true
	}
	p, err := spNewPair()
	if err != nil {
		return nil, err
	}
	w.pairs = []*vpPair{p}
	w.seenB = []int{0}
	w.pool = newStreamPool(uint32(cap))
	w.pool.session.Store(p.A)
	// the manager as NewSessionManager builds it, minus dialling and the background goroutine (both are environment
	// actions of the spec, performed by the harness with the real pool.close() / session.Store)
	w.sm = &SessionManager{pools: []*streamPool{w.pool}, config: &SessionManagerConfig{Config: DefaultConfig(), SessionNum: 1, MaxStreamNum: cap}}
	p.A.manager = w.sm
	return w, nil
}

func spNewPair() (*vpPair, error) {
	return vpNewPair(vpConfig{Sizes: []uint32{4}, Percents: []uint32{100}, MemSize: 4096, QueueCap: 16})
}

func (w *spWorld) destroy() {
	for _, p := range w.pairs {
		p.destroy()
	}
}

func (w *spWorld) fail(kind, detail string) {
	if w.viol == nil {
		w.viol = &spViolation{Kind: kind, Detail: detail, Cap: w.cap, Callers: w.callers}
	}
}

// settle: deliver recorded events in both directions until nothing is in flight. Posted dispatcher lambdas (session
// teardown) are NOT run here: Teardown is a step of its own.
func spSettle(p *vpPair) error {
	for i := 0; i < 400; i++ {
		for _, s := range []*Session{p.A, p.B} {
			for k := 0; k < 20000 && len(s.sendCh) > 0; k++ {
				time.Sleep(50 * time.Microsecond)
			}
		}
		n := 0
		for _, s := range []*Session{p.B, p.A} {
			k, err := p.deliver(s)
			if err != nil {
				return err
			}
			n += k
		}
		if n == 0 && len(p.A.sendCh) == 0 && len(p.B.sendCh) == 0 && p.connA.pending() == 0 && p.connB.pending() == 0 {
			return nil
		}
	}
	return fmt.Errorf("pair does not settle")
}

func (w *spWorld) settleAll() {
	for _, p := range w.pairs {
		if err := spSettle(p); err != nil {
			w.fail("settle", err.Error())
		}
	}
	w.waitCb()
	// a callback goroutine that just closed its stream has told the peer
	for _, p := range w.pairs {
		if p.connA.pending() > 0 || p.connB.pending() > 0 {
			if err := spSettle(p); err != nil {
				w.fail("settle", err.Error())
			}
		}
	}
	w.refreshSrv()
}

// refreshSrv binds server-side stream objects to spec streams and lets the server application read what arrived.
func (w *spWorld) refreshSrv() {
	for pi, p := range w.pairs {
		for ; w.seenB[pi] < len(p.newStreamsB); w.seenB[pi]++ {
			ns := p.newStreamsB[w.seenB[pi]]
			for i, c := range w.streams {
				if w.owner[i] == pi+1 && c.id == ns.id {
					w.srvObj[i] = ns
				}
			}
		}
	}
	for i, so := range w.srvObj {
		if so == nil || streamState(so.getStreamState()) == streamClosed {
			continue
		}
		for so.recvBuf.len+spPendingBytes(so) >= 3 {
			b, err := so.BufferReader().ReadBytes(3)
			if err != nil {
				w.fail("server-read", err.Error())
				return
			}
			if int(b[0]) != i+1 {
				w.fail("isolation", fmt.Sprintf("server end of stream %d received bytes %v of stream %d", i+1, b, b[0]))
			}
			w.reqs[i] = append(w.reqs[i], b[1])
			so.BufferReader().ReleasePreviousRead()
		}
	}
}

func spPendingBytes(s *Stream) int {
	n := 0
	s.pendingData.Lock()
	for _, wr := range s.pendingData.unread {
		if wr.fallbackSlice != nil {
			n += wr.fallbackSlice.size()
			continue
		}
		for off := wr.offset; ; {
			sl, err := s.session.bufferManager.readBufferSlice(off)
			if err != nil {
				break
			}
			n += sl.size()
			hn, next := sl.hasNext(), sl.nextBufferOffset()
			putBackBufferSlice(sl)
			if !hn {
				break
			}
			off = next
		}
	}
	s.pendingData.Unlock()
	return n
}

func spUnreadBytes(s *Stream) int {
	if streamState(s.getStreamState()) == streamClosed {
		return 0
	}
	return s.recvBuf.len + spPendingBytes(s)
}

func spState(s *Stream) string {
	switch streamState(s.getStreamState()) {
	case streamOpened:
		return "open"
	case streamHalfClosed:
		return "half"
	}
	return "closed"
}

func (w *spWorld) idOf(s *Stream) int {
	for i, x := range w.streams {
		if x == s {
			return i + 1
		}
	}
	return 0
}

func (w *spWorld) ringObjs() []*Stream {
	p := w.pool
	if !w.sweep { // (under the serialising scheduler a parked thread may hold the pool mutex; only one goroutine runs)
		p.Lock()
		defer p.Unlock()
	}
	out := []*Stream{}
	for i := p.head; i < p.tail; i++ {
		out = append(out, p.streams[i%uint64(p.capacity)])
	}
	return out
}

func spInTable(s *Stream) bool {
	s.session.streamLock.RLock()
	defer s.session.streamLock.RUnlock()
	return s.session.streams != nil && s.session.streams[s.id] == s
}

func (w *spWorld) sessState(p *vpPair) string {
	if !p.A.IsClosed() {
		return "live"
	}
	p.A.streamLock.RLock()
	defer p.A.streamLock.RUnlock()
	if p.A.streams != nil {
		return "closing"
	}
	return "dead"
}

func (w *spWorld) project(n int) *spExp {
	x := &spExp{St: []string{}, Tab: []bool{}, Unread: []int{}, Fb: []bool{}, Srv: []string{}, Wbuf: []bool{}, Cb: []bool{}, Inproc: []bool{}, Ring: []int{}, Holder: []int{}, Sess: []string{}}
	for i := 0; i < n; i++ {
		if i >= len(w.streams) {
			x.St = append(x.St, "none")
			x.Tab = append(x.Tab, false)
			x.Unread = append(x.Unread, 0)
			x.Fb = append(x.Fb, false)
			x.Srv = append(x.Srv, "none")
			x.Wbuf = append(x.Wbuf, false)
			x.Cb = append(x.Cb, false)
			x.Inproc = append(x.Inproc, false)
			continue
		}
		s := w.streams[i]
		x.St = append(x.St, spState(s))
		x.Tab = append(x.Tab, spInTable(s))
		x.Unread = append(x.Unread, spUnreadBytes(s)/3)
		x.Fb = append(x.Fb, s.inFallbackState && spState(s) != "closed")
		x.Wbuf = append(x.Wbuf, spState(s) != "closed" && s.sendBuf.len > 0)
		x.Cb = append(x.Cb, spState(s) != "closed" && s.getCallbacks() != nil)
		x.Inproc = append(x.Inproc, atomic.LoadUint32(&s.callbackInProcess) == 1)
		if w.srvObj[i] == nil {
			x.Srv = append(x.Srv, "none")
		} else {
			x.Srv = append(x.Srv, spState(w.srvObj[i]))
		}
	}
	for _, o := range w.ringObjs() {
		x.Ring = append(x.Ring, w.idOf(o))
	}
	x.Holder = append(x.Holder, w.holder...)
	for _, p := range w.pairs {
		x.Sess = append(x.Sess, w.sessState(p))
	}
	x.Cur = len(w.pairs)
	return x
}

func spDiff(real, spec *spExp) string {
	r := *real
	s := *spec
	// the spec lists MaxSess sessions, the real world only those that exist
	for len(r.Sess) < len(s.Sess) {
		r.Sess = append(r.Sess, "none")
	}
	// inFallbackState of a closed stream is not modelled
	s.Fb = append([]bool{}, s.Fb...)
	for i := range s.Fb {
		if i < len(s.St) && s.St[i] == "closed" {
			s.Fb[i] = false
		}
	}
	ja, _ := json.Marshal(r)
	jb, _ := json.Marshal(s)
	if string(ja) == string(jb) {
		return ""
	}
	return fmt.Sprintf("real %s spec %s", ja, jb)
}

func (w *spWorld) hit(slug, detail string) {
	w.res.KnownHits[slug]++
	if w.res.KnownWit[slug] == "" {
		w.res.KnownWit[slug] = detail
	}
}

// ---- property oracles (on the real objects only) ----------------------------------------------------------------

// Fresh + Exclusive, at the moment GetStream returned `s` to caller c.
func (w *spWorld) oracleHandOut(c int, s *Stream, ringBefore []*Stream) {
	w.res.OracleEvals["fresh"]++
	id := w.idOf(s)
	if !s.IsOpen() {
		w.fail("fresh-open", fmt.Sprintf("GetStream returned stream %d in state %s to caller %d", id, spState(s), c))
		return
	}
	if s.Session().IsClosed() {
		w.fail("fresh-live-session", fmt.Sprintf("GetStream returned stream %d of a closed session to caller %d", id, c))
		return
	}
	if s.Session() != w.pool.Session() {
		w.fail("fresh-live-session", fmt.Sprintf("GetStream returned stream %d which belongs to a session the pool no longer uses", id))
		return
	}
	if !spInTable(s) {
		w.fail("fresh-live-session", fmt.Sprintf("GetStream returned stream %d which its session does not know (not in the stream table)", id))
		return
	}
	if s.getCallbacks() != nil {
		w.fail("fresh-callbacks", fmt.Sprintf("GetStream returned stream %d to caller %d with the previous user's StreamCallbacks still set: what the peer sends to the new user is offered to them", id, c))
		return
	}
	if n := s.sendBuf.Len(); n != 0 {
		detail := fmt.Sprintf("GetStream returned stream %d to caller %d with %d unflushed byte(s) of an earlier use in its write buffer (the next Flush sends them)", id, c, n)
		if w.dirtyPut[s] {
			w.hit(spSlugWrite, detail)
		}
		if !(w.dirtyPut[s] && w.known[spSlugWrite]) {
			w.fail("fresh-bytes", detail)
			return
		}
	}
	if n := spUnreadBytes(s); n != 0 {
		detail := fmt.Sprintf("GetStream returned stream %d to caller %d carrying %d unread byte(s) of an earlier use", id, c, n)
		// explanations by listed classes: answers that arrived while the stream was pooled; the previous user's own
		// unflushed request, which ReleaseReadAndReuse swapped into the read buffer
		fromLate := w.lateIn[s] * 3
		if fromLate > n {
			fromLate = n
		}
		fromWrite := 0
		if w.dirtyPut[s] && s.sendBuf.Len() == 0 && n-fromLate == 3 {
			fromWrite = 3
		}
		if fromLate > 0 {
			w.hit(spSlugLate, detail+" (an answer arrived while the stream was pooled)")
		}
		if fromWrite > 0 {
			w.hit(spSlugWrite, detail+" (they are the request the previous user wrote and did not flush: PutBack swapped the write buffer into the read buffer)")
		}
		switch {
		case fromLate+fromWrite != n:
			w.fail("fresh-bytes", detail)
			return
		case fromLate > 0 && !w.known[spSlugLate]:
			w.fail("fresh-bytes", detail+" (an answer arrived while the stream was pooled)")
			return
		case fromWrite > 0 && !w.known[spSlugWrite]:
			w.fail("fresh-bytes", detail+" (they are the request the previous user wrote and did not flush: PutBack swapped the write buffer into the read buffer)")
			return
		}
		w.staleOK[s] = n / 3
	}
	delete(w.dirtyPut, s)
	delete(w.lateIn, s)
	w.res.OracleEvals["exclusive"]++
	for d, h := range w.holder {
		if h != 0 && d != c-1 && w.streams[h-1] == s {
			w.fail("exclusive", fmt.Sprintf("GetStream returned stream %d to caller %d while caller %d holds it", id, c, d+1))
			return
		}
	}
	for _, o := range w.ringObjs() {
		if o == s {
			w.fail("exclusive", fmt.Sprintf("GetStream returned stream %d to caller %d and kept it in the pool", id, c))
			return
		}
	}
}

// NoLeak, evaluated in every (settled) state: every stream a live session counts as active is held by a caller or kept
// by the pool; the pool keeps no stream twice, never more than its capacity, and none that a caller holds.
func (w *spWorld) oracleNoLeak(when string) {
	w.res.OracleEvals["noleak"]++
	ring := w.ringObjs()
	inRing := map[*Stream]int{}
	for _, o := range ring {
		if o == nil {
			w.fail("pool-shape", "the pool ring holds a nil entry "+when)
			return
		}
		inRing[o]++
		if inRing[o] > 1 {
			w.fail("exclusive", fmt.Sprintf("stream %d is in the pool twice %s", w.idOf(o), when))
			return
		}
	}
	if len(ring) > w.cap {
		w.fail("capacity", fmt.Sprintf("the pool keeps %d streams, capacity %d, %s", len(ring), w.cap, when))
		return
	}
	held := map[*Stream]bool{}
	for c, h := range w.holder {
		if h != 0 {
			if held[w.streams[h-1]] {
				w.fail("exclusive", fmt.Sprintf("stream %d is held by two callers (second: %d) %s", h, c+1, when))
				return
			}
			held[w.streams[h-1]] = true
			if inRing[w.streams[h-1]] > 0 {
				w.fail("exclusive", fmt.Sprintf("stream %d is held by caller %d and in the pool %s", h, c+1, when))
				return
			}
		}
	}
	for pi, p := range w.pairs {
		if p.A.IsClosed() {
			continue
		}
		p.A.streamLock.RLock()
		tab := make([]*Stream, 0, len(p.A.streams))
		for _, s := range p.A.streams {
			tab = append(tab, s)
		}
		p.A.streamLock.RUnlock()
		sort.Slice(tab, func(i, j int) bool { return tab[i].id < tab[j].id })
		accounted := 0
		for _, s := range tab {
			if held[s] || inRing[s] > 0 {
				accounted++
				continue
			}
			if atomic.LoadUint32(&s.callbackInProcess) == 1 {
				continue // its user's callback is still running: a close is pending until OnData returns
			}
			if pb := w.putOf(s); pb {
				continue // its PutBack has not returned yet
			}
			if w.exempt[s] {
				continue
			}
			if spState(s) == "closed" {
				// a close by another goroutine (the callback goroutine) is in flight: state first, table next. Slow is not wrong.
				gone := false
				for deadline := time.Now().Add(10 * time.Second); time.Now().Before(deadline); time.Sleep(100 * time.Microsecond) {
					if !spInTable(s) {
						gone = true
						break
					}
				}
				if gone {
					continue
				}
			}
			// the listed class: PutBack while OnData runs, reset() succeeded (callbacks cleared); the stream is closed after
			// that (pool full, or discarded later by getOrOpenStream) -> Close() is deferred to the callback goroutine
			// without being armed
			if w.putClean[s] && w.cbs[s] != nil && s.getCallbacks() == nil &&
				atomic.LoadUint32(&s.callbackCloseState) != uint32(callbackWaitExit) && spState(s) == "half" {
				w.hit(spSlugCbArm, fmt.Sprintf("stream %d was given back while its OnData was running and reset() succeeded (callbacks cleared); then it was closed (pool full / discarded): Close() was deferred to the callback goroutine but not armed; OnData has returned and the stream is still half-closed in the session's stream table (active count %d)",
					w.idOf(s), p.A.GetActiveStreamCount()))
				if w.known[spSlugCbArm] {
					w.exempt[s] = true
					continue
				}
			}
			w.fail("leak", fmt.Sprintf("session %d counts %d active stream(s) %s; stream %d (state %s) is active but neither held by a caller nor kept by the pool",
				pi+1, p.A.GetActiveStreamCount(), when, w.idOf(s), spState(s)))
			return
		}
	}
}

// spCall runs one API call of the library with a watchdog: a call that does not return is reported as a harness
// problem (inconclusive, never a violation); the run goes on with the next history and stops after the third.
var spHungCount int32

type spHungT struct{}

var spHung spHungT

func (spHungT) Store(string) { atomic.AddInt32(&spHungCount, 1) }
func (spHungT) Load() interface{} {
	if atomic.LoadInt32(&spHungCount) >= 3 {
		return true
	}
	return nil
}

func spCall(what string, f func()) bool {
	done := make(chan struct{})
	go func() { f(); close(done) }()
	select {
	case <-done:
		return true
	case <-time.After(30 * time.Second):
		spHung.Store(what + " did not return within 30 s")
		return false
	}
}

// ---- callback mode ---------------------------------------------------------------------------------------------------

// spCb: the StreamCallbacks a caller sets on its stream. OnData consumes ONE message and then stays inside OnData until
// the harness lets it return (step CbReturn) - a user that is still busy in its callback.
type spCb struct {
	w       *spWorld
	s       *Stream
	id, gen int
	release chan struct{}
	calls   int32 // OnData invocations
	parkedN int32 // ... that have consumed their message and wait
	retN    int32 // ... that have returned
	relN    int32 // ... that the harness has let return (written by the harness only)
	local   int32
	remote  int32
	bad     atomic.Value
}

func (c *spCb) OnData(r BufferReader) {
	n := atomic.AddInt32(&c.calls, 1)
	b, err := r.ReadBytes(3)
	if err != nil || len(b) != 3 {
		c.bad.Store(fmt.Sprintf("OnData of stream %d: ReadBytes(3): %v", c.id, err))
	} else {
		c.w.consume(c.s)
		if b[2] != 0x80 {
			c.bad.Store(fmt.Sprintf("OnData (use %d of stream %d) was offered %v: a REQUEST written into the stream (by use %d), not bytes the peer sent", c.gen, c.id, b, b[1]))
		} else if int(b[0]) != c.id {
			c.bad.Store(fmt.Sprintf("OnData of stream %d was offered bytes %v of stream %d", c.id, b, b[0]))
		}
	}
	atomic.StoreInt32(&c.parkedN, n)
	<-c.release
	atomic.StoreInt32(&c.retN, n)
}
func (c *spCb) OnLocalClose()  { atomic.AddInt32(&c.local, 1) }
func (c *spCb) OnRemoteClose() { atomic.AddInt32(&c.remote, 1) }
func (c *spCb) isParked() bool {
	return atomic.LoadInt32(&c.parkedN) == atomic.LoadInt32(&c.calls) && atomic.LoadInt32(&c.parkedN) > atomic.LoadInt32(&c.relN)
}

// letReturn: the parked OnData returns
func (c *spCb) letReturn() {
	atomic.StoreInt32(&c.relN, atomic.LoadInt32(&c.parkedN))
	c.release <- struct{}{}
}

// cbQuiescent: an OnData of the stream waits for the harness, or the callback goroutine has left (and, if a close was
// deferred to it and armed, has closed the stream)
func (w *spWorld) cbQuiescent(s *Stream) bool {
	busy := false
	for _, c := range w.allCbs {
		if c.s != s {
			continue
		}
		if c.isParked() {
			return true
		}
		if atomic.LoadInt32(&c.calls) != atomic.LoadInt32(&c.retN) {
			busy = true
		}
	}
	if busy || atomic.LoadUint32(&s.callbackInProcess) == 1 {
		return false
	}
	if atomic.LoadUint32(&s.callbackCloseState) == uint32(callbackWaitExit) {
		// the goroutine performs the close: closed, out of the table, buffers given back
		if spState(s) != "closed" || (spInTable(s) && !s.session.IsClosed()) {
			return false
		}
		s.recvBuf.recycleMux.Lock()
		s.recvBuf.recycleMux.Unlock()
		s.sendBuf.recycleMux.Lock()
		n := s.sendBuf.sliceList.size() + s.recvBuf.sliceList.size()
		s.sendBuf.recycleMux.Unlock()
		if n != 0 {
			return false
		}
	}
	return true
}

func (w *spWorld) cbReturnedAll(s *Stream) bool {
	for _, c := range w.allCbs {
		if c.s == s && atomic.LoadInt32(&c.calls) != atomic.LoadInt32(&c.retN) {
			return false
		}
	}
	return true
}

func (w *spWorld) waitCb() {
	seen := map[*Stream]bool{}
	for _, c := range w.allCbs {
		if v := c.bad.Load(); v != nil {
			w.fail("foreign-bytes", v.(string))
		}
		if seen[c.s] {
			continue
		}
		seen[c.s] = true
		ok := false
		for deadline := time.Now().Add(20 * time.Second); time.Now().Before(deadline); { // generous
			if w.cbQuiescent(c.s) {
				// stable over two looks (the goroutine may be between two steps)
				time.Sleep(20 * time.Microsecond)
				if w.cbQuiescent(c.s) {
					ok = true
					break
				}
			}
			time.Sleep(50 * time.Microsecond)
		}
		if !ok && atomic.LoadUint32(&c.s.callbackInProcess) == 0 && w.cbReturnedAll(c.s) {
			// the goroutine HAS left; a deferred, armed close that it did not perform within 20 s is not going to happen:
			// the state is stable and the oracles judge it (the stream is half-closed in the table)
			ok = true
		}
		if !ok {
			w.fail("hang", fmt.Sprintf("the callback goroutine of stream %d neither waits in OnData nor finishes (in process %d, close armed %d, state %s)",
				c.id, atomic.LoadUint32(&c.s.callbackInProcess), atomic.LoadUint32(&c.s.callbackCloseState), spState(c.s)))
		}
	}
}

func (w *spWorld) consume(s *Stream) {
	w.cmu.Lock()
	p := w.consumed[s]
	if p == nil {
		p = new(int32)
		w.consumed[s] = p
	}
	w.cmu.Unlock()
	atomic.AddInt32(p, 1)
}

// oracleLedger: a stream holds exactly the bytes the peer sent to it and its user has not taken out yet - nothing a
// caller wrote (its own or another caller's request) ever shows up as input, nothing the peer sent disappears
func (w *spWorld) oracleLedger(when string) {
	w.res.OracleEvals["byte-ledger"]++
	for i, s := range w.streams {
		if spState(s) == "closed" {
			continue
		}
		w.cmu.Lock()
		p := w.consumed[s]
		w.cmu.Unlock()
		c := 0
		if p != nil {
			c = int(atomic.LoadInt32(p))
		}
		exp := (w.delivered[s] - c) * 3
		if got := spUnreadBytes(s); got != exp && w.staleOK[s] == 0 {
			w.fail("foreign-bytes", fmt.Sprintf("stream %d holds %d unread byte(s) %s, but the peer sent %d message(s) to it of which %d were taken out: %d byte(s) that the peer did not send / that got lost",
				i+1, got, when, w.delivered[s], c, got-exp))
			return
		}
	}
}

// ---- PutBack under the serialising scheduler -------------------------------------------------------------------------

type spPut struct {
	th *vsThread
	s  *Stream
	h  int
	at string // the function the thread is about to enter ("done" when PutBack has returned)
}

func spFn(pos string) string {
	if i := strings.Index(pos, ":"); i >= 0 {
		return pos[:i]
	}
	return pos
}

func (w *spWorld) putOf(s *Stream) bool {
	for _, pb := range w.puts {
		if pb != nil && pb.s == s {
			return true
		}
	}
	return false
}

// putAdvance runs the caller's PutBack up to the entry of its next phase (Stream.ReleaseReadAndReuse / streamPool.push)
// or to its end. While it is parked there no lock is held, so other callers run unscheduled in between.
func (w *spWorld) putAdvance(c int, pb *spPut) {
	prev := spFn(pb.th.pos)
	for {
		_, now := vsStep(pb.th)
		if now == "done" {
			pb.at = "done"
			if pb.th.panicVal != nil {
				w.fail("panic", fmt.Sprint(pb.th.panicVal))
			}
			delete(w.puts, c)
			w.holder[c-1] = 0
			delete(w.staleOK, pb.s)
			w.settleAll()
			w.putOutcome(pb.s, pb.h)
			return
		}
		fn := spFn(now)
		if fn != prev && (fn == "Stream.ReleaseReadAndReuse" || fn == "streamPool.push") {
			pb.at = fn
			return
		}
		prev = fn
	}
}

func (w *spWorld) putOutcome(s *Stream, h int) {
	w.res.OracleEvals["put-outcome"]++
	for _, o := range w.ringObjs() {
		if o == s {
			return
		}
	}
	if spState(s) != "closed" && atomic.LoadUint32(&s.callbackInProcess) == 1 {
		return
	}
	for _, hh := range w.holder {
		if hh == h {
			return // kept for reuse - and another caller has obtained it from the pool meanwhile
		}
	}
	if spState(s) != "closed" {
		w.fail("put-outcome", fmt.Sprintf("PutBack neither kept stream %d for reuse nor closed it (state %s)", h, spState(s)))
	} else if spInTable(s) && !s.session.IsClosed() {
		w.fail("put-outcome", fmt.Sprintf("PutBack closed stream %d but it is still counted as active", h))
	}
}

// ---- steps -----------------------------------------------------------------------------------------------------------

func (w *spWorld) curPair() *vpPair { return w.pairs[len(w.pairs)-1] }

func (w *spWorld) do(st spStep) bool {
	w.lastRes = ""
	w.phaseDrift = ""
	switch st.A {
	case "Put", "Send", "Flush", "Write", "Read", "CloseHeld", "SetCb":
		if w.puts[st.C] != nil {
			return false // the caller is inside PutBack
		}
	}
	switch st.A {
	case "Get":
		if st.C < 1 || st.C > w.callers || w.holder[st.C-1] != 0 || w.puts[st.C] != nil {
			return false
		}
		for _, o := range w.ringObjs() {
			if o.IsOpen() && !o.session.IsClosed() && spUnreadBytes(o) == 0 {
				if atomic.LoadUint32(&o.callbackInProcess) == 1 {
					return false // (named restriction of the model: the previous user's OnData returns before the stream is reused)
				}
				break
			}
		}
		before := w.ringObjs()
		var s *Stream
		var err error
		if !spCall("GetStream", func() { s, err = w.sm.GetStream() }) {
			w.fail("hang", "GetStream did not return within 30 s")
			return true
		}
		w.afterGet(st.C, s, err, before)
		w.settleAll()
		return true
	case "Put":
		h := w.holderOf(st.C)
		if h == 0 {
			return false
		}
		s := w.streams[h-1]
		w.pooledOpen[s] = s.IsOpen()
		w.dirtyPut[s] = s.sendBuf.len > 0
		w.notePut(s)
		if !spCall("PutBack", func() { w.sm.PutBack(s) }) {
			w.fail("hang", "PutBack did not return within 30 s")
			return true
		}
		w.holder[st.C-1] = 0
		delete(w.staleOK, s)
		w.settleAll()
		// a stream given back is kept for reuse or closed
		w.res.OracleEvals["put-outcome"]++
		pooled := false
		for _, o := range w.ringObjs() {
			if o == s {
				pooled = true
			}
		}
		if pooled {
			w.lastRes = "pooled"
		} else {
			w.lastRes = "closed"
			if spState(s) != "closed" && atomic.LoadUint32(&s.callbackInProcess) == 1 {
				w.lastRes = "closing" // deferred to the running callback goroutine; checked when OnData has returned
			} else if spState(s) != "closed" {
				w.fail("put-outcome", fmt.Sprintf("PutBack neither kept stream %d for reuse nor closed it (state %s)", h, spState(s)))
			} else if spInTable(s) && !s.session.IsClosed() {
				w.fail("put-outcome", fmt.Sprintf("PutBack closed stream %d but it is still counted as active", h))
			}
		}
		return true
	case "Send", "Flush":
		h := w.holderOf(st.C)
		if h == 0 {
			return false
		}
		s := w.streams[h-1]
		p := w.pairs[w.owner[h-1]-1]
		if s.session.IsClosed() {
			return false // (named restriction of the model: no request on a stream whose session is lost)
		}
		var held []*bufferSlice
		if st.F {
			held = p.hog(0)
		}
		var err error
		nreq := len(w.reqs[h-1])
		flushed := s.sendBuf.Len() / 3
		if st.A == "Send" {
			_, err = s.BufferWriter().WriteBytes([]byte{byte(h), byte(w.gen[h-1]), 0x10})
			flushed++
		}
		if err == nil {
			err = s.Flush(false)
		}
		if st.F {
			p.unhog(held)
		}
		defer func() {
			// a successful Flush delivers what was written: the peer's end exists and has received the request(s)
			if err == nil && w.viol == nil {
				w.res.OracleEvals["request-delivered"]++
				if w.srvObj[h-1] == nil || len(w.reqs[h-1]) != nreq+flushed {
					w.fail("lost-request", fmt.Sprintf("caller %d wrote %d request(s) to stream %d and Flush returned nil, but the peer received %d",
						st.C, flushed, h, len(w.reqs[h-1])-nreq))
				}
			}
		}()
		switch err {
		case nil:
			w.lastRes = "ok"
		case ErrStreamClosed:
			w.lastRes = "closed"
		default:
			w.lastRes = err.Error()
		}
		w.settleAll()
		return true
	case "Write":
		// the caller buffers a request and does not flush it
		h := w.holderOf(st.C)
		if h == 0 {
			return false
		}
		s := w.streams[h-1]
		if s.session.IsClosed() || s.sendBuf.Len() != 0 || spState(s) == "closed" || s.inFallbackState {
			return false // (outside the model: writing into a stream the caller itself closed leaks the buffer - C09)
		}
		if _, err := s.BufferWriter().WriteBytes([]byte{byte(h), byte(w.gen[h-1]), 0x11}); err != nil {
			w.fail("write", err.Error())
		}
		return true
	case "Read":
		h := w.holderOf(st.C)
		if h == 0 {
			return false
		}
		s := w.streams[h-1]
		if spUnreadBytes(s) < 3 || s.getCallbacks() != nil || atomic.LoadUint32(&s.callbackInProcess) == 1 {
			return false
		}
		s.SetReadDeadline(time.Now().Add(5 * time.Second))
		b, err := s.BufferReader().ReadBytes(3)
		s.SetReadDeadline(time.Time{})
		if err != nil || len(b) != 3 {
			w.fail("read", fmt.Sprintf("ReadBytes(3) on held stream %d with unread data: %v", h, err))
			return true
		}
		w.res.OracleEvals["read-tag"]++
		w.consume(s)
		if b[2] != 0x80 {
			w.fail("foreign-bytes", fmt.Sprintf("caller %d read %v from stream %d: these bytes are a REQUEST written into the stream (by use %d), not bytes the peer sent", st.C, b, h, b[1]))
		} else if int(b[0]) != h {
			w.fail("isolation", fmt.Sprintf("caller %d reading stream %d received bytes %v of stream %d", st.C, h, b, b[0]))
		} else if int(b[1]) != w.gen[h-1] {
			// an answer to a request of an earlier use. If it arrived after this caller obtained the stream, the stream
			// was clean when it was handed out (the earlier user gave it back with a request outstanding - nothing the
			// pool can see); if it was already there at the hand-out the stream carried bytes of an earlier use.
			arrivedIn := -1
			if a := w.arrivals[s]; len(a) > 0 {
				arrivedIn = a[0]
			}
			detail := fmt.Sprintf("caller %d (use %d of stream %d) read an answer to use %d that was in the stream when it was handed out", st.C, w.gen[h-1], h, b[1])
			if arrivedIn == w.gen[h-1] {
				w.res.OracleEvals["answer-to-earlier-use-arrived-after-handout"]++
			} else if w.staleOK[s] > 0 {
				w.staleOK[s]--
			} else {
				w.fail("fresh-bytes", detail)
			}
		}
		if a := w.arrivals[s]; len(a) > 0 {
			w.arrivals[s] = a[1:]
		}
		w.lastRes = "ok"
		return true
	case "CloseHeld":
		h := w.holderOf(st.C)
		if h == 0 {
			return false
		}
		if spState(w.streams[h-1]) == "closed" {
			return false
		}
		w.streams[h-1].Close()
		w.settleAll()
		return true
	case "PeerReply":
		if st.S < 1 || st.S > len(w.streams) || w.srvObj[st.S-1] == nil || len(w.reqs[st.S-1]) == 0 {
			return false
		}
		so := w.srvObj[st.S-1]
		p := w.pairs[w.owner[st.S-1]-1]
		if p.A.IsClosed() || spState(so) != "open" || spUnreadBytes(w.streams[st.S-1]) >= 6 {
			return false
		}
		g := w.reqs[st.S-1][0]
		w.reqs[st.S-1] = w.reqs[st.S-1][1:]
		var held []*bufferSlice
		if st.F {
			held = p.hog(0)
		}
		_, err := so.BufferWriter().WriteBytes([]byte{byte(st.S), g, 0x80})
		if err == nil {
			err = so.Flush(false)
		}
		if st.F {
			p.unhog(held)
		}
		if err != nil {
			w.lastRes = err.Error()
			return false
		}
		c := w.streams[st.S-1]
		w.delivered[c]++
		heldGen := 0
		for _, h := range w.holder {
			if h == st.S {
				heldGen = w.gen[st.S-1]
			}
		}
		w.arrivals[c] = append(w.arrivals[c], heldGen)
		for _, o := range w.ringObjs() {
			if o == c {
				w.lateIn[c]++
			}
		}
		w.settleAll()
		return true
	case "PeerClose":
		if st.S < 1 || st.S > len(w.streams) || w.srvObj[st.S-1] == nil {
			return false
		}
		if w.pairs[w.owner[st.S-1]-1].A.IsClosed() || spState(w.srvObj[st.S-1]) == "closed" {
			return false
		}
		w.srvObj[st.S-1].Close()
		w.reqs[st.S-1] = nil
		w.settleAll()
		return true
	case "SetCb":
		h := w.holderOf(st.C)
		if h == 0 {
			return false
		}
		s := w.streams[h-1]
		if s.getCallbacks() != nil || atomic.LoadUint32(&s.callbackInProcess) == 1 || spState(s) == "closed" {
			return false
		}
		cb := &spCb{w: w, s: s, id: h, gen: w.gen[h-1], release: make(chan struct{})}
		if err := s.SetCallbacks(cb); err != nil {
			w.fail("setcb", err.Error())
			return true
		}
		w.cbs[s] = cb
		w.allCbs = append(w.allCbs, cb)
		return true
	case "CbReturn":
		if st.S < 1 || st.S > len(w.streams) {
			return false
		}
		var cb *spCb
		for _, x := range w.allCbs {
			if x.s == w.streams[st.S-1] && x.isParked() {
				cb = x
			}
		}
		if cb == nil {
			return false
		}
		cb.letReturn()
		w.settleAll()
		return true
	case "PutBegin":
		h := w.holderOf(st.C)
		if h == 0 || w.puts[st.C] != nil {
			return false
		}
		s := w.streams[h-1]
		w.pooledOpen[s] = s.IsOpen()
		w.dirtyPut[s] = s.sendBuf.len > 0
		w.notePut(s)
		pb := &spPut{s: s, h: h}
		pb.th = vsSpawn(100+st.C, func(*vsThread) { w.sm.PutBack(s) })
		w.puts[st.C] = pb
		w.putAdvance(st.C, pb)
		return true
	case "PutRelease", "PutPush":
		pb := w.puts[st.C]
		if pb == nil {
			return false
		}
		want := map[string]string{"PutRelease": "Stream.ReleaseReadAndReuse", "PutPush": "streamPool.push"}[st.A]
		if pb.at != want {
			w.phaseDrift = fmt.Sprintf("the spec is at %s, the real PutBack is about to enter %s", st.A, pb.at)
		}
		w.putAdvance(st.C, pb)
		return true
	case "SessClose":
		p := w.curPair()
		if p.A.IsClosed() || w.cbRunning(p) {
			return false
		}
		p.A.Close()
		return true
	case "Teardown":
		if st.S < 1 || st.S > len(w.pairs) {
			return false
		}
		p := w.pairs[st.S-1]
		if w.sessState(p) != "closing" || w.cbRunning(p) {
			return false // (named restriction: the teardown would wait for the running OnData)
		}
		p.dispA.run()
		p.B.Close()
		p.dispB.run()
		return true
	case "PoolDrain":
		if !w.curPair().A.IsClosed() {
			return false
		}
		if !spCall("streamPool.close", func() { w.pool.close() }) {
			w.fail("hang", "streamPool.close did not return within 30 s")
			return true
		}
		w.settleAll()
		return true
	case "Rebuild":
		if !w.curPair().A.IsClosed() {
			return false
		}
		p, err := spNewPair()
		if err != nil {
			w.fail("fixture", err.Error())
			return true
		}
		p.A.manager = w.sm
		w.pairs = append(w.pairs, p)
		w.seenB = append(w.seenB, 0)
		w.pool.session.Store(p.A)
		return true
	}
	return false
}


// afterGet: bookkeeping and oracles at the moment GetStream returned (s, err) to caller c
func (w *spWorld) afterGet(c int, s *Stream, err error, before []*Stream) {
		if err != nil || s == nil {
			w.lastRes = "err"
			if err == nil {
				w.fail("get", "GetStream returned nil, nil")
			}
		} else {
			id := w.idOf(s)
			if id == 0 {
				w.streams = append(w.streams, s)
				w.owner = append(w.owner, 0)
				for pi, p := range w.pairs {
					if p.A == s.session {
						w.owner[len(w.owner)-1] = pi + 1
					}
				}
				w.gen = append(w.gen, 0)
				w.reqs = append(w.reqs, nil)
				w.srvObj = append(w.srvObj, nil)
				id = len(w.streams)
			}
			w.oracleHandOut(c, s, before)
			w.gen[id-1]++
			w.holder[c-1] = id
			w.lastRes = fmt.Sprintf("s%d", id)
		}
		// classify what the pool discarded on the way
		after := map[*Stream]bool{}
		for _, o := range w.ringObjs() {
			after[o] = true
		}
		for _, o := range before {
			if o == nil || after[o] || o == s {
				continue
			}
			delete(w.lateIn, o)
			// the listed class: a stream that was open when it was pooled, found not open (closed by the peer meanwhile)
			if !o.session.IsClosed() && spInTable(o) && w.pooledOpen[o] && atomic.LoadUint32(&o.callbackInProcess) == 0 {
				detail := fmt.Sprintf("GetStream discarded pooled stream %d (state %s) without closing it: it stays in the session's stream table (active count %d)",
					w.idOf(o), spState(o), o.session.GetActiveStreamCount())
				w.hit(spSlugDiscard, detail)
				if w.known[spSlugDiscard] {
					w.exempt[o] = true
				}
			}
		}
}

func (w *spWorld) notePut(s *Stream) {
	w.putClean[s] = s.IsOpen() && spUnreadBytes(s) == 0 && s.sendBuf.len == 0 && !s.inFallbackState
}

func (w *spWorld) cbRunning(p *vpPair) bool {
	for s := range w.cbs {
		if s.session == p.A && atomic.LoadUint32(&s.callbackInProcess) == 1 {
			return true
		}
	}
	return false
}

func (w *spWorld) holderOf(c int) int {
	if c < 1 || c > w.callers {
		return 0
	}
	return w.holder[c-1]
}

// finish: every caller gives its stream back, the pool is emptied the way streamPool.close() does it, the server
// application closes its ends: nothing may remain active on either side (outside the listed discard class), no buffer
// may remain allocated.
func (w *spWorld) releaseCallbacks() {
	for round := 0; round < 16; round++ {
		any := false
		for _, cb := range w.allCbs {
			if cb.isParked() {
				cb.letReturn()
				any = true
			}
		}
		w.settleAll()
		if !any || w.viol != nil {
			return
		}
	}
}

func (w *spWorld) finish() {
	for c, pb := range w.puts {
		for pb.at != "done" && w.viol == nil {
			w.putAdvance(c, pb)
		}
	}
	for c := 1; c <= w.callers; c++ {
		if w.holder[c-1] != 0 {
			w.do(spStep{A: "Put", C: c})
			w.oracleNoLeak("after the final PutBack")
			if w.viol != nil {
				return
			}
		}
	}
	// the users' callbacks return: closes deferred to them must now happen
	w.releaseCallbacks()
	if w.viol != nil {
		return
	}
	w.oracleNoLeak("after every callback has returned")
	if w.viol != nil {
		return
	}
	popped := map[*Stream]bool{}
	for s := w.pool.pop(); s != nil; s = w.pool.pop() {
		if popped[s] {
			w.fail("exclusive", fmt.Sprintf("while the pool is emptied it hands out stream %d a second time", w.idOf(s)))
			return
		}
		popped[s] = true
		s.Close()
	}
	w.settleAll()
	w.oracleNoLeak("after the pool was emptied")
	if w.viol != nil {
		return
	}
	w.res.OracleEvals["end-state"]++
	for pi, p := range w.pairs {
		if p.A.IsClosed() {
			continue
		}
		left := 0
		p.A.streamLock.RLock()
		for _, s := range p.A.streams {
			if !w.exempt[s] {
				left++
			}
		}
		exempt := len(p.A.streams) - left
		p.A.streamLock.RUnlock()
		if left != 0 {
			w.fail("leak", fmt.Sprintf("callers hold nothing and the pool is empty, but session %d still counts %d active stream(s)", pi+1, left))
			return
		}
		// release the exempted (known class) streams so that the ledger check below is exact
		if exempt > 0 {
			for s := range w.exempt {
				if s.session == p.A {
					s.Close()
				}
			}
			w.settleAll()
		}
		for _, so := range p.newStreamsB {
			so.Close()
		}
		w.settleAll()
		if n := p.B.GetActiveStreamCount(); n != 0 {
			w.fail("leak-server", fmt.Sprintf("every stream of session %d is closed on both ends but the server still counts %d", pi+1, n))
			return
		}
		used := p.inUse(p.A)
		if len(w.allCbs) > 0 {
			for deadline := time.Now().Add(10 * time.Second); used != 0 && time.Now().Before(deadline); time.Sleep(200 * time.Microsecond) {
				used = p.inUse(p.A) // (a callback goroutine may still be giving buffers back)
			}
		}
		if used != 0 {
			w.fail("leak-buffers", fmt.Sprintf("every stream of session %d is closed on both ends but %d shared-memory buffer(s) are still allocated", pi+1, used))
			return
		}
	}
}

func spStepStr(st spStep) string {
	switch st.A {
	case "Get", "Put", "Read", "CloseHeld", "Write", "SetCb", "PutBegin", "PutRelease", "PutPush", "Flush":
		return fmt.Sprintf("%s(%d)", st.A, st.C)
	case "CbReturn":
		return fmt.Sprintf("CbReturn(%d)", st.S)
	case "Send":
		return fmt.Sprintf("Send(%d,%v)", st.C, st.F)
	case "PeerReply":
		return fmt.Sprintf("PeerReply(%d,%v)", st.S, st.F)
	case "PeerClose", "Teardown":
		return fmt.Sprintf("%s(%d)", st.A, st.S)
	}
	return st.A
}

func spRunHistory(h spHistory, known []string, res *spResult, guarded bool) {
	if h.Raw {
		known = nil
	}
	w, err := spNewWorld(h.Cap, h.Callers, known, res)
	if err != nil {
		res.Violations = append(res.Violations, spViolation{Kind: "fixture", Detail: err.Error(), History: h.Name})
		return
	}
	defer w.destroy()
	if h.Sched {
		vsReset(vsSched)
		defer vsReset(vsOff)
		res.SchedHist++
	}
	drift := false
	var done []spStep
	func() {
		defer func() {
			if r := recover(); r != nil {
				w.fail("panic", fmt.Sprint(r))
			}
		}()
		for i, st := range h.Steps {
			ok := w.do(st)
			if !ok {
				if guarded {
					continue // random histories: a step that is not applicable is skipped
				}
				if !drift {
					drift = true
					res.DriftCount++
					if len(res.Drift) < 6 {
						res.Drift = append(res.Drift, fmt.Sprintf("%s step %d %s: not applicable on the real state", h.Name, i, spStepStr(st)))
					}
				}
				continue
			}
			res.Steps++
			done = append(done, spStep{A: st.A, C: st.C, S: st.S, F: st.F})
			if w.viol == nil {
				w.oracleNoLeak(fmt.Sprintf("after step %d %s", i, spStepStr(st)))
			}
			if w.viol == nil {
				w.oracleLedger(fmt.Sprintf("after step %d %s", i, spStepStr(st)))
			}
			if w.viol != nil {
				w.viol.At = i
				break
			}
			if w.phaseDrift != "" && !drift && !guarded {
				drift = true
				res.DriftCount++
				if len(res.Drift) < 6 {
					res.Drift = append(res.Drift, fmt.Sprintf("%s step %d %s: %s", h.Name, i, spStepStr(st), w.phaseDrift))
				}
			}
			if st.X != nil && !drift {
				if d := spDiff(w.project(len(st.X.St)), st.X); d != "" {
					drift = true
					res.DriftCount++
					if len(res.Drift) < 6 {
						var sb strings.Builder
						for _, p := range h.Steps[:i+1] {
							sb.WriteString(spStepStr(p) + " ")
						}
						res.Drift = append(res.Drift, fmt.Sprintf("%s step %d %s: %s [history: %s]", h.Name, i, spStepStr(st), d, sb.String()))
					}
				}
			}
			if os.Getenv("VS_DEBUG") != "" {
				j, _ := json.Marshal(w.project(h.N))
				fmt.Printf("DBG %s %d %s -> %s %s\n", h.Name, i, spStepStr(st), w.lastRes, j)
			}
		}
		if w.viol == nil {
			w.finish()
			if w.viol != nil {
				w.viol.At = len(h.Steps)
				w.viol.Detail += " [in the closing phase: every caller gives back what it holds, the pool is emptied]"
			}
		}
	}()
	if w.viol != nil {
		w.viol.History = h.Name
		if guarded {
			w.viol.Steps = done
		} else {
			w.viol.Steps = h.Steps
			for i := range w.viol.Steps {
				w.viol.Steps[i].X = nil
			}
		}
		res.Violations = append(res.Violations, *w.viol)
	}
	res.Replayed++
	hasX := false
	for _, st := range h.Steps {
		if st.X != nil {
			hasX = true
		}
	}
	if !drift && !guarded && hasX {
		res.Conforming++
	}
	if guarded && len(res.Samples) < 3 {
		var sb strings.Builder
		for _, p := range done {
			sb.WriteString(spStepStr(p) + " ")
		}
		res.Samples = append(res.Samples, sb.String())
	}
}

// ---- concurrent callers on one pool (free running) --------------------------------------------------------------

func spRunConcurrent(job spConcJob, run int, res *spResult) {
	p, err := spNewPair()
	if err != nil {
		res.Violations = append(res.Violations, spViolation{Kind: "fixture", Detail: err.Error()})
		return
	}
	defer p.destroy()
	pool := newStreamPool(uint32(job.Cap))
	pool.session.Store(p.A)
	sm := &SessionManager{pools: []*streamPool{pool}, config: &SessionManagerConfig{Config: DefaultConfig(), SessionNum: 1, MaxStreamNum: job.Cap}}
	var mu sync.Mutex
	var events []spConcEvent
	ids := map[*Stream]int{}
	owner := map[*Stream]int{} // stream -> caller holding it (harness ledger, updated at return / before invoke)
	var bad atomic.Value
	// streams are numbered by their real ids: the client's first OpenStream gets id 2, then 3, ... (= the order in which
	// the spec numbers them)
	idOf := func(s *Stream) int {
		if s == nil {
			return 0
		}
		ids[s] = int(s.id) - 1
		return ids[s]
	}
	var wg sync.WaitGroup
	for c := 1; c <= job.Callers; c++ {
		wg.Add(1)
		go func(c int) {
			defer wg.Done()
			rng := rand.New(rand.NewSource(job.Seed*1000003 + int64(run)*101 + int64(c)))
			for i := 0; i < job.Ops; i++ {
				mu.Lock()
				events = append(events, spConcEvent{Ev: "inv", C: c, Op: "get"})
				mu.Unlock()
				if rng.Intn(2) == 0 {
					runtime.Gosched()
				}
				s, err := sm.GetStream()
				mu.Lock()
				if err != nil || s == nil {
					events = append(events, spConcEvent{Ev: "ret", C: c, Op: "get", Out: "err"})
					mu.Unlock()
					continue
				}
				id := idOf(s)
				if o := owner[s]; o != 0 {
					bad.Store(fmt.Sprintf("concurrent run %d: GetStream returned stream %d to caller %d while caller %d holds it", run, id, c, o))
				}
				owner[s] = c
				if !s.IsOpen() || s.Session().IsClosed() || spUnreadBytes(s) != 0 {
					bad.Store(fmt.Sprintf("concurrent run %d: GetStream returned stream %d not fresh (state %s, unread %d)", run, id, spState(s), spUnreadBytes(s)))
				}
				events = append(events, spConcEvent{Ev: "ret", C: c, Op: "get", S: id, Out: "ok"})
				mu.Unlock()
				if rng.Intn(3) == 0 {
					time.Sleep(time.Duration(rng.Intn(50)) * time.Microsecond)
				}
				mu.Lock()
				delete(owner, s)
				events = append(events, spConcEvent{Ev: "inv", C: c, Op: "put", S: id})
				mu.Unlock()
				if rng.Intn(2) == 0 {
					runtime.Gosched()
				}
				sm.PutBack(s)
				out := "closed"
				if s.IsOpen() {
					out = "pooled"
				}
				mu.Lock()
				events = append(events, spConcEvent{Ev: "ret", C: c, Op: "put", S: id, Out: out})
				mu.Unlock()
			}
		}(c)
	}
	doneCh := make(chan struct{})
	go func() { wg.Wait(); close(doneCh) }()
	select {
	case <-doneCh:
	case <-time.After(120 * time.Second):
		res.Violations = append(res.Violations, spViolation{Kind: "hang", Detail: "concurrent callers did not finish in 120 s"})
		spHung.Store("concurrent callers did not finish")
		return
	}
	res.ConcRuns++
	res.ConcOps += job.Callers * job.Ops * 2
	if v := bad.Load(); v != nil {
		res.Violations = append(res.Violations, spViolation{Kind: "exclusive", Detail: v.(string), History: fmt.Sprintf("concurrent seed=%d run=%d", job.Seed, run)})
		return
	}
	spSettle(p)
	// quiescent: nobody holds anything -> active count == what the pool keeps, all distinct, <= capacity
	res.OracleEvals["conc-quiescent"]++
	w := &spWorld{cap: job.Cap, callers: 0, pairs: []*vpPair{p}, pool: pool, res: res, exempt: map[*Stream]bool{}}
	w.oracleNoLeak(fmt.Sprintf("after %d concurrent callers finished", job.Callers))
	if w.viol == nil {
		if a, k := p.A.GetActiveStreamCount(), len(w.ringObjs()); a != k {
			w.fail("leak", fmt.Sprintf("after %d concurrent callers gave everything back the session counts %d active streams, the pool keeps %d", job.Callers, a, k))
		}
	}
	if w.viol != nil {
		w.viol.History = fmt.Sprintf("concurrent seed=%d run=%d", job.Seed, run)
		res.Violations = append(res.Violations, *w.viol)
		return
	}
	reused := 0
	seen := map[int]bool{}
	for _, e := range events {
		if e.Ev == "ret" && e.Op == "get" && e.S != 0 {
			if seen[e.S] {
				reused++
			}
			seen[e.S] = true
		}
	}
	res.ConcReuse += reused
	if len(res.ConcTraces) < 64 {
		res.ConcTraces = append(res.ConcTraces, events)
	}
	for i, s := 0, pool.pop(); s != nil && i <= job.Cap; i, s = i+1, pool.pop() {
		s.Close()
	}
}

// spSweepOne: setup, then caller A's PutBack and caller B's GetStream+WriteBytes as two threads of the serialising
// scheduler, interleaved by `policy` (1 = step A, 2 = step B); then B flushes, the peer answers, B reads; then the closing
// phase. Returns the schedule and the number of steps A took.
func spSweepOne(sw spSweep, known []string, res *spResult, name string, policy func(i, aSteps int, bDone bool) int) ([]int, int, bool) {
	w, err := spNewWorld(sw.Cap, sw.Callers, known, res)
	if err != nil {
		res.Violations = append(res.Violations, spViolation{Kind: "fixture", Detail: err.Error(), History: name})
		return nil, 0, false
	}
	defer w.destroy()
	var sched []int
	aSteps := 0
	ok := true
	func() {
		defer func() {
			if r := recover(); r != nil {
				w.fail("panic", fmt.Sprint(r))
			}
		}()
		for _, st := range sw.Setup {
			if !w.do(st) || w.viol != nil {
				ok = false
				return
			}
		}
		hA := w.holderOf(sw.A)
		if hA == 0 || w.holderOf(sw.B) != 0 {
			ok = false
			return
		}
		sA := w.streams[hA-1]
		vsReset(vsSched)
		defer vsReset(vsOff)
		w.sweep = true
		w.pooledOpen[sA] = sA.IsOpen()
		w.dirtyPut[sA] = sA.sendBuf.len > 0
		w.holder[sw.A-1] = 0 // A gives the stream back; from now on it must not matter to anybody what A's PutBack still does
		pb := &spPut{s: sA, h: hA}
		w.puts[sw.A] = pb
		thA := vsSpawn(1, func(*vsThread) { w.sm.PutBack(sA) })
		thB := vsSpawn(2, func(*vsThread) {
			s, err := w.sm.GetStream()
			w.afterGet(sw.B, s, err, nil)
			if h := w.holderOf(sw.B); h != 0 {
				if s == sA {
					res.SweepReuse++
				}
				s.BufferWriter().WriteBytes([]byte{byte(h), byte(w.gen[h-1]), 0x10})
			}
		})
		seen := map[string]bool{}
		for i := 0; !(thA.done && thB.done); i++ {
			canA, canB := vsEnabled(thA), vsEnabled(thB)
			if !canA && !canB {
				w.fail("hang", "PutBack and GetStream wait for each other")
				return
			}
			pick := policy(i, aSteps, thB.done)
			if pick == 1 && !canA {
				pick = 2
			} else if pick == 2 && !canB {
				pick = 1
			}
			th := thA
			if pick == 2 {
				th = thB
			} else {
				aSteps++
			}
			_, now := vsStep(th)
			seen[fmt.Sprintf("%d@%s", pick, now)] = true
			sched = append(sched, pick)
		}
		for _, th := range []*vsThread{thA, thB} {
			if th.panicVal != nil {
				w.fail("panic", fmt.Sprint(th.panicVal))
				return
			}
		}
		for l := range seen {
			found := false
			for _, x := range res.SweepLabels {
				if x == l {
					found = true
				}
			}
			if !found && len(res.SweepLabels) < 200 {
				res.SweepLabels = append(res.SweepLabels, l)
			}
		}
		vsReset(vsOff)
		w.sweep = false
		delete(w.puts, sw.A)
		w.settleAll()
		w.putOutcome(sA, hA)
		if w.viol == nil {
			w.oracleNoLeak("after PutBack and GetStream have both returned")
		}
		if w.viol == nil {
			w.oracleLedger("after PutBack and GetStream have both returned")
		}
		// B uses what it obtained: flush the request it wrote, get the answer, read it
		if hB := w.holderOf(sw.B); hB != 0 && w.viol == nil {
			for _, st := range []spStep{{A: "Flush", C: sw.B}, {A: "PeerReply", S: hB}, {A: "Read", C: sw.B}} {
				if !w.do(st) && w.viol == nil {
					w.fail("use-after-get", fmt.Sprintf("caller %d obtained stream %d, wrote a request; then %s was not possible (state %s, unread %d)",
						sw.B, hB, spStepStr(st), spState(w.streams[hB-1]), spUnreadBytes(w.streams[hB-1])))
				}
				if w.viol == nil {
					w.oracleLedger("after " + spStepStr(st))
				}
				if w.viol != nil {
					break
				}
			}
		}
		if w.viol == nil {
			w.finish()
		}
	}()
	if !ok {
		return nil, 0, false
	}
	res.SweepRuns++
	if w.viol != nil {
		w.viol.History = name
		w.viol.Steps = sw.Setup
		w.viol.At = len(sw.Setup)
		c := sw
		c.Only = sched
		c.Random = 0
		w.viol.Sweep = &c
		var sb strings.Builder
		for _, x := range sched {
			sb.WriteString([]string{"", "A", "B"}[x])
		}
		w.viol.Detail += fmt.Sprintf(" [caller %d PutBack (A) / caller %d GetStream+WriteBytes (B) interleaved at scheduling points: %s]", sw.A, sw.B, sb.String())
		res.Violations = append(res.Violations, *w.viol)
	}
	return sched, aSteps, true
}

func spRunSweep(sw spSweep, known []string, res *spResult) {
	if len(sw.Only) > 0 {
		spSweepOne(sw, known, res, sw.Name+"/replay", func(i, a int, bd bool) int {
			if i < len(sw.Only) {
				return sw.Only[i]
			}
			return 1
		})
		return
	}
	nv := len(res.Violations)
	// B runs (to its end) at A's k-th scheduling point, for every k
	for k := 0; k < 200; k++ {
		_, aSteps, ok := spSweepOne(sw, known, res, fmt.Sprintf("%s/B-at-A-step-%d", sw.Name, k), func(i, a int, bDone bool) int {
			if a < k || bDone {
				return 1
			}
			return 2
		})
		if !ok {
			return
		}
		res.SweepPoints++
		if k >= aSteps || len(res.Violations) > nv+2 {
			break
		}
	}
	// seeded random interleavings of the two
	rng := rand.New(rand.NewSource(sw.Seed))
	for r := 0; r < sw.Random && len(res.Violations) <= nv+2; r++ {
		spSweepOne(sw, known, res, fmt.Sprintf("%s/random-%d", sw.Name, r), func(i, a int, bDone bool) int { return 1 + rng.Intn(2) })
		res.SweepPoints++
	}
}

func TestVS_StreamPool(t *testing.T) {
	var job spJob
	b, err := os.ReadFile(os.Getenv("VS_IN_JOB"))
	if err != nil {
		t.Skip("no job")
	}
	if err := json.Unmarshal(b, &job); err != nil {
		t.Fatal(err)
	}
	res := &spResult{Violations: []spViolation{}, Drift: []string{}, Samples: []string{}, KnownHits: map[string]int{},
		KnownWit: map[string]string{}, OracleEvals: map[string]int{}, ConcTraces: [][]spConcEvent{}, SweepLabels: []string{}}
	flush := func() {
		out, _ := json.Marshal(res)
		os.WriteFile(os.Getenv("VS_OUT"), out, 0o644)
	}
	defer flush()
	// histories are independent worlds (own pairs, own pool): they are replayed by a few workers side by side; each
	// history's observations are merged into the result under a lock, and flushed when a violation was seen (a later
	// hang must not lose what has been observed)
	var mu sync.Mutex
	newLocal := func() *spResult {
		return &spResult{Violations: []spViolation{}, Drift: []string{}, Samples: []string{}, KnownHits: map[string]int{},
			KnownWit: map[string]string{}, OracleEvals: map[string]int{}, ConcTraces: [][]spConcEvent{}}
	}
	merge := func(l *spResult, guarded bool) {
		mu.Lock()
		defer mu.Unlock()
		if guarded {
			res.RandomRuns++
			res.RandomSteps += l.Steps
		} else {
			res.Replayed += l.Replayed
			res.Steps += l.Steps
			res.Conforming += l.Conforming
		}
		res.DriftCount += l.DriftCount
		for _, d := range l.Drift {
			if len(res.Drift) < 6 {
				res.Drift = append(res.Drift, d)
			}
		}
		for k, v := range l.KnownHits {
			res.KnownHits[k] += v
		}
		for k, v := range l.KnownWit {
			if res.KnownWit[k] == "" {
				res.KnownWit[k] = v
			}
		}
		for k, v := range l.OracleEvals {
			res.OracleEvals[k] += v
		}
		for _, s := range l.Samples {
			if len(res.Samples) < 3 {
				res.Samples = append(res.Samples, s)
			}
		}
		if len(l.Violations) > 0 {
			res.Violations = append(res.Violations, l.Violations...)
			flush()
		}
	}
	stop := func(limit int) bool {
		mu.Lock()
		defer mu.Unlock()
		return len(res.Violations) >= limit || spHung.Load() != nil
	}
	runAll := func(hs []spHistory, guarded bool, limit int) {
		workers := 4
		if os.Getenv("VS_DEBUG") != "" {
			workers = 1
		}
		var next int32 = -1
		var wg sync.WaitGroup
		for k := 0; k < workers; k++ {
			wg.Add(1)
			go func() {
				defer wg.Done()
				for {
					i := int(atomic.AddInt32(&next, 1))
					if i >= len(hs) || stop(limit) {
						return
					}
					l := newLocal()
					spRunHistory(hs[i], job.Known, l, guarded)
					merge(l, guarded)
				}
			}()
		}
		wg.Wait()
	}
	var par, seq []spHistory
	for _, h := range job.Histories {
		if h.Sched {
			seq = append(seq, h)
		} else {
			par = append(par, h)
		}
	}
	runAll(par, false, 8)
	if stop(8) {
		return
	}
	// the serialising scheduler is one per process: these run one after the other, nothing else runs meanwhile
	for _, h := range seq {
		l := newLocal()
		spRunHistory(h, job.Known, l, false)
		res.SchedHist += l.SchedHist
		merge(l, false)
		if stop(8) {
			return
		}
	}
	for _, sw := range job.Sweeps {
		l := newLocal()
		spRunSweep(sw, job.Known, l)
		res.SweepRuns += l.SweepRuns
		res.SweepPoints += l.SweepPoints
		res.SweepReuse += l.SweepReuse
		for _, x := range l.SweepLabels {
			if len(res.SweepLabels) < 200 {
				res.SweepLabels = append(res.SweepLabels, x)
			}
		}
		l.Replayed, l.Steps, l.Conforming = 0, 0, 0
		merge(l, false)
		if stop(8) {
			return
		}
	}
	// seeded random histories (oracles only): any action, skipped when not applicable
	rng := rand.New(rand.NewSource(job.Random.Seed))
	acts := []string{"Get", "Get", "Put", "Put", "Send", "Send", "Read", "Write", "SetCb", "CbReturn", "CbReturn", "PeerReply", "PeerReply", "PeerClose", "CloseHeld",
		"SessClose", "Teardown", "PoolDrain", "Rebuild"}
	var rh []spHistory
	for run := 0; run < job.Random.N; run++ {
		h := spHistory{Name: fmt.Sprintf("random seed=%d run=%d", job.Random.Seed, run), Cap: job.Random.Cap, Callers: job.Random.Callers, N: 0}
		if run%3 == 1 {
			h.Cap = 1 + rng.Intn(3)
		}
		for i := 0; i < job.Random.Steps; i++ {
			a := acts[rng.Intn(len(acts))]
			if (a == "SessClose" || a == "Rebuild") && rng.Intn(4) != 0 {
				a = "Get"
			}
			h.Steps = append(h.Steps, spStep{A: a, C: 1 + rng.Intn(h.Callers), S: 1 + rng.Intn(4), F: rng.Intn(5) == 0})
		}
		rh = append(rh, h)
	}
	runAll(rh, true, 4)
	if stop(4) {
		return
	}
	for run := 0; run < job.Conc.Runs; run++ {
		spRunConcurrent(job.Conc, run, res)
		flush()
		if len(res.Violations) >= 4 || spHung.Load() != nil {
			return
		}
	}
}
