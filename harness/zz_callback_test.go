package shmipc

// Binding B1 for the Callback module (C20, callback part of C10): the REAL Stream.fillDataToReadBuffer / halfClose /
// Close / close and the callback goroutine closure run under the serialising scheduler (gopool.Go is replaced by a
// scheduler thread, the wait-group wait is scheduler-aware); TLC behaviours are replayed one step per action with the
// stream's state, counters and the bytes offered to OnData compared with the spec.

import (
	"encoding/json"
	"fmt"
	"math/rand"
	"os"
	"strings"
	"sync/atomic"
	"testing"
	"unsafe"
)

type cbStep struct {
	Act string `json:"a"`
	C   int    `json:"c"` // caller / goroutine index (0 user)
	G   int    `json:"g"` // for ECas: slot of the goroutine spawned by this step (0 none)
	Exp *cbExp `json:"x"`
}

type cbExp struct {
	State   string `json:"state"`
	Pending int    `json:"pending"`
	Recv    int    `json:"recv"`
	Offered []int  `json:"offered"`
	Cip     int    `json:"cip"`
	Ccs     int    `json:"ccs"`
	Wg      int    `json:"wg"`
	InOn    int    `json:"inondata"`
	LocalCb int    `json:"localcb"`
	RemCb   int    `json:"remotecb"`
	Peer    bool   `json:"peer"`
}

type cbSchedule struct {
	Name      string   `json:"name"`
	Events    string   `json:"events"`
	UserClose bool     `json:"userclose"`
	InOnData  bool     `json:"inondata"`
	Steps     []cbStep `json:"steps"`
	Raw       bool     `json:"raw"`
	// KeepPinned: OnData does not release what it read, the slices stay pinned in the read buffer until the close
	KeepPinned bool `json:"keeppinned"`
}

type cbJob struct {
	Schedules []cbSchedule `json:"schedules"`
	Known     []string     `json:"known"`
	Random    struct {
		N    int    `json:"n"`
		Seed int64  `json:"seed"`
		Tag  string `json:"tag"`
	} `json:"random"`
}

type cbViolation struct {
	Property  string   `json:"property"`
	Kind      string   `json:"kind"`
	Detail    string   `json:"detail"`
	Schedule  string   `json:"schedule"`
	Events    string   `json:"events"`
	UserClose bool     `json:"userclose"`
	InOnData  bool     `json:"inondata"`
	Steps     []cbStep `json:"steps"`
	Kf        string   `json:"kf"`
	KeepPinned bool    `json:"keeppinned"`
}

type cbResult struct {
	Replayed    int               `json:"replayed"`
	Steps       int               `json:"steps"`
	Conforming  int               `json:"conforming"`
	DriftCount  int               `json:"drift_count"`
	Drift       []string          `json:"drift"`
	Violations  []cbViolation     `json:"violations"`
	KnownHits   map[string]int    `json:"known_hits"`
	KnownWit    map[string]string `json:"known_witness"`
	RandomRuns  int               `json:"random_runs"`
	RandomSteps int               `json:"random_steps"`
	Settles     int               `json:"settle_checks"`
	OnDataCalls int               `json:"ondata_calls"`
	LedgerChecks int              `json:"ledger_checks"`
	// Points: how often each party (E event loop, U user, G callback goroutine) executed a scheduling point of a function
	Points map[string]int `json:"points"`
	Samples     []string          `json:"samples"`
}

type cbWorld struct {
	pair      *vpPair
	rx, tx    *Stream // rx: the client-end stream with callbacks installed (receiver); tx: the server-end stream (sender)
	events    string
	inOnData  bool
	ethr      *cbThr
	uthr      *cbThr
	gthr      map[int]*vsThread // slot -> goroutine thread
	spawnSeen int
	next      int // next event index (0-based)
	delivered []int
	offered   []int
	inside    int32
	maxInside int32
	localCb   int
	remoteCb  int
	localCloseCalled bool
	closedInOnData   bool
	keepPinned       bool
	offerAfterClose  bool
	stepNo           int
	closeReturnedAt  int               // step number at which a local Close() call returned (-1: none yet)
	lastStateLoad    map[*vsThread]int // per goroutine: step number of its last IsOpen() state load
	closePending     map[*vsThread]bool
	spawnSlot int
	viol      *cbViolation
	kf        string
	known     map[string]bool
	res       *cbResult
}

type cbThr struct {
	th   *vsThread
	next func()
}

func (w *cbWorld) fail(prop, kind, detail string) {
	if w.viol == nil {
		w.viol = &cbViolation{Property: prop, Kind: kind, Detail: detail, Kf: w.kf}
	}
}

func (w *cbWorld) failKf(prop, kind, detail string) {
	if w.kf != "" {
		w.res.KnownHits[w.kf]++
		if w.res.KnownWit[w.kf+"/"+prop] == "" {
			w.res.KnownWit[w.kf+"/"+prop] = detail
		}
		if w.known[w.kf] {
			return
		}
	}
	w.fail(prop, kind, detail)
}

// StreamCallbacks of the receiving end
type cbCallbacks struct{ w *cbWorld }

func (c *cbCallbacks) OnData(reader BufferReader) {
	w := c.w
	n := atomic.AddInt32(&w.inside, 1)
	if n > w.maxInside {
		w.maxInside = n
	}
	w.res.OnDataCalls++
	// "stops being offered once the stream is closed": an OnData invocation whose open-check was made after a local
	// Close() call had returned
	if cur := vsCur; cur != nil && w.closeReturnedAt >= 0 && w.lastStateLoad[cur] > w.closeReturnedAt {
		w.offerAfterClose = true
	}
	if l := reader.Len(); l > 0 {
		b, err := reader.ReadBytes(l)
		if err != nil || len(b) != l || l%3 != 0 {
			w.fail("C20", "ondata-read", fmt.Sprintf("OnData: Len()=%d ReadBytes -> len %d err %v", l, len(b), err))
		} else {
			for i := 0; i+3 <= l; i += 3 {
				w.offered = append(w.offered, int(b[i+2]))
			}
		}
		if !w.keepPinned {
			reader.ReleasePreviousRead()
		}
	}
	vsYield("cb:ondata")
	if w.inOnData && !w.closedInOnData {
		w.closedInOnData = true
		w.localCloseCalled = true
		w.rx.Close()
		w.closeReturnedAt = w.stepNo
		vsYield("cb:after-close")
	}
	atomic.AddInt32(&w.inside, -1)
}
func (c *cbCallbacks) OnLocalClose()  { c.w.localCb++ }
func (c *cbCallbacks) OnRemoteClose() { c.w.remoteCb++ }

// raw state read that is not a scheduling point
func (s *Stream) getStreamStateRaw() uint32 { return atomic.LoadUint32(&s.state) }

func cbNewWorld(pair *vpPair, events string, inOnData bool, known []string, res *cbResult) *cbWorld {
	w := &cbWorld{pair: pair, events: events, inOnData: inOnData, res: res, known: map[string]bool{}, gthr: map[int]*vsThread{},
		closeReturnedAt: -1, lastStateLoad: map[*vsThread]int{}, closePending: map[*vsThread]bool{}}
	for _, k := range known {
		w.known[k] = true
	}
	vsReset(vsOff)
	var err error
	w.rx, err = pair.A.OpenStream()
	if err != nil {
		panic(err)
	}
	w.rx.SetCallbacks(&cbCallbacks{w})
	// bootstrap: the client's first message makes the server end of the stream appear
	pair.newStreamsB = nil
	w.rx.BufferWriter().WriteBytes([]byte{0, 0, 0})
	if err := w.rx.Flush(false); err != nil {
		panic(err)
	}
	if err := pair.settle(); err != nil || len(pair.newStreamsB) == 0 {
		panic(fmt.Sprint("bootstrap: ", err))
	}
	w.tx = pair.newStreamsB[len(pair.newStreamsB)-1]
	if b, err := w.tx.BufferReader().ReadBytes(3); err != nil || len(b) != 3 {
		panic("bootstrap read")
	}
	w.tx.BufferReader().ReleasePreviousRead()
	vsReset(vsSched)
	mk := func(id int) *cbThr {
		t := &cbThr{}
		t.th = vsSpawn(id, func(th *vsThread) {
			for {
				vsYield("idle")
				if t.next == nil {
					return
				}
				f := t.next
				t.next = nil
				f()
			}
		})
		vsStep(t.th)
		return t
	}
	w.ethr = mk(100)
	w.uthr = mk(0)
	return w
}

func (w *cbWorld) closeWorld() {
	for _, t := range []*cbThr{w.ethr, w.uthr} {
		if !t.th.done && t.th.pos == "idle" {
			t.next = nil
			vsStep(t.th)
		}
	}
	vsReset(vsOff)
}

func (w *cbWorld) project() *cbExp {
	x := &cbExp{Offered: append([]int{}, w.offered...), LocalCb: w.localCb, RemCb: w.remoteCb, State: "open"}
		s := w.rx
	x.State = ssState(s)
	s.pendingData.Lock()
	x.Pending = len(s.pendingData.unread)
	s.pendingData.Unlock()
	x.Recv = s.recvBuf.len / 3
	x.Cip = int(atomic.LoadUint32(&s.callbackInProcess))
	x.Ccs = int(atomic.LoadUint32(&s.callbackCloseState))
	x.Wg = vsWgCount[&s.asyncGoroutineWg]
	x.InOn = int(atomic.LoadInt32(&w.inside))
	// has the peer been told? a close element on B's send queue or a stream-close event recorded
	q := w.pair.A.queueManager.sendQueue
	for i := *q.head; i < *q.tail; i++ {
		off := (i % q.cap) * queueElementLen
		if streamState(*(*uint32)(unsafe.Pointer(&q.queueBytesOnMemory[off+8]))&0xff) == streamClosed {
			x.Peer = true
		}
	}
	w.pair.connA.mu.Lock()
	for _, ch := range w.pair.connA.chunks {
		if len(ch) >= headerSize && header(ch).MsgType() == typeStreamClose {
			x.Peer = true
		}
	}
	w.pair.connA.mu.Unlock()
	return x
}

func cbDiff(a, b *cbExp) string {
	ja, _ := json.Marshal(a)
	jb, _ := json.Marshal(b)
	if string(ja) == string(jb) {
		return ""
	}
	return fmt.Sprintf("real %s spec %s", ja, jb)
}

func (w *cbWorld) unoffered() int {
	seen := map[int]bool{}
	for _, o := range w.offered {
		seen[o] = true
	}
	n := 0
	for _, d := range w.delivered {
		if !seen[d] {
			n++
		}
	}
	return n
}

// stepThread executes one scheduling step of a thread and applies the classifier of the known findings
func (w *cbWorld) stepThread(th *vsThread) {
	before := ""
	if w.rx != nil {
		before = ssState(w.rx)
	}
	w.stepNo++
	ex, _ := vsStep(th)
	if tf := os.Getenv("VS_TRACE"); tf != "" {
		if f, err := os.OpenFile(tf, os.O_APPEND|os.O_CREATE|os.O_WRONLY, 0o644); err == nil {
			fmt.Fprintf(f, "%d thread %d: %s -> now at %s\n", w.stepNo, th.id, ex, th.pos)
			f.Close()
		}
	}
	if w.res.Points != nil {
		role := "G"
		if th == w.ethr.th {
			role = "E"
		} else if th == w.uthr.th {
			role = "U"
		}
		fn := ex
		if i := strings.Index(fn, ":"); i > 0 {
			fn = fn[:i]
		}
		w.res.Points[role+" "+fn]++
	}
	if strings.HasPrefix(ex, "Stream.getStreamState") {
		w.lastStateLoad[th] = w.stepNo
	}
	if strings.HasPrefix(ex, "Stream.Close:CompareAndSwapUint32") && w.kf == "" {
		w.kf = "close-during-callback"
	}
	if strings.HasPrefix(ex, "Stream.halfClose:CompareAndSwapUint32") && w.kf == "" && before == "open" && w.rx != nil && ssState(w.rx) == "half" && w.unoffered() > 0 {
		w.kf = "peer-close-before-offer"
	}
	// goroutines spawned by this step
	for ; w.spawnSeen < len(vsSpawned); w.spawnSeen++ {
		t := vsSpawned[w.spawnSeen]
		slot := w.spawnSlot
		if slot == 0 {
			slot = 1
			for w.gthr[slot] != nil && !w.gthr[slot].done {
				slot++
			}
		}
		w.spawnSlot = 0
		w.gthr[slot] = t
	}
	if th.panicVal != nil {
		w.fail("C20", "panic", fmt.Sprint(th.panicVal))
	}
	if w.maxInside > 1 {
		w.failKf("C20", "not-serial", fmt.Sprintf("OnData ran %d times concurrently for one stream", w.maxInside))
	}
	if w.offerAfterClose {
		w.failKf("C20", "offered-after-close", "OnData was started, with its open-check made after a local Close() had already returned")
	}
	w.checkOffered()
}

func (w *cbWorld) checkOffered() {
	for i, o := range w.offered {
		if i >= len(w.delivered) || o != w.delivered[i] {
			// offered must be a prefix-ordered subsequence without repeats; with everything read per call it is a prefix
			pos := -1
			for k, d := range w.delivered {
				if d == o {
					pos = k
				}
			}
			if pos < 0 {
				w.failKf("C20", "invented", fmt.Sprintf("OnData was offered message %d which was not delivered (offered %v delivered %v)", o, w.offered, w.delivered))
				return
			}
		}
		for k := 0; k < i; k++ {
			if w.offered[k] == o {
				w.failKf("C20", "offered-twice", fmt.Sprintf("message %d offered twice: %v", o, w.offered))
				return
			}
			if w.offered[k] > o {
				w.failKf("C20", "offered-out-of-order", fmt.Sprintf("offered %v", w.offered))
				return
			}
		}
	}
}

func (w *cbWorld) caller(c int) *vsThread {
	if c == 0 {
		return w.uthr.th
	}
	return w.gthr[c]
}

// do executes one spec action; returns false when it is not applicable on the real state
func (w *cbWorld) do(st cbStep) bool {
	switch st.Act {
	case "EData", "EClose":
		if w.ethr.th.pos != "idle" || w.next >= len(w.events) {
			return false
		}
		i := w.next
		w.next++
		if w.events[i] == 'd' {
			if _, err := w.tx.BufferWriter().WriteBytes([]byte{1, 0xA0, byte(i + 1)}); err != nil {
				w.fail("C20", "harness", err.Error())
				return true
			}
			if err := w.tx.Flush(false); err != nil {
				w.fail("C20", "harness", "flush: "+err.Error())
				return true
			}
			w.delivered = append(w.delivered, i+1)
		} else {
			w.tx.Close()
		}
		chunks := w.pair.connB.take()
		w.ethr.next = func() {
			for _, ch := range chunks {
				if _, err := w.pair.feed(w.pair.A, ch); err != nil {
					w.fail("C20", "event", err.Error())
				}
			}
		}
		w.stepThread(w.ethr.th) // runs to the first scheduling point (pendingData.add already done for data)
		return true
	case "EChk", "EDrop", "ECas", "ERechk", "EUndo", "EHalf":
		if w.ethr.th.pos == "idle" {
			return false
		}
		w.spawnSlot = st.G
		w.stepThread(w.ethr.th)
		return true
	case "UStart":
		if w.uthr.th.pos != "idle" || w.rx == nil {
			return false
		}
		w.localCloseCalled = true
		w.uthr.next = func() { w.rx.Close(); w.closeReturnedAt = w.stepNo }
		w.stepThread(w.uthr.th)
		return true
	case "ENext":
		return w.do(cbStep{Act: "EData"})
	case "step":
		// replay of a recorded random interleaving: st.C is the scheduler id of the thread that moved
		var th *vsThread
		switch {
		case st.C == 0:
			th = w.uthr.th
		case st.C == 100:
			th = w.ethr.th
		case st.C >= 1000 && st.C-1000 < len(vsSpawned):
			th = vsSpawned[st.C-1000]
		}
		if th == nil || th.done || th.pos == "idle" || !vsEnabled(th) {
			return false
		}
		w.stepThread(th)
		return true
	case "URet", "GOnDataCloseRet", "GClosingRet":
		return true // no step of the real code corresponds (return from a call)
	case "PubClose1", "PubClose2", "PubClose3", "CloseBegin", "CloseCas", "CloseWait", "CloseClean",
		"GMove", "GLoop", "GOnDataClose", "GOnDataEnd", "GClr", "GLdCcs", "GReCas":
		th := w.caller(st.C)
		if th == nil || th.done || th.pos == "idle" || !vsEnabled(th) {
			return false
		}
		w.stepThread(th)
		return true
	}
	return false
}

// finish: let every thread run to completion, deliver the remaining events, then evaluate the settle oracles
func (w *cbWorld) finish() {
	for guard := 0; guard < 10000; guard++ {
		moved := false
		ths := []*vsThread{w.ethr.th, w.uthr.th}
		for _, t := range vsSpawned {
			ths = append(ths, t)
		}
		for _, th := range ths {
			if !th.done && th.pos != "idle" && vsEnabled(th) {
				w.stepThread(th)
				moved = true
				if w.viol != nil {
					return
				}
			}
		}
		if !moved {
			if w.ethr.th.pos == "idle" && w.next < len(w.events) {
				act := "EData"
				if w.events[w.next] == 'c' {
					act = "EClose"
				}
				w.do(cbStep{Act: act})
				moved = true
			}
		}
		if !moved {
			break
		}
	}
	for _, th := range vsSpawned {
		if !th.done {
			w.fail("C20", "stuck", fmt.Sprintf("callback goroutine never finished (parked at %s)", th.pos))
			return
		}
	}
	if w.rx == nil {
		return
	}
	w.res.Settles++
	// C20: every byte the peer flushed has been offered, unless the stream was closed locally
	if !w.localCloseCalled && w.unoffered() > 0 {
		w.failKf("C20", "stranded", fmt.Sprintf("settled, stream not closed locally, but messages %v were delivered and only %v offered to OnData (state %s, %d bytes left in the read buffer)", w.delivered, w.offered, ssState(w.rx), w.rx.recvBuf.len))
	}
	// C10: exactly one of OnLocalClose/OnRemoteClose per closure; a local Close reaches the peer
	if w.localCb+w.remoteCb > 1 {
		w.failKf("C10", "callback-twice", fmt.Sprintf("OnLocalClose x%d, OnRemoteClose x%d", w.localCb, w.remoteCb))
	}
	if ssState(w.rx) == "closed" && w.localCb+w.remoteCb != 1 {
		w.failKf("C10", "callback-missing", fmt.Sprintf("stream closed with OnLocalClose x%d, OnRemoteClose x%d", w.localCb, w.remoteCb))
	}
	if w.localCloseCalled {
		if ssState(w.rx) != "closed" {
			w.failKf("C10", "close-not-final", fmt.Sprintf("Close() was called but the settled state is %s", ssState(w.rx)))
		}
		// deliver B's events to A: the peer must learn of the close
		vsReset(vsOff)
		w.pair.settle()
		vsReset(vsSched)
		if ssState(w.tx) == "open" && w.remoteCb == 0 {
			w.failKf("C10", "peer-not-told", "Close() was called on the callback-mode stream, the session is settled, and the peer's end is still open")
		}
	}
}

// cleanup closes both ends, settles the pair and checks the buffer ledger (C09): nothing allocated, free lists intact
func (w *cbWorld) cleanup() string {
	vsReset(vsOff)
	if w.tx != nil {
		w.tx.Close()
	}
	if w.rx != nil {
		w.rx.Close()
	}
	w.pair.settle()
	if d := w.pair.integrity(); d != "" {
		return "both ends closed and settled: " + d
	}
	if used := w.pair.inUse(w.pair.A); used != 0 {
		return fmt.Sprintf("both ends of the stream are closed and the session is settled, but %d buffer(s) are still allocated", used)
	}
	return ""
}

func TestVS_Callback(t *testing.T) {
	var job cbJob
	b, err := os.ReadFile(os.Getenv("VS_IN_JOB"))
	if err != nil {
		t.Skip("no job")
	}
	if err := json.Unmarshal(b, &job); err != nil {
		t.Fatal(err)
	}
	res := &cbResult{Violations: []cbViolation{}, Drift: []string{}, Samples: []string{}, KnownHits: map[string]int{}, KnownWit: map[string]string{}, Points: map[string]int{}}
	defer func() {
		out, _ := json.Marshal(res)
		os.WriteFile(os.Getenv("VS_OUT"), out, 0o644)
	}()
	var pair *vpPair
	mkPair := func() {
		if pair != nil {
			pair.destroy()
		}
		var err error
		pair, err = vpNewPair(vpConfig{Sizes: []uint32{4}, Percents: []uint32{100}, MemSize: 2048, QueueCap: 8})
		if err != nil {
			t.Fatal(err)
		}
	}
	mkPair()
	defer func() { pair.destroy() }()

	run := func(sc cbSchedule, conform bool) {
		known := job.Known
		if sc.Raw {
			known = nil
		}
		w := cbNewWorld(pair, sc.Events, sc.InOnData, known, res)
		w.keepPinned = sc.KeepPinned
		drift := false
		func() {
			defer func() {
				if r := recover(); r != nil {
					w.fail("C20", "panic", fmt.Sprint(r))
				}
			}()
			for i, st := range sc.Steps {
				ok := w.do(st)
				res.Steps++
				if w.viol != nil {
					break
				}
				if !ok {
					if conform && !drift {
						drift = true
						res.DriftCount++
						if len(res.Drift) < 5 {
							res.Drift = append(res.Drift, fmt.Sprintf("%s step %d %s(%d): not applicable", sc.Name, i, st.Act, st.C))
						}
					}
					continue
				}
				if conform && st.Exp != nil && !drift {
					if d := cbDiff(w.project(), st.Exp); d != "" {
						drift = true
						res.DriftCount++
						if len(res.Drift) < 5 {
							res.Drift = append(res.Drift, fmt.Sprintf("%s step %d %s(%d): %s", sc.Name, i, st.Act, st.C, d))
						}
					}
				}
			}
			if w.viol == nil {
				w.finish()
			}
		}()
		if w.viol != nil {
			w.viol.Schedule, w.viol.Steps = sc.Name, sc.Steps
			w.viol.Events, w.viol.UserClose, w.viol.InOnData = sc.Events, sc.UserClose, sc.InOnData
			w.viol.KeepPinned = sc.KeepPinned
			w.viol.Kf = w.kf
			res.Violations = append(res.Violations, *w.viol)
		}
		res.Replayed++
		if !drift {
			res.Conforming++
		}
		bad := w.viol != nil
		w.closeWorld()
		if bad {
			mkPair()
		} else if d := w.cleanup(); d != "" {
			res.Violations = append(res.Violations, cbViolation{Property: "C09", Kind: "ledger", Detail: d, Schedule: sc.Name, Steps: sc.Steps,
				Events: sc.Events, UserClose: sc.UserClose, InOnData: sc.InOnData, KeepPinned: sc.KeepPinned, Kf: w.kf})
			mkPair()
		}
		res.LedgerChecks++
	}
	for _, sc := range job.Schedules {
		run(sc, true)
		if len(res.Violations) >= 8 {
			return
		}
	}
	// random interleavings on the real code (oracles only): at every step a random enabled party moves
	rng := rand.New(rand.NewSource(job.Random.Seed))
	alphabet := []string{"ddd", "ddc", "d", "dddd", "dc", "dd", "dddc"}
	for r := 0; r < job.Random.N; r++ {
		ev := alphabet[rng.Intn(len(alphabet))]
		sc := cbSchedule{Name: fmt.Sprintf("random%s seed=%d run=%d", job.Random.Tag, job.Random.Seed, r), Events: ev, UserClose: rng.Intn(2) == 0, InOnData: rng.Intn(4) == 0,
			KeepPinned: job.Random.Tag != "" && rng.Intn(2) == 0}
		w := cbNewWorld(pair, sc.Events, sc.InOnData, job.Known, res)
		w.keepPinned = sc.KeepPinned
		userStarted := false
		sticky := job.Random.Tag != "" && rng.Intn(2) == 0
		var lastTh *vsThread
		func() {
			defer func() {
				if rec := recover(); rec != nil {
					w.fail("C20", "panic", fmt.Sprint(rec))
				}
			}()
			for step := 0; step < 3000 && w.viol == nil; step++ {
				type cand struct {
					kind int // 0 step thread, 1 next event, 2 user close
					th   *vsThread
				}
				var cs []cand
				ths := []*vsThread{w.ethr.th, w.uthr.th}
				ths = append(ths, vsSpawned...)
				for _, th := range ths {
					if !th.done && th.pos != "idle" && vsEnabled(th) {
						cs = append(cs, cand{0, th})
					}
				}
				// arrivals and the user's Close are spread over the run: they become candidates only now and then, so that
				// they also land when the callback goroutine is about to leave
				if w.ethr.th.pos == "idle" && w.next < len(w.events) && (len(cs) == 0 || rng.Intn(5) == 0) {
					cs = append(cs, cand{1, nil})
				}
				if sc.UserClose && !userStarted && w.uthr.th.pos == "idle" && rng.Intn(8) == 0 {
					cs = append(cs, cand{2, nil})
				}
				if len(cs) == 0 {
					break
				}
				c := cs[rng.Intn(len(cs))]
				// sticky runs: a party keeps going for long stretches (few preemptions at random places), which reaches
				// "one party overtakes the other inside a section" orderings that uniform stepping makes very unlikely
				if sticky && lastTh != nil && rng.Intn(100) < 85 {
					for _, k := range cs {
						if k.kind == 0 && k.th == lastTh {
							c = k
							break
						}
					}
				}
				lastTh = nil
				if c.kind == 0 {
					lastTh = c.th
				}
				switch c.kind {
				case 0:
					w.stepThread(c.th)
					sc.Steps = append(sc.Steps, cbStep{Act: "step", C: c.th.id})
				case 1:
					w.do(cbStep{Act: "EData"})
					sc.Steps = append(sc.Steps, cbStep{Act: "ENext"})
				case 2:
					userStarted = true
					w.do(cbStep{Act: "UStart"})
					sc.Steps = append(sc.Steps, cbStep{Act: "UStart"})
				}
				res.RandomSteps++
			}
			if w.viol == nil {
				w.finish()
			}
		}()
		if w.viol != nil {
			w.viol.Schedule, w.viol.Steps = sc.Name, sc.Steps
			w.viol.Events, w.viol.UserClose, w.viol.InOnData = sc.Events, sc.UserClose, sc.InOnData
			w.viol.KeepPinned = sc.KeepPinned
			w.viol.Kf = w.kf
			res.Violations = append(res.Violations, *w.viol)
		}
		bad := w.viol != nil
		w.closeWorld()
		if bad {
			mkPair()
		} else if d := w.cleanup(); d != "" {
			res.Violations = append(res.Violations, cbViolation{Property: "C09", Kind: "ledger", Detail: d, Schedule: sc.Name, Steps: sc.Steps,
				Events: sc.Events, UserClose: sc.UserClose, InOnData: sc.InOnData, KeepPinned: sc.KeepPinned, Kf: w.kf})
			mkPair()
		}
		res.LedgerChecks++
		res.RandomRuns++
		if len(res.Samples) < 3 {
			res.Samples = append(res.Samples, fmt.Sprintf("events=%s userclose=%v closeInOnData=%v steps=%d", sc.Events, sc.UserClose, sc.InOnData, len(sc.Steps)))
		}
		if len(res.Violations) >= 8 {
			return
		}
	}
}

// cbFix turns the k-th "ENext" placeholder into EData / EClose according to the event string
func cbFix(sc cbSchedule) cbSchedule {
	k := 0
	for i := range sc.Steps {
		if sc.Steps[i].Act == "ENext" {
			if k < len(sc.Events) && sc.Events[k] == 'c' {
				sc.Steps[i].Act = "EClose"
			} else {
				sc.Steps[i].Act = "EData"
			}
			k++
		}
	}
	return sc
}
