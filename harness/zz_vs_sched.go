package shmipc

// Verification scheduler, injected with `go test -overlay` next to the instrumented sources (never part of /repo).
//
// Mode 0 (off): every hook returns at once.
// Mode 1 (serialising scheduler): exactly one registered vsThread runs at a time; vsStep(t) lets t execute exactly one
//        shared access (the one it is parked in front of) plus the local code up to its next scheduling point.
// Mode 2 (gates): free-running goroutines; a test arms "park whoever reaches a scheduling point whose label has this
//        prefix for the n-th time" and releases it later.

import (
	"fmt"
	"runtime"
	"strings"
	"sync"
	"sync/atomic"
	"time"
)

var vsMode uint32

const (
	vsOff   = 0
	vsSched = 1
	vsGate  = 2
)

type vsLocker interface {
	Lock()
	Unlock()
	TryLock() bool
}

type vsThread struct {
	id       int
	resume   chan struct{}
	parked   chan string
	pos      string // label of the scheduling point the thread is parked at ("" = not started, "done" = finished)
	done     bool
	waitLock vsLocker
	waitWg   *sync.WaitGroup
	panicVal interface{}
	// harness data
	Data interface{}
}

var (
	vsCur       *vsThread
	vsLockOwner = map[vsLocker]*vsThread{}
	vsWgCount   = map[*sync.WaitGroup]int{}
	vsSpawned   []*vsThread // threads created by instrumented code (gopool.Go) while the scheduler is on
	vsMu        sync.Mutex
)

func vsReset(mode uint32) {
	vsMu.Lock()
	vsCur = nil
	vsLockOwner = map[vsLocker]*vsThread{}
	vsWgCount = map[*sync.WaitGroup]int{}
	vsSpawned = nil
	vsGates = nil
	vsMu.Unlock()
	atomic.StoreUint32(&vsMode, mode)
}

func vsYield(pos string) {
	switch atomic.LoadUint32(&vsMode) {
	case vsOff:
		return
	case vsSched:
		t := vsCur
		if t == nil {
			return
		}
		t.parked <- pos
		<-t.resume
	case vsGate:
		vsGateCheck(pos)
	}
}

// vsSpawn creates a scheduler thread; fn starts running at the first vsStep.
func vsSpawn(id int, fn func(t *vsThread)) *vsThread {
	t := &vsThread{id: id, resume: make(chan struct{}), parked: make(chan string)}
	go func() {
		<-t.resume
		defer func() {
			if r := recover(); r != nil {
				t.panicVal = fmt.Sprintf("%v [%s]", r, vsShortStack())
			}
			t.done = true
			t.parked <- "done"
		}()
		fn(t)
	}()
	return t
}

// vsStep resumes t and waits until it parks again. It returns the label of the point t was parked at (the access that
// has now been executed) and the label where it is parked now.
func vsStep(t *vsThread) (executed, now string) {
	if t.done {
		panic("vsStep on finished thread")
	}
	executed = t.pos
	vsCur = t
	t.resume <- struct{}{}
	select {
	case t.pos = <-t.parked:
	case <-time.After(20 * time.Second):
		panic(fmt.Sprintf("vsStep: thread %d did not reach a scheduling point within 20s after %q (blocked on something the scheduler does not know)", t.id, executed))
	}
	vsCur = nil
	return executed, t.pos
}

// vsEnabled: may t be stepped now (not finished, not waiting for a held lock or a non-zero wait group)?
func vsEnabled(t *vsThread) bool {
	if t.done {
		return false
	}
	if t.waitLock != nil && vsLockOwner[t.waitLock] != nil {
		return false
	}
	if t.waitWg != nil && vsWgCount[t.waitWg] > 0 {
		return false
	}
	return true
}

func vsLock(pos string, m vsLocker) {
	if atomic.LoadUint32(&vsMode) != vsSched || vsCur == nil {
		if atomic.LoadUint32(&vsMode) == vsGate {
			vsGateCheck(pos)
		}
		m.Lock()
		return
	}
	t := vsCur
	t.waitLock = m
	vsYield(pos)
	t.waitLock = nil
	if !m.TryLock() {
		panic("vs: scheduler resumed a thread whose lock is held: " + pos)
	}
	vsLockOwner[m] = t
}

func vsUnlock(pos string, m vsLocker) {
	if atomic.LoadUint32(&vsMode) == vsSched && vsCur != nil {
		vsYield(pos)
		delete(vsLockOwner, m)
	}
	m.Unlock()
}

// vsGo replaces gopool.Go inside instrumented functions.
func vsGo(pos string, f func()) {
	if atomic.LoadUint32(&vsMode) != vsSched || vsCur == nil {
		if atomic.LoadUint32(&vsMode) == vsGate {
			go func() { vsGateCheck(pos); f() }()
			return
		}
		go f()
		return
	}
	t := vsSpawn(1000+len(vsSpawned), func(t *vsThread) { vsYield(pos); f() })
	// run it to its first scheduling point (the label pos) so that it is parked like every other thread
	parent := vsCur
	vsStepSpawn(t)
	vsCur = parent
	vsSpawned = append(vsSpawned, t)
}

func vsStepSpawn(t *vsThread) {
	vsCur = t
	t.resume <- struct{}{}
	t.pos = <-t.parked
}

func vsWgAdd(wg *sync.WaitGroup, n int) {
	if atomic.LoadUint32(&vsMode) == vsSched {
		vsWgCount[wg] += n
	}
	wg.Add(n)
}

func vsWgWait(pos string, wg *sync.WaitGroup) {
	if atomic.LoadUint32(&vsMode) != vsSched || vsCur == nil {
		wg.Wait()
		return
	}
	t := vsCur
	t.waitWg = wg
	vsYield(pos)
	t.waitWg = nil
	wg.Wait()
}

// ---- atomic wrappers

func vsAtomicLoadUint32(pos string, p *uint32) uint32 { vsYield(pos); return atomic.LoadUint32(p) }
func vsAtomicLoadInt32(pos string, p *int32) int32    { vsYield(pos); return atomic.LoadInt32(p) }
func vsAtomicLoadInt64(pos string, p *int64) int64    { vsYield(pos); return atomic.LoadInt64(p) }
func vsAtomicLoadUint64(pos string, p *uint64) uint64 { vsYield(pos); return atomic.LoadUint64(p) }
func vsAtomicStoreUint32(pos string, p *uint32, v uint32) {
	vsYield(pos)
	atomic.StoreUint32(p, v)
}
func vsAtomicStoreInt32(pos string, p *int32, v int32) { vsYield(pos); atomic.StoreInt32(p, v) }
func vsAtomicStoreInt64(pos string, p *int64, v int64) { vsYield(pos); atomic.StoreInt64(p, v) }
func vsAtomicAddInt32(pos string, p *int32, d int32) int32 {
	vsYield(pos)
	return atomic.AddInt32(p, d)
}
func vsAtomicAddInt64(pos string, p *int64, d int64) int64 {
	vsYield(pos)
	return atomic.AddInt64(p, d)
}
func vsAtomicAddUint32(pos string, p *uint32, d uint32) uint32 {
	vsYield(pos)
	return atomic.AddUint32(p, d)
}
func vsAtomicAddUint64(pos string, p *uint64, d uint64) uint64 {
	// statistics counters: not shared-memory protocol state, no scheduling point (still a gate label)
	if atomic.LoadUint32(&vsMode) == vsGate {
		vsGateCheck(pos)
	}
	return atomic.AddUint64(p, d)
}
func vsAtomicCompareAndSwapUint32(pos string, p *uint32, o, n uint32) bool {
	vsYield(pos)
	return atomic.CompareAndSwapUint32(p, o, n)
}
func vsAtomicCompareAndSwapInt32(pos string, p *int32, o, n int32) bool {
	vsYield(pos)
	return atomic.CompareAndSwapInt32(p, o, n)
}
func vsAtomicCompareAndSwapInt64(pos string, p *int64, o, n int64) bool {
	vsYield(pos)
	return atomic.CompareAndSwapInt64(p, o, n)
}
func vsAtomicSwapUint32(pos string, p *uint32, n uint32) uint32 {
	vsYield(pos)
	return atomic.SwapUint32(p, n)
}

// ---- gates

type vsGateT struct {
	prefix  string
	nth     int
	count   int
	hit     chan struct{}
	release chan struct{}
	fired   bool
}

var vsGates []*vsGateT

// vsGateArm: the nth time (1-based) a goroutine reaches a scheduling point whose label starts with prefix it parks
// until vsGateRelease. Only effective in mode vsGate.
func vsGateArm(prefix string, nth int) *vsGateT {
	g := &vsGateT{prefix: prefix, nth: nth, hit: make(chan struct{}), release: make(chan struct{})}
	vsMu.Lock()
	vsGates = append(vsGates, g)
	vsMu.Unlock()
	return g
}

func vsGateCheck(pos string) {
	vsMu.Lock()
	var hitGate *vsGateT
	for _, g := range vsGates {
		if g.fired || !strings.HasPrefix(pos, g.prefix) {
			continue
		}
		g.count++
		if g.count == g.nth {
			g.fired = true
			hitGate = g
			break
		}
	}
	vsMu.Unlock()
	if hitGate != nil {
		close(hitGate.hit)
		<-hitGate.release
	}
}

func (g *vsGateT) waitHit(d time.Duration) bool {
	select {
	case <-g.hit:
		return true
	case <-time.After(d):
		return false
	}
}

func (g *vsGateT) releaseGate() {
	vsMu.Lock()
	g.fired = true
	vsMu.Unlock()
	select {
	case <-g.release:
	default:
		close(g.release)
	}
}


// vsShortStack: the library frames of the panicking goroutine (function:line), innermost first
func vsShortStack() string {
	pcs := make([]uintptr, 32)
	n := runtime.Callers(3, pcs)
	fr := runtime.CallersFrames(pcs[:n])
	var out []string
	for {
		f, more := fr.Next()
		if strings.Contains(f.Function, "shmipc") && !strings.Contains(f.Function, ".vs") {
			name := f.Function[strings.LastIndex(f.Function, "/")+1:]
			out = append(out, fmt.Sprintf("%s:%d", name, f.Line))
		}
		if !more || len(out) >= 8 {
			break
		}
	}
	return strings.Join(out, " < ")
}
